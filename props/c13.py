"""C13 - API events stay well-formed whatever a peer sends

Development aid: VERIF_C13_KNOWN="pattern,pattern" (fnmatch on signatures) turns matching problems into
`tolerated:<signature>` classes so that the search goes on behind findings which are not yet listed in
known_findings.json.  Registered commands never set it.

One decoded message yields up to 4 encoders x (parsed, consolidated, packets[, negotiated, down]) records and a case may
break several clauses at once.  Every problem of the case is collected; the one raised is the first whose signature is
neither tolerated nor listed in known_findings.json (so the runner's search is not stopped by the listed ones), else
the first listed one (so the runner counts the hit).
"""

from __future__ import annotations

import fnmatch
import json
import os
import shutil
import subprocess
import sys
import tempfile

from vlib import c13_corpus as corpus
from vlib import c13_findings as findings
from vlib import c13_hostile as hostile
from vlib import c13_oracle as oracle
from vlib import c13_render as rd
from vlib import c13_trees as trees
from vlib import exa
from vlib.runner import Engine, Violation, exception_signature, load_findings, sig_matches

PROPERTY = 'C13'
RULE = (
    'hostile-strings: well-formed OPEN (hostname/domain capability 73, software version 75, unknown capability), NOTIFICATION 6/2 and 6/4 with a '
    'shutdown communication (right / wrong length octet, trailer) and other codes with raw data, OPERATIONAL ADM/ASM advisories and unknown types, '
    'UPDATE with unknown optional attributes, with BGP-LS attribute 29 (node name, link name, the three opaque TLVs, unregistered TLVs) on an IPv4, IPv6 '
    'or BGP-LS route, with Prefix-SID attribute 40 (unregistered TLVs, SRv6 L2/L3 service with unregistered sub-TLVs and sub-sub-TLVs), with an SR Policy '
    'tunnel encapsulation (policy name, candidate path name, unregistered sub-TLV and tunnel type); every peer-chosen string drawn from a hostile pool '
    '(quotes, backslashes, LF, CRLF, NUL, DEL, C0/C1 controls, U+2028/9, non-ASCII, invalid and truncated UTF-8, JSON and text event fragments, 255 octets) '
    'and rendered beside its benign twin (same lengths, all "a"). '
    'corpus-render: every qa/encoding raw message and qa/decoding vector (plus fixed KEEPALIVE / ROUTE-REFRESH / OPERATIONAL / NOTIFICATION bodies), '
    'unmodified and after 1-4 structure-aware edits (byte set/flip/insert/delete/duplicate inside one attribute value or the NLRI field; TLV-tree edits '
    '- duplicate, delete, retype, graft, hostile value - inside Prefix-SID, Tunnel-Encap, BGP-LS attributes and BGP-LS/EVPN/MVPN NLRIs with every enclosing '
    'length re-computed; attribute splice / add / drop / duplicate / flag flip from the corpus bank), asn4 and add-path of the session toggled. '
    'tlv-trees: Prefix-SID / Tunnel-Encap / BGP-LS attribute values and BGP-LS / EVPN / MVPN NLRI fields assembled level by level from the bank of every '
    'TLV the corpus holds plus synthetic ones (repeats, unregistered types, hostile or extreme leaf values), and flat attributes of fixed-size records '
    '(extended communities incl. NaN / infinite rates, IPv6 extended communities, large communities, AIGP, PMSI). '
    'atheris-render (thorough tier): libFuzzer on the same decode-render-judge function, seeded with the vectors and the witnesses. '
    'The witnesses of vlib/c13_findings.py (one minimal input per known root cause) run as enumerated cases in every tier. '
    'What Message.unpack accepts goes through Response.JSON (v6), V4.JSON, V4.Text and Response.Text, as parsed event (with and without header/body = '
    'consolidate on/off), as packets event, OPENs also as negotiated event, NOTIFICATIONs also as down event, and every string through the real '
    'Processes.write in async queue mode. '
    'Non-trivial = the message decoded and carried >= 1 peer-chosen string or >= 1 attribute / NLRI outside the IP families'
)
def _atheris_available() -> bool:
    try:
        import atheris  # noqa: F401

        return True
    except Exception:  # noqa: BLE001 - the Hypothesis engines do not need it
        return False


ASSUMPTIONS = [
    'the encoders are called with the objects Processes._open/_update/... hand them (Update -> .data, EOR as is, operational.category); header = marker+length+type, body = the message body',
    'Response.Text is rendered although Processes._start never selects it (API v6 is JSON only): problems seen only there carry the encoder name text6',
    'not demanded: the values themselves (C02); trailing blank lines of a text event; the ` header .. body ..` line of a consolidated text update is the documented packet line',
    'a peer string may legitimately show as text (UTF-8, undecodable parts replaced, CR/LF blanked) or as hex; field-forged compares key paths + JSON types with the benign twin of the same length',
    'an input Message.unpack refuses (Notify or any exception) is outside this property (C03 / C08 decide those): counted as refused:*',
    'json6 and json4 (text4 and text6) showing the same clause on the same object share one signature json:* (text:*), all four all:*: V4.JSON and V4.Text delegate to JSON',
    'NaN / Infinity as bare words are not JSON (RFC 8259 section 6) although Python reads them back: clause non-json-number',
    'a duplicate-key / unparseable signature names the key path of the offending object (numbers and addresses normalised), a text one the event kind only: '
    'every non-ASCII character in a text event comes through the one oneline() + ASCII-strict write() pair',
    'atheris engine: ' + ('atheris importable' if _atheris_available() else 'ATHERIS NOT IMPORTABLE - only the Hypothesis engines run'),
]

QUICK_SHARDS = 6

TOLERATED = [p for p in os.environ.get('VERIF_C13_KNOWN', '').split(',') if p]
_KNOWN: list = []
_KNOWN_LOADED = [False]


def known_entries() -> list:
    if not _KNOWN_LOADED[0]:
        _KNOWN_LOADED[0] = True
        try:
            _KNOWN.extend(load_findings(PROPERTY)[0])
        except Exception:  # noqa: BLE001 - no list, nothing is known
            pass
    return _KNOWN


# ---------------------------------------------------------------------------- sessions

_SESSIONS: dict = {}
EXT_NH = hostile.build.cap_ext_nh([(1, 1, 2), (1, 128, 2), (2, 1, 1)])
_FAMILIES: list = []


def all_families() -> list:
    if not _FAMILIES:
        from exabgp.bgp.message.update.nlri import NLRI

        _FAMILIES.extend(sorted((int(a), int(s)) for a, s in NLRI.known_families()))
    return _FAMILIES


def session(asn4: bool = True, addpath: bool = False, base: int = 1, extnh: bool = False):
    """(neighbor, negotiated) of a session on which every family we know is negotiated"""
    key = (asn4, addpath, base, extnh)
    if key not in _SESSIONS:
        n = base * 16 + (4 if extnh else 0) + (2 if asn4 else 0) + (1 if addpath else 0) + 1
        text = exa.neighbor_text(
            peer_ip=f'127.13.{base}.{n}',
            local_as=65000,
            peer_as=hostile.PEER_AS,
            families=['all'],
            capability={'asn4': 'enable' if asn4 else 'disable', 'add-path': 'send/receive' if addpath else 'disable', 'operational': 'enable', 'aigp': 'enable', 'extended-message': 'enable', 'route-refresh': 'enable', 'nexthop': 'enable' if extnh else 'disable'},
            addpath_families=None,
            nexthop=['ipv4 unicast ipv6', 'ipv4 mpls-vpn ipv6', 'ipv6 unicast ipv4'] if extnh else None,
        )
        conf, neighbor = exa.neighbor_from_text(text)
        neg = exa.negotiate(neighbor, hostile.peer_open_all(all_families(), asn4=asn4, addpath=addpath, extra=[EXT_NH] if extnh else None), exa.Direction.IN)
        _SESSIONS[key] = (neighbor, neg)
    return _SESSIONS[key]


# ---------------------------------------------------------------------------- judging the events of one message


def versions() -> dict:
    from exabgp.version import json as json_version
    from exabgp.version import json_v4

    return {'json6': json_version, 'json4': json_v4}


def judge_events(events: list, body: bytes, taints: list, benign_docs: dict | None) -> tuple[list, list, dict]:
    """-> ([(encoder, kind, Problem)], classes, {(encoder, kind, mode): parsed json})"""
    found: list = []
    classes: list = []
    docs: dict = {}
    ver = versions()
    for ev in events:
        classes.append(f'event:{ev.encoder}:{ev.kind}')
        if ev.error is not None:
            sig = exception_signature('render', ev.error)
            found.append((ev.encoder, ev.kind, oracle.Problem(sig, '', f'{ev.error!r}'[:300])))
            continue
        if ev.string is None:
            classes.append(f'no-record:{ev.encoder}:{ev.kind}')
            continue
        is_json = ev.encoder.startswith('json')
        for p in oracle.judge_written(ev.string, ev.written, ev.write_error):
            if isinstance(ev.write_error, UnicodeEncodeError):
                if is_json:
                    bad = next(i for i, c in enumerate(ev.string) if ord(c) > 127)
                    p.culprit = oracle.norm_path(oracle.path_at(ev.string, bad))
                else:
                    # one root cause whatever the object: oneline() lets printable non-ASCII through and write() is ASCII-strict
                    classes.append(f'non-ascii-text-from:{oracle.non_ascii_culprit(ev.string, taints)}')
                p.message += f' in {ev.string[:240]!r}'
            found.append((ev.encoder, ev.kind, p))
        if is_json:
            # the record is what the API process reads: the octets Processes.write put on the pipe (its writer escapes what
            # is not ASCII with backslashreplace, and \\xNN / \\UNNNNNNNN are not JSON escapes), not the encoder's string
            on_pipe = ev.string
            if ev.written is not None and ev.write_error is None:
                on_pipe = ev.written.decode('ascii', 'replace')
                if on_pipe != ev.string + '\n' and on_pipe != ev.string:
                    classes.append('json-line-changed-by-the-pipe-writer')
            doc, problems = oracle.judge_json(on_pipe, ev.kind, ev.mode, ver[ev.encoder], bool(body))
            for p in problems:
                p.message += f' | {ev.string[:200]!r}' if p.clause == 'envelope' else ''
                found.append((ev.encoder, ev.kind, p))
            if doc is not None:
                docs[(ev.encoder, ev.kind, ev.mode)] = doc
                if taints:
                    twin = benign_docs.get((ev.encoder, ev.kind, ev.mode)) if benign_docs is not None else None
                    problems, visible = oracle.judge_taint(doc, twin, taints)
                    for p in problems:
                        found.append((ev.encoder, ev.kind, p))
                    if visible and ev.kind not in ('packets', 'down', 'negotiated'):
                        classes.append('taint-visible-in-json-value')
        else:
            packet_line = ev.mode == 'c' and ev.kind in ('update', 'eor')
            for p in oracle.judge_text(ev.string, ev.kind, ev.lines_expected or 1, ev.peer, packet_line):
                found.append((ev.encoder, ev.kind, p))
    return found, classes, docs


def signatures(found: list) -> list:
    """[(signature, message)] - json6+json4 (text4+text6) agreeing on a root cause share one signature"""
    by_root: dict = {}
    for enc, kind, p in found:
        entry = by_root.setdefault((kind, p.clause, p.culprit), {'encoders': set(), 'message': p.message})
        entry['encoders'].add(enc)
    out = []
    for (kind, clause, culprit), entry in by_root.items():
        encs = entry['encoders']
        families = {'json' if e.startswith('json') else 'text' for e in encs}
        # one encoder alone keeps its name (text6: the encoder production never picks; json4 / json6: the v4 and v6 NLRI renderings differ);
        # both encoders of a family: the family; both families (an exception out of str() / json() of one object): all
        name = next(iter(encs)) if len(encs) == 1 else (next(iter(families)) if len(families) == 1 else 'all')
        sig = f'{name}:{kind}:{clause}' + (f':{culprit}' if culprit else '')
        out.append((sig, entry['message']))
    # a stable order: unparseable / exceptions before the clauses which follow from them
    rank = {'render': 0, 'unparseable': 1, 'non-json-number': 1, 'duplicate-key': 2, 'control-character': 3, 'line-count': 3, 'field-forged': 4}
    out.sort(key=lambda sm: (min([r for k, r in rank.items() if k in sm[0]] or [5]), sm[0]))
    return out


def settle(found: list, classes: list, context: str) -> None:
    """raise the violation of this case, if any (see the module docstring for which one)"""
    listed = None
    for sig, message in signatures(found):
        if any(fnmatch.fnmatchcase(sig, p) for p in TOLERATED):
            classes.append(f'tolerated:{sig}')
            continue
        if any(sig_matches(e, sig) for e in known_entries()):
            classes.append(f'listed:{sig}')
            listed = listed or (sig, message)
            continue
        raise Violation(sig, f'{message} | {context}')
    if listed:
        raise Violation(listed[0], f'{listed[1]} | {context}')


def decode_and_render(msg_type: int, body: bytes, neighbor, negotiated, encoders_wanted=None):
    """-> (message, events, refusal class or None)"""
    try:
        message, events = rd.render(msg_type, body, neighbor, negotiated, 'receive', encoders_wanted)
    except exa.Notify as exc:
        return None, [], f'refused:notify-{exc.code}-{exc.subcode}'
    except Exception as exc:  # noqa: BLE001 - decoding is C03's / C08's
        return None, [], f'refused:{type(exc).__name__}'
    return message, events, None


IP_FAMILIES = {(1, 1), (1, 2), (1, 4), (1, 128), (2, 1), (2, 2), (2, 4), (2, 128)}
CLASSIC_ATTRIBUTES = {1, 2, 3, 4, 5, 6, 7, 8, 9, 10, 14, 15, 16, 17, 18, 32}


def describe_message(msg_type: int, message) -> tuple[bool, list]:
    """(non-trivial, classes) read off the decoded message"""
    classes = []
    nontrivial = False
    if msg_type == 2:
        if getattr(message, 'IS_EOR', False):
            fams = {(int(n.afi), int(n.safi)) for n in message.nlris}
            codes: set = set()
        else:
            data = message.data
            fams = {tuple(int(x) for x in r.nlri.family().afi_safi()) for r in data.announces} | {tuple(int(x) for x in n.family().afi_safi()) for n in data.withdraws}
            codes = {int(c) for c in data.attributes.keys()}
        for f in sorted(fams):
            classes.append(f'family:{f[0]}/{f[1]}')
        for c in sorted(codes - CLASSIC_ATTRIBUTES):
            classes.append(f'attribute:{c}' if c < 0xFF00 else 'attribute:internal')
        nontrivial = bool(fams - IP_FAMILIES) or bool({c for c in codes if c < 0xFF00} - CLASSIC_ATTRIBUTES)
    elif msg_type == 1:
        ids = {int(k) for k in message.capabilities.keys()}
        for k in sorted(ids):
            classes.append(f'capability:{k}')
        nontrivial = bool(ids & {73, 75}) or any(type(v).__name__.startswith('Unknown') for v in message.capabilities.values())
    elif msg_type == 3:
        nontrivial = len(message.raw_data) > 0
        classes.append(f'notification:{message.code}/{message.subcode}' if (message.code, message.subcode) in ((6, 2), (6, 4)) else 'notification:other')
    elif msg_type == 6:
        classes.append(f'operational:{message.category or "none"}')
        nontrivial = message.category in ('advisory', 'unknown')
    return nontrivial, classes


# ---------------------------------------------------------------------------- engine 1: hostile strings


def check_hostile(case: dict) -> dict:
    exa.reset_global_state()
    msg_type, body = hostile.build_case(case)
    _, twin_body = hostile.build_case(case, benign=True)
    neighbor, neg = session(True, False, 1)
    for_events = rd.half_negotiated(neighbor) if msg_type == 1 else neg
    classes = [f'kind:{case["kind"]}']
    taints = [{'label': s['label'], 'hex': s['hex']} for s in case['slots']]
    for t in taints:
        classes += hostile.describe(bytes.fromhex(t['hex']))
        classes.append(f'slot:{t["label"]}')
    message, events, refused = decode_and_render(msg_type, body, neighbor, for_events)
    if refused:
        return {'nontrivial': False, 'classes': sorted(set(classes + [refused, f'{refused}:{case["kind"]}']))}
    if msg_type == 1:
        try:
            events += rd.render_negotiated(neighbor, exa.negotiate(neighbor, body, exa.Direction.IN))
        except exa.Notify:
            classes.append('negotiation-refused')
    # the benign twin: same lengths, payloads made of "a"
    exa.reset_global_state()
    twin_message, twin_events, twin_refused = decode_and_render(msg_type, twin_body, neighbor, for_events, ('json6', 'json4'))
    twin_docs: dict | None = None
    if twin_refused:
        classes.append('twin-refused')
    else:
        if msg_type == 1:
            try:
                twin_events += [e for e in rd.render_negotiated(neighbor, exa.negotiate(neighbor, twin_body, exa.Direction.IN)) if e.encoder.startswith('json')]
            except exa.Notify:
                pass
        twin_docs = {}
        for ev in twin_events:
            if ev.string is not None and ev.error is None:
                try:
                    twin_docs[(ev.encoder, ev.kind, ev.mode)] = oracle.strict_loads(ev.string)
                except ValueError:
                    pass
    found, ev_classes, _ = judge_events(events, body, taints, twin_docs)
    classes += ev_classes
    nontrivial, msg_classes = describe_message(msg_type, message)
    classes += msg_classes
    settle(found, classes, f'{case["kind"]} message type {msg_type} body {body.hex()[:600]}')
    return {'nontrivial': True, 'classes': sorted(set(classes))}


def hostile_cases():
    return hostile.cases().filter(lambda c: c['kind'] != 'open' or hostile.fits_open(c))


# ---------------------------------------------------------------------------- engine 2: corpus render


def check_corpus(case: dict) -> dict:
    exa.reset_global_state()
    msg_type = case['type']
    body = bytes.fromhex(case['body'])
    neighbor, neg = session(case['asn4'], case['addpath'], 2, bool(case.get('extnh')))
    for_events = rd.half_negotiated(neighbor) if msg_type == 1 else neg
    classes = [f'type:{msg_type}', 'mutated' if case['ops'] else 'seed']
    message, events, refused = decode_and_render(msg_type, body, neighbor, for_events)
    if refused:
        return {'nontrivial': False, 'classes': sorted(set(classes + [refused]))}
    classes.append(f'decoded:type-{msg_type}' + (':mutated' if case['ops'] else ':seed'))
    if msg_type == 1:
        try:
            events += rd.render_negotiated(neighbor, exa.negotiate(neighbor, body, exa.Direction.IN))
        except exa.Notify:
            classes.append('negotiation-refused')
        except Exception:  # noqa: BLE001 - negotiation of a mutated OPEN is C07's
            classes.append('negotiation-exception')
    found, ev_classes, _ = judge_events(events, body, [], None)
    classes += ev_classes
    nontrivial, msg_classes = describe_message(msg_type, message)
    classes += msg_classes
    settle(found, classes, f'seed {case["seed"]} ops {case["ops"]} asn4 {case["asn4"]} addpath {case["addpath"]} message type {msg_type} body {body.hex()[:900]}')
    return {'nontrivial': nontrivial, 'classes': sorted(set(classes)), 'sample': {'seed': case['seed'], 'ops': case['ops']}}


# ---------------------------------------------------------------------------- engine 4: atheris campaign (thorough tier)

ATHERIS = _atheris_available()

HERE = os.path.dirname(os.path.dirname(os.path.abspath(__file__)))
FUZZ_TARGET = os.path.join(HERE, 'fuzz', 'fuzz_render.py')


_CAMPAIGNS: dict = {}


def run_campaign(seed: int, runs: int) -> dict:
    """one libFuzzer process on a fresh temporary corpus seeded from the qa messages and the witnesses"""
    if (seed, runs) in _CAMPAIGNS:
        return _CAMPAIGNS[(seed, runs)]
    result = _CAMPAIGNS[(seed, runs)] = _run_campaign(seed, runs)
    return result


def _run_campaign(seed: int, runs: int) -> dict:
    work = tempfile.mkdtemp(prefix='c13-fuzz-')
    try:
        seeds = os.path.join(work, 'corpus')
        env = dict(os.environ)
        env.update(
            PYTHONPATH=os.pathsep.join([exa.REPO_SRC, HERE, os.path.join(HERE, '.deps')]),
            VERIF_REPO_SRC=exa.REPO_SRC,
            VERIF_C13_FUZZ_CONTINUE='1',
            PYTHONHASHSEED='0',
            exabgp_log_enable='false',
        )
        made = subprocess.run([sys.executable, FUZZ_TARGET, '--write-seeds', seeds], env=env, cwd=HERE, stdout=subprocess.PIPE, stderr=subprocess.PIPE, timeout=300)
        if made.returncode != 0:
            raise RuntimeError(f'cannot write the seed corpus: {made.stderr.decode()[-1500:]}')
        cmd = [sys.executable, FUZZ_TARGET, seeds, f'-runs={runs}', f'-seed={seed}', '-max_len=4096', '-timeout=60', f'-artifact_prefix={work}/']
        proc = subprocess.run(cmd, env=env, cwd=HERE, stdout=subprocess.PIPE, stderr=subprocess.STDOUT, timeout=max(900, runs // 50))
        text = proc.stdout.decode(errors='replace')
        found, stats = [], {}
        for line in text.splitlines():
            if line.startswith('C13-FINDING '):
                found.append(json.loads(line[len('C13-FINDING ') :]))
            elif line.startswith('C13-STATS '):
                stats = json.loads(line[len('C13-STATS ') :])
        if proc.returncode != 0 or not stats:
            raise RuntimeError(f'fuzz target ended badly (rc={proc.returncode}): {text[-2000:]}')
        return {'findings': found, 'stats': stats}
    finally:
        shutil.rmtree(work, ignore_errors=True)


def check_campaign(case: dict) -> dict:
    if not ATHERIS:
        return {'nontrivial': False, 'classes': ['atheris:not-importable-hypothesis-engines-only']}
    result = run_campaign(int(case['seed']), int(case['runs']))
    stats = result['stats']
    classes = ['atheris:campaign', f'atheris:execs:{stats["execs"] // 1000}k', f'atheris:decoded:{stats["decoded"] // 1000}k']
    fresh = []
    for f in result['findings']:
        sig = f['signature']
        if any(fnmatch.fnmatchcase(sig, p) for p in TOLERATED):
            classes.append(f'tolerated:{sig}')
            continue
        if any(sig_matches(e, sig) for e in known_entries()):
            classes.append(f'atheris:listed:{sig}')
            continue
        # a finding must replay through the corpus-render engine with the same root cause
        try:
            check_corpus(dict(f['case']))
            replayed = None
        except Violation as v:
            replayed = v.signature
        if replayed != sig:
            raise Violation('atheris:finding-does-not-replay', f'{sig} replays as {replayed}: {json.dumps(f["case"])}')
        fresh.append(f)
    if fresh:
        first = fresh[0]
        others = '; '.join(f'{f["signature"]} -> {json.dumps(f["case"])}' for f in fresh[1:])
        raise Violation(first['signature'], f'{first["message"]} | replay with engine corpus-render: {json.dumps(first["case"])}' + (f' | also: {others}' if others else ''))
    return {'nontrivial': stats.get('decoded', 0) > 0, 'classes': classes, 'sample': {'seed': case['seed'], 'runs': case['runs'], 'stats': {k: stats[k] for k in ('execs', 'decoded', 'refused', 'violation', 'seconds') if k in stats}}}


def campaign_cases():
    from hypothesis import strategies as st

    argv = sys.argv
    tier = argv[argv.index('--tier') + 1] if '--tier' in argv and argv.index('--tier') + 1 < len(argv) else os.environ.get('VERIF_TIER', 'quick')
    if tier != 'thorough' and 'VERIF_C13_FUZZ_RUNS' not in os.environ:
        return None  # `--examples N` in the quick tier must not start N campaigns
    runs = int(os.environ.get('VERIF_C13_FUZZ_RUNS', '150000'))  # development: a shorter campaign
    # Hypothesis starts from the simplest value: without the shard number every shard would run the same campaign
    shard = int(argv[argv.index('--shard') + 1].split('/')[0]) if '--shard' in argv and argv.index('--shard') + 1 < len(argv) else 0
    return st.integers(0, 3).map(lambda i: {'seed': 1300 + 4 * shard + i, 'runs': runs})


ENGINES = [
    Engine('hostile-strings', hostile_cases, check_hostile, quick=500, thorough=12000, batch=250, fixed_cases=lambda: findings.cases_for('hostile-strings')),
    Engine('corpus-render', corpus.mutated_messages, check_corpus, quick=650, thorough=20000, batch=325, fixed_cases=lambda: corpus.seed_cases() + findings.cases_for('corpus-render')),
    Engine('tlv-trees', trees.tree_messages, check_corpus, quick=550, thorough=20000, batch=275),
    # thorough only (the instrumented start alone takes about a minute): 16 shards x 1 campaign x 150 000 executions
    Engine('atheris-render', campaign_cases, check_campaign, quick=0, thorough=1, batch=1, thorough_s=1800.0),
]
