"""C16 - FlowSpec rules mean on the wire what they say in text"""

from __future__ import annotations

import ipaddress
import json

from vlib import c16_model as model
from vlib import exa
from vlib.refwire import build
from vlib.refwire import flow as rf
from vlib.runner import Engine, Violation, exception_signature

PROPERTY = 'C16'
RULE = (
    'encode: a semantic flow rule is drawn first (IPv4 or IPv6; any subset of the component types valid for the AFI; prefixes, IPv6 with offsets; '
    '1-6 tests per component with = > < >= <= != , ranges >x&<y and & chains, bitmask ! = != with named / hex / decimal values; one keyword written twice; '
    'with and without rd; a compatible set of actions: discard, rate-limit bytes/packets, redirect AS:NN (2 and 4 octet AS), redirect IP, copy, redirect-to-nexthop with next-hop, '
    'redirect-to-nexthop-ietf, mark, action sample/terminal, accept, a plain extended-community beside them; sizes steered to 228-260, 511/512, 2047/2048 and 4093-4095 octets '
    '(and 4096+, which must be refused) with bulk port tests), written in one of four spellings (configuration file block, API `flow route { match {..} then {..} }`, '
    'flat `flow route ...`, `ipv4|ipv6 flow|flow-vpn ...`), parsed by the real Configuration, packed with Flow.pack_nlri and the attribute packers; '
    'refwire.flow decodes the bytes and they are compared with the record and with the bytes the refwire builders give. '
    'decode: well-formed NLRIs built octet by octet by refwire builders (every legal width 1/2/4/8, true/false operators, rd, lengths to 4095, a second NLRI behind) '
    'and malformed ones (undefined component id for the AFI incl. 13 under IPv4, value cut short, end-of-list missing, length field overrun) go through NLRI.unpack_nlri; '
    'Flow.rules, Flow.json() and Flow.extensive() are read back and compared with the refwire reading. '
    'Non-trivial = >= 3 components or >= 1 AND test or length >= 240 or flow-vpn or an IPv6 offset > 0'
)
ASSUMPTIONS = [
    'refwire/flow.py (reader and builders, written from RFC 8955 / 8956 figures, validated on the RFC 8956 3.8 examples and the IPv4 raw vectors of qa/encoding/conf-flow*.ci) is trusted',
    'a text the parser refuses is not a C16 case (C18 decides acceptance): counted as class refused:*; `redirect IP:NN` and `redirect [IPv6]:NN` are refused today',
    'shortest allowed width: only MUST-level width rules of the RFCs are applied (DSCP and fragment one octet, TCP flags one or two); the SHOULD of four octets for flow-label is not demanded',
    'the first test of a component has its AND bit clear; `terminal` / `sample` name the T and S bits of the traffic-action community',
    'redirect <ip>, copy <ip>, redirect-to-nexthop use draft-simpson-idr-flowspec-redirect (0x0800, C bit), redirect-to-nexthop-ietf uses draft-ietf-idr-flowspec-redirect-ip (0x010c / attribute 25 type 0x000c): they are outside RFC 8955 and only checked for self-consistency with those drafts',
    'rate-limit is compared as the IEEE 754 single nearest to the written number; values above 10^12 (documented clamp) are not generated',
    'decode: out-of-order components are not generated (rejecting them is not demanded); reserved operator bits are never set; values printed by true/false tests are not compared',
    'decode, malformed input: only NLRIs the strict reference reader rejects as undefined-component, truncated, missing-end-of-list or length-overrun must be refused; a mutation which happens to leave a well-formed NLRI is compared as well-formed',
    'IPv4 prefix trailing bits are irrelevant (RFC 4271); IPv6 prefix padding MUST be zero on encoding (RFC 8956 3.1)',
]

FAMILIES = ['ipv4 flow', 'ipv4 flow-vpn', 'ipv6 flow', 'ipv6 flow-vpn']
_STATE: dict = {}


def session():
    """one neighbor + Negotiated + the Configuration used for API text (the way the API keeps one for the process)"""
    if 'conf' not in _STATE:
        text = exa.neighbor_text(families=FAMILIES, capability={'extended-message': 'enable'})
        conf, neighbor = exa.neighbor_from_text(text)
        caps = [build.cap_mp(a, s) for a, s in [(1, 133), (1, 134), (2, 133), (2, 134)]] + [build.cap_asn4(65000), build.cap_ext_msg()]
        neg = exa.negotiate(neighbor, build.open_with_caps(65000, 90, 0x0A000002, caps), exa.Direction.IN)  # the daemon makes its one Negotiated per session with Direction.IN (reactor/protocol.py) and encodes with it
        _STATE.update(conf=conf, neg=neg)
    return _STATE['conf'], _STATE['neg']


# ---------------------------------------------------------------------------- encode


def parse_text(section: str, text: str) -> tuple:
    """(routes or None when refused, reason)"""
    conf, _ = session()
    if section == 'config':
        body = '  flow {\n    ' + text + '\n  }'
        try:
            _, neighbor = exa.neighbor_from_text(exa.neighbor_text(peer_ip='127.0.0.3', families=FAMILIES, body=body))
        except exa.ConfigError as exc:
            return None, str(exc)
        seen, routes = set(), []
        for r in neighbor.routes:
            if id(r) not in seen:
                seen.add(id(r))
                routes.append(r)
        return routes, ''
    conf.flow.clear()
    conf.static.clear()
    if not conf.partial(section, text, 'announce'):
        return None, str(conf.error)
    if conf.scope.location():
        return None, 'unfinished section'
    conf.scope.to_context()
    return conf.scope.pop_routes(), ''


def refusal_class(rule: dict, reason: str) -> str:
    kinds = {a['kind'] for a in rule['actions']}
    if 'redirect-rt-ipv4' in kinds:
        return 'refused:redirect-ip:nn'
    if 'redirect-rt-ipv6' in kinds:
        return 'refused:redirect-[ipv6]:nn'
    if rule['probe']:
        return 'refused:out-of-range-value'
    return 'refused:other'


def check_length_field(wire: bytes, text: str) -> tuple:
    """RFC 8955 4.1: one octet below 240, 0xfnnn from 240 to 4095; returns (value length, octets of the length field)"""
    shown = f'{wire[:3].hex()}... ({len(wire)} octets) for "{text[:200]}"'
    if len(wire) < 1:
        raise Violation('encode:length-value', f'empty NLRI for "{text[:200]}"')
    one, two = len(wire) - 1, len(wire) - 2
    if wire[0] == one and one < 240:
        return one, 1
    if two >= 240 and wire[0] == 0xF0 | (two >> 8) and wire[1] == two & 0xFF and two <= 4095:
        return two, 2
    if wire[0] == one & 0xFF and one >= 240:
        raise Violation('encode:length-form', f'{one} octets announced in a single octet: {shown}')
    if two >= 0 and wire[0] & 0xF0 == 0xF0 and ((wire[0] & 0x0F) << 8) | wire[1] == two:
        raise Violation('encode:length-form', f'{two} octets announced in two octets: {shown}')
    raise Violation('encode:length-value', f'the length field matches neither {one} in one octet nor {two} in two: {shown}')


def prefixes_match(decoded: dict, expected: list) -> bool:
    got = {c['type']: (c['prefix'], c['offset']) for c in decoded['components'] if 'prefix' in c}
    return all(got.get(t) == (w[1], w[2]) for t, w in expected if isinstance(w, tuple))


def compare_components(rule: dict, decoded: dict, expected: list, text: str, wire: bytes, deferred: list) -> None:
    short = f'"{text[:300]}" -> {wire[:80].hex()}'
    got_types = [c['type'] for c in decoded['components']]
    want_types = [t for t, _ in expected]
    if got_types != sorted(got_types) or len(set(got_types)) != len(got_types):
        raise Violation('encode:component-order', f'{got_types} for {short}')
    if got_types != want_types:
        raise Violation('encode:component-set', f'wire has {got_types}, text has {want_types}: {short}')
    for comp, (ctype, want) in zip(decoded['components'], expected):
        if isinstance(want, tuple):
            _, canon, offset, _address, _bits = want
            if comp['offset'] != offset:
                raise Violation('encode:prefix-offset', f'component {ctype}: offset {comp["offset"]} for {offset}: {short}')
            if comp['prefix'] != canon:
                raise Violation('encode:prefix', f'component {ctype}: {comp["prefix"]} for {canon}: {short}')
            if rule['afi'] == 2 and comp['padding'] and offset:
                # the listed root cause again (with an offset the address is written from bit 0, so what follows the length - offset
                # pattern bits is address, not zero padding): the pattern happened to agree, the trailing bits give it away
                deferred.append(Violation('encode:ipv6-offset-pattern', f'component {ctype}: <length {_bits}, offset {offset}> is followed by address bits, not by a zero-padded pattern: {short}'))
            elif rule['afi'] == 2 and comp['padding']:
                deferred.append(Violation('encode:ipv6-prefix-padding', f'component {ctype}: bits after the prefix length are not zero (RFC 8956 3.1): {short}'))
            continue
        terms = comp['terms']
        if len(terms) != len(want):
            raise Violation('encode:test-count', f'component {ctype}: {len(terms)} tests for {len(want)}: {short}')
        flags = [t['eol'] for t in terms]
        if flags != [0] * (len(terms) - 1) + [1]:
            where = [i for i, f in enumerate(flags) if f]
            raise Violation('encode:end-of-list', f'component {ctype}: end-of-list set on test(s) {where} of {len(flags)}: {short}')
        for i, (t, (and_bit, op, value)) in enumerate(zip(terms, want)):
            if t['and'] != and_bit:
                raise Violation('encode:and-bit', f'component {ctype} test {i}: AND {t["and"]} for {and_bit}: {short}')
            if t['reserved']:
                raise Violation('encode:reserved-bits', f'component {ctype} test {i}: {t["reserved"]:#x}: {short}')
            if t['op'] != op:
                raise Violation('encode:operator', f'component {ctype} test {i}: operator bits {t["op"]:03b} for {op:03b}: {short}')
            if t['value'] != value:
                raise Violation('encode:value', f'component {ctype} test {i}: {t["value"]} for {value}: {short}')
            if t['width'] != rf.shortest_width(ctype, value):
                raise Violation('encode:value-width', f'component {ctype} test {i}: {value} in {t["width"]} octets: {short}')


def compare_actions(rule: dict, route, neg, text: str) -> list:
    want8, want20, want_nh = model.expected_actions(rule)
    got8, got20 = [], []
    raw = {}
    for code in route.attributes:
        packed = bytes(route.attributes[code].pack_attribute(neg))
        # attribute header: flags, code, length (one octet, two with the extended-length flag)
        value = packed[4:] if packed[0] & 0x10 else packed[3:]
        raw[code] = value
    try:
        if 16 in raw:
            got8 = [rf.decode_action(c) for c in rf.split_communities(raw[16], 8)]
        if 25 in raw:
            got20 = [rf.decode_action_ipv6(c) for c in rf.split_communities(raw[25], 20)]
    except rf.Malformed as exc:
        raise Violation('encode:action:attribute-size', f'{exc} for "{text[:300]}"') from None
    for want, got, where in ((want8, got8, 'extended-community'), (want20, got20, 'ipv6-extended-community')):
        w, g = model.freeze(want), model.freeze(got)
        if w == g:
            continue
        missing = [dict(x) for x in w if x not in g]
        extra = [dict(x) for x in g if x not in w]
        kind = (missing or extra)[0]['kind']
        raise Violation(f'encode:action:{kind}', f'{where}: expected {missing} got {extra} for "{text[:300]}"')
    if want_nh is not None:
        got_nh = str(route.nexthop)
        try:
            same = ipaddress.ip_address(got_nh) == ipaddress.ip_address(want_nh)
        except ValueError:
            same = False
        if not same:
            raise Violation('encode:action:next-hop', f'next hop {got_nh} for {want_nh}: "{text[:300]}"')
    return [a['kind'] for a in rule['actions']]


def check_encode(rule: dict) -> dict:
    from exabgp.bgp.message.notification import Notify

    _, neg = session()
    section, text = model.render(rule)
    afi = rule['afi']
    vpn = bool(rule['rd'])
    classes = [f'afi:{"ipv4" if afi == 1 else "ipv6"}', f'form:{rule["form"]}']
    try:
        want_value = model.expected_value_bytes(rule)
    except ValueError:
        want_value = None  # the probe: a value no one octet component can carry
    expected = model.expected_components(rule)

    def refused_for_size(why: str):
        """the rule was refused as too long (by pack_nlri, or by the configuration loader which packs it): right above 4095 only"""
        if want_value is None:
            return None
        if len(want_value) > 4095:
            return {'nontrivial': True, 'classes': classes + ['too-long:refused']}
        # the whole-prefix layout of an IPv6 prefix with an offset is longer than the RFC one: the refusal is that deviation again
        grown = sum((w[4] + 7) // 8 - (w[4] - w[2] + 7) // 8 for _, w in expected if isinstance(w, tuple) and afi == 2)
        if grown and len(want_value) + grown >= 4095:
            raise Violation('encode:ipv6-offset-pattern', f'{len(want_value)} octets per RFC 8956 grow by {grown} with the whole prefix behind <length, offset>, then refused: {why[:200]}')
        if len(want_value) == 4095:
            raise Violation('encode:length-4095-refused', f'a rule of exactly 4095 octets is refused: {why[:200]}')
        return None

    try:
        routes, reason = parse_text(section, text)
    except Exception as exc:  # noqa: BLE001 - an exception out of the parser is C18's subject
        return {'nontrivial': False, 'classes': classes + [f'parse-exception:{type(exc).__name__}']}
    if routes is None:
        if 'larger than encoding allows' in reason:
            verdict = refused_for_size(reason.strip().replace('\n', ' '))
            if verdict:
                return verdict
        return {'nontrivial': False, 'classes': classes + [refusal_class(rule, reason)]}
    if len(routes) != 1:
        raise Violation('encode:route-count', f'{len(routes)} routes for "{text[:300]}"')
    route = routes[0]
    nlri = route.nlri

    try:
        wire = bytes(nlri.pack_nlri(neg))
    except Notify as exc:
        verdict = refused_for_size(str(exc))
        if verdict:
            return verdict
        raise Violation(exception_signature('encode:pack', exc), f'{exc!r} for "{text[:300]}"') from exc
    except Exception as exc:  # noqa: BLE001
        if rule['probe']:
            group = 'traffic-class' if rule['probe']['kw'] == 'traffic-class' else 'protocol-icmp'
            raise Violation(f'encode:out-of-range-accepted:{group}', f'"{text[:300]}" is accepted, then pack_nlri raises {exc!r}') from None
        raise Violation(exception_signature('encode:pack', exc), f'{exc!r} for "{text[:300]}"') from exc

    if want_value is not None and len(want_value) > 4095:
        raise Violation('encode:too-long-emitted', f'{len(want_value)} octets of rule emitted as {wire[:4].hex()}... ({len(wire)} octets)')

    # ---- family
    got_family = (int(nlri.afi), int(nlri.safi))
    want_family = (afi, 134 if vpn else 133)
    if got_family != want_family:
        raise Violation('encode:family', f'{got_family} for {want_family}: "{text[:300]}"')

    # ---- length field
    n, h = check_length_field(wire, text)
    value = wire[h:]

    # ---- route distinguisher first
    if vpn:
        want_rd = rf.b_rd(rule['rd'])
        if value[:8] != want_rd:
            raise Violation('encode:rd', f'value starts with {value[:8].hex()}, rd {rule["rd"]} is {want_rd.hex()}: "{text[:200]}"')

    # ---- components
    deferred: list = []
    offset_prefixes = afi == 2 and any(isinstance(w, tuple) and w[2] > 0 for _, w in expected)
    counts = {t: len(w) for t, w in expected if not isinstance(w, tuple)}
    strict_error = None
    decoded, layout, guided = None, None, False
    # 1. the strict RFC reading.  2. when the rule has an IPv6 offset and that reading does not give the written prefixes:
    # the layout of the early flow-spec-v6 drafts, to give the deviation its name.  3. when the reader loses its place:
    # both again, told how many tests each component was given, so that compare_components can name the wrong field
    want_types = [t for t, _ in expected]
    best = -1
    for use_counts in (None, counts):
        for candidate in ('rfc8956', 'whole-prefix') if offset_prefixes else ('rfc8956',):
            try:
                reading = rf.decode_body(value, afi, vpn, ordered=False, ipv6_layout=candidate, counts=use_counts)  # order: compare_components
            except rf.Malformed as exc:
                if strict_error is None:
                    strict_error = exc
                continue
            # the reading which found the written components and prefixes is the one to compare field by field
            score = 2 * ([c['type'] for c in reading['components']] == want_types) + prefixes_match(reading, expected)
            if score > best:
                best, decoded, layout, guided = score, reading, candidate, use_counts is not None
        if best == 3:
            break
    if decoded is not None and layout == 'whole-prefix' and prefixes_match(decoded, expected):
        deferred.append(
            Violation(
                'encode:ipv6-offset-pattern',
                f'prefix with offset > 0 carries ceil(length/8) octets from bit 0 instead of the length-offset pattern bits (RFC 8956 3.1): "{text[:200]}" -> {wire[:60].hex()}',
            )
        )
    if decoded is None:
        if rule['probe']:
            raise Violation('encode:out-of-range-emitted', f'"{text[:200]}" -> {wire.hex()[:200]}: {strict_error}') from None
        raise Violation(f'encode:undecodable:{strict_error.kind}', f'{strict_error}: "{text[:300]}" -> {wire[:120].hex()}') from None
    if rule['probe']:
        got = [c for c in decoded['components'] if c['type'] == rule['probe']['type']]
        if not got or [t['value'] for t in got[0]['terms']] != [rule['probe']['value']]:
            raise Violation('encode:out-of-range-emitted', f'"{text[:200]}" -> {wire.hex()[:200]}')
    compare_components(rule, decoded, expected, text, wire, deferred)
    if guided:
        kind = strict_error.kind if strict_error else 'reading-differs'
        raise Violation(f'encode:undecodable:{kind}', f'{strict_error}: "{text[:300]}" -> {wire[:120].hex()}')
    host_bits = rule['afi'] == 1 and any(isinstance(w, tuple) and w[1].split('/')[0] != str(ipaddress.ip_address(w[3])) for _, w in expected)
    if not deferred and not host_bits and want_value is not None and value != want_value:
        # catch-all: the octets must be the ones the refwire builders give for the record
        # (not with host bits in an IPv4 prefix: RFC 4271 calls the trailing bits irrelevant, so there is no single right octet)
        raise Violation('encode:bytes-differ', f'wire {value[:100].hex()} builders {want_value[:100].hex()} for "{text[:200]}"')

    # ---- actions
    action_kinds = compare_actions(rule, route, neg, text)

    if deferred:
        raise deferred[0]

    ands = sum(1 for _, w in expected if not isinstance(w, tuple) for t in w if t[0])
    offsets = any(isinstance(w, tuple) and w[2] > 0 for _, w in expected)
    nontrivial = len(expected) >= 3 or ands >= 1 or n >= 240 or vpn or offsets
    classes += [f'action:{k}' for k in action_kinds]
    classes += [f'component:{t}' for t, _ in expected]
    classes.append(f'components:{min(len(expected), 5)}{"+" if len(expected) >= 5 else ""}')
    if vpn:
        classes.append('flow-vpn')
    if ands:
        classes.append('and-tests')
    if offsets:
        classes.append('ipv6-offset')
    if rule['fill']:
        classes.append('bulk-tests')
    if n >= 240:
        classes.append('length>=240')
    if n >= 256:
        classes.append('length>=256')
    if n in (239, 240, 4094, 4095):
        classes.append(f'length:{n}')
    widths = {t['width'] for c in decoded['components'] if 'terms' in c for t in c['terms']}
    classes += [f'width:{w}' for w in sorted(widths)]
    if any(len([s for s in rule['statements'] if s['type'] == t]) > 1 for t in {s['type'] for s in rule['statements']}):
        classes.append('keyword-twice')
    return {'nontrivial': nontrivial, 'classes': classes, 'sample': {'text': text[:160], 'wire': wire[:48].hex(), 'length': n}}


# ---------------------------------------------------------------------------- decode

SECOND = bytes.fromhex('06038106058150')  # a second NLRI: protocol =6, destination-port =80


def exabgp_rule(nlri, afi: int) -> list:
    """Flow.rules -> the shape refwire.flow.canonical gives"""
    out = []
    rules = nlri.rules
    for ctype in sorted(rules):
        items = rules[ctype]
        if ctype in (1, 2):
            if len(items) != 1:
                raise Violation('decode:prefix-count', f'{len(items)} prefixes in component {ctype}')
            p = items[0]
            if afi == 1:
                out.append((ctype, model.parse_prefix(1, str(p.cidr))))
            else:
                out.append((ctype, model.parse_prefix(2, f'{p.cidr}/{p.offset}')))
        else:
            bitmask = ctype in (9, 12)
            terms = []
            for i, r in enumerate(items):
                ops = int(r.operations)
                terms.append((1 if (ops & 0x40 and i) else 0, ops & (0x03 if bitmask else 0x07), int(r.value)))
            out.append((ctype, terms))
    return out


def _decode_once(case: dict) -> dict:
    from exabgp.bgp.message.action import Action
    from exabgp.bgp.message.notification import Notify
    from exabgp.bgp.message.open.capability.negotiated import Negotiated
    from exabgp.bgp.message.update.nlri import NLRI
    from exabgp.protocol.family import AFI, SAFI

    session()
    afi = case['afi']
    vpn = bool(case['rd'])
    first, mutation = model.wire_nlri(case)
    data = first + (SECOND if case.get('second') and not vpn and mutation is None else b'')
    classes = [f'afi:{"ipv4" if afi == 1 else "ipv6"}', f'mutation:{mutation or "none"}']

    # ---- the reference reading
    reference = None
    fault = None
    try:
        n, h = rf.read_length(first)
        if h + n > len(first):
            raise rf.Malformed('length-overrun', f'{n} announced, {len(first) - h} present')
        reference = rf.decode_body(first[h : h + n], afi, vpn)
        reference['length'] = n
    except rf.Malformed as exc:
        fault = exc.kind
        n = rf.read_length(first)[0]
    if reference is not None and any(t['reserved'] for c in reference['components'] if 'terms' in c for t in c['terms']):
        # only a mutation gets here: reserved operator bits are "ignored on decoding", how they are reported is not demanded
        return {'nontrivial': False, 'classes': classes + ['reference:reserved-bits:not-demanded']}
    if mutation is None and fault is not None:
        raise RuntimeError(f'generator produced a malformed NLRI without a mutation: {fault} {first.hex()}')
    if fault is not None and fault not in ('undefined-component', 'truncated', 'missing-end-of-list', 'length-overrun'):
        # the mutation ran into another rule of the reader (order, width, offset): rejecting those is not demanded
        return {'nontrivial': False, 'classes': classes + [f'reference:{fault}:not-demanded']}

    # ---- exabgp
    eafi = AFI.ipv4 if afi == 1 else AFI.ipv6
    esafi = SAFI.flow_vpn if vpn else SAFI.flow_ip
    delivered = []
    outcome = 'delivered'
    left = data
    try:
        while left:
            nlri, rest = NLRI.unpack_nlri(eafi, esafi, left, Action.ANNOUNCE, None, Negotiated.UNSET)
            if len(rest) >= len(left):
                raise Violation('decode:no-progress', f'{first[:60].hex()}')
            left = bytes(rest)
            if nlri is NLRI.INVALID:
                delivered.append(None)
            else:
                delivered.append(nlri)
    except Notify as exc:
        outcome = f'notify:{exc.code}/{exc.subcode}'
    except Violation:
        raise
    except Exception as exc:  # noqa: BLE001
        raise Violation(exception_signature('decode', exc), f'{exc!r} for {first[:200].hex()}') from exc

    shown = first[:120].hex() + ('...' if len(first) > 120 else '')
    has_offset = afi == 2 and reference is not None and any('prefix' in c and c['offset'] > 0 for c in reference['components'])

    if fault is not None:
        # malformed: withdrawn / INVALID / Notify, never a rule
        got = delivered[0] if delivered else None
        if outcome == 'delivered' and got is not None:
            try:
                seen = exabgp_rule(got, afi)
            except Exception:  # noqa: BLE001
                seen = '?'
            raise Violation(f'decode:malformed-delivered:{fault}', f'{shown} ({fault}) is delivered as {got.extensive()} / {seen}')
        return {'nontrivial': n >= 240 or vpn, 'classes': classes + [f'malformed:{fault}', f'refused-by:{"invalid" if outcome == "delivered" else "notify"}'] + (['length>=240'] if n >= 240 else [])}

    # ---- well-formed
    want = rf.canonical(reference)
    if outcome != 'delivered':
        if reference['length'] >= 256:
            raise Violation('decode:extended-length', f'well-formed NLRI of {reference["length"]} octets (length field {first[:2].hex()}) answered with {outcome}')
        raise Violation('decode:well-formed-refused', f'{shown} answered with {outcome}')
    expected_count = 2 if len(data) > len(first) else 1
    if len(delivered) != expected_count or delivered[0] is None:
        raise Violation('decode:well-formed-dropped', f'{shown}: {["INVALID" if d is None else "rule" for d in delivered]} for {expected_count} NLRI(s)')
    got = delivered[0]

    def differs(tag: str, seen: list, difference: str) -> Violation:
        broader = sum(len(b) if isinstance(b, list) else 1 for _, b in seen) < sum(len(b) if isinstance(b, list) else 1 for _, b in want)
        return Violation(f'decode:{tag}:{"shorter-rule" if broader else "differs"}', f'{shown}: {difference}')

    # the object
    seen = exabgp_rule(got, afi)
    diff = model.same_meaning(want, seen)
    if diff:
        raise differs('rules', seen, diff)
    if vpn and bytes(got.rd.pack_rd()).hex() != reference['rd']:
        raise Violation('decode:rd', f'{shown}: rd {bytes(got.rd.pack_rd()).hex()} for {reference["rd"]}')
    # the JSON the API delivers
    try:
        doc = json.loads(got.json())
        seen_json, rd_json = model.canonical_from_json(afi, doc)
    except (ValueError, model.Unreadable) as exc:
        raise Violation('decode:json-unreadable', f'{exc!r} in {got.json()[:300]} for {shown}') from None
    diff = model.same_meaning(want, seen_json)
    if diff:
        raise differs('json', seen_json, f'{diff} in {got.json()[:300]}')
    if vpn and rd_json != model.rd_text(bytes.fromhex(reference['rd'])):
        raise Violation('decode:json-rd', f'{rd_json} for {model.rd_text(bytes.fromhex(reference["rd"]))}: {shown}')
    # the text form (a bitmask test for no bit at all prints as nothing there: it cannot be read back, the JSON above can)
    if any(c['type'] in (9, 12) and any(t['value'] == 0 for t in c['terms']) for c in reference['components'] if 'terms' in c):
        classes.append('extensive-not-compared:empty-bitmask')
    else:
        try:
            seen_text, rd_ext = model.canonical_from_extensive(afi, got.extensive())
        except (ValueError, model.Unreadable) as exc:
            raise Violation('decode:extensive-unreadable', f'{exc!r} in {got.extensive()[:300]} for {shown}') from None
        diff = model.same_meaning(want, seen_text)
        if diff:
            raise differs('extensive', seen_text, f'{diff} in {got.extensive()[:300]}')
        if vpn and rd_ext != model.rd_text(bytes.fromhex(reference['rd'])):
            raise Violation('decode:extensive-rd', f'{rd_ext} for {model.rd_text(bytes.fromhex(reference["rd"]))}: {shown}')
    if expected_count == 2:
        second = delivered[1]
        if second is None or exabgp_rule(second, afi) != [(3, [(0, 1, 6)]), (5, [(0, 1, 80)])]:
            raise Violation('decode:next-nlri', f'the NLRI behind {shown} is not delivered as sent')
        classes.append('second-nlri')

    comps = reference['components']
    ands = sum(1 for c in comps if 'terms' in c for i, t in enumerate(c['terms']) if i and t['and'])
    nontrivial = len(comps) >= 3 or ands >= 1 or n >= 240 or vpn or has_offset
    classes += [f'component:{c["type"]}' for c in comps]
    widths = {t['width'] for c in comps if 'terms' in c for t in c['terms']}
    classes += [f'width:{w}' for w in sorted(widths)]
    if vpn:
        classes.append('flow-vpn')
    if ands:
        classes.append('and-tests')
    if has_offset:
        classes.append('ipv6-offset')
    if n >= 240:
        classes.append('length>=240')
    if n >= 256:
        classes.append('length>=256')
    if mutation:
        classes.append('mutation-left-well-formed')
    return {'nontrivial': nontrivial, 'classes': classes, 'sample': {'nlri': shown[:100], 'rule': got.extensive()[:160]}}


def check_decode(case: dict) -> dict:
    try:
        return _decode_once(case)
    except Violation as v:
        offsets = [c for c in case['components'] if c.get('offset')]
        if case['afi'] != 2 or not offsets or v.signature == 'decode:extended-length':
            raise  # (the length field is judged before any component is read)
        # differential: the same NLRI with every offset at zero.  When that one is read correctly the cause is the
        # layout of <length, offset, pattern> (RFC 8956 3.1: the pattern holds length - offset bits), whatever the symptom
        plain = dict(case, components=[dict(c, offset=0) if c.get('offset') else c for c in case['components']])
        for control in (plain, dict(plain, fill=None)):
            try:
                _decode_once(control)
                break
            except Violation:
                raise v from None
            except ValueError:
                continue  # without the offset the pattern is longer and the NLRI passes 4095 octets: try without the bulk tests
        else:
            raise v from None
        first, _ = model.wire_nlri(case)
        raise Violation('decode:ipv6-offset-pattern', f'{first[:80].hex()}: correct with offset 0, with the offset: {v.signature}: {v.message[:300]}') from None


# ---------------------------------------------------------------------------- enumerated cases


def _sized(target: int, afi: int = 1, rd: str | None = None, form: str = 'block') -> dict:
    rule = {
        'afi': afi,
        'form': form,
        'rd': rd,
        'nexthop': None,
        'statements': [{'type': 2, 'kw': 'source', 'address': '10.0.0.1' if afi == 1 else '2001:db8::1', 'bits': 32 if afi == 1 else 128, 'offset': None}],
        'actions': [{'kind': 'discard'}],
        'fill': None,
        'probe': None,
    }
    room = target - len(model.expected_value_bytes(rule)) - 1
    two = {0: 0, 2: 1, 1: 2}[room % 3]
    rule['fill'] = {'type': 5, 'kw': 'destination-port', 'three': (room - 2 * two) // 3, 'two': two, 'first': False}
    return rule


def fixed_encode() -> list:
    cases = [_sized(n) for n in (239, 240, 241, 255, 256, 4094, 4095, 4096)]
    cases += [_sized(240, rd='65535:65536', form='family'), _sized(4095, afi=2, form='flat')]
    base = {'afi': 2, 'form': 'family', 'rd': None, 'nexthop': None, 'actions': [{'kind': 'discard'}], 'fill': None, 'probe': None}
    cases.append(dict(base, statements=[], probe={'type': 11, 'kw': 'traffic-class', 'value': 300}))
    cases.append(dict(base, statements=[{'type': 11, 'kw': 'traffic-class', 'terms': [{'and': False, 'op': '=', 'value': 255, 'text': '255'}], 'brackets': False}]))
    cases.append(dict(base, statements=[{'type': 2, 'kw': 'source', 'address': '::1234:5678:9a00:0', 'bits': 104, 'offset': 65}]))
    cases.append(dict(base, form='block', statements=[{'type': 1, 'kw': 'destination', 'address': '2001:db8::', 'bits': 32, 'offset': 0}, {'type': 2, 'kw': 'source', 'address': '::1234:5678:9a00:0', 'bits': 104, 'offset': 64}]))
    return cases


def fixed_decode() -> list:
    out = []
    for target in (239, 240, 255, 256, 4095):
        rule = {'afi': 1, 'rd': None, 'components': [{'type': 2, 'address': '10.0.0.1', 'bits': 32, 'offset': 0}], 'fill': None, 'mutation': None, 'second': target < 4095}
        room = target - len(model.wire_value(rule)) - 1
        two = {0: 0, 2: 1, 1: 2}[room % 3]
        rule['fill'] = {'type': 5, 'three': (room - 2 * two) // 3, 'two': two}
        out.append(rule)
    # RFC 8956 3.8 example: ::1234:5678:9a00:0/65-104 to 2001:db8::/32
    out.append({'afi': 2, 'rd': None, 'components': [{'type': 1, 'address': '2001:db8::', 'bits': 32, 'offset': 0}, {'type': 2, 'address': '::1234:5678:9a00:0', 'bits': 104, 'offset': 65}], 'fill': None, 'mutation': None, 'second': False})
    # flow label under IPv4
    out.append({'afi': 1, 'rd': None, 'components': [{'type': 3, 'terms': [[0, 1, 6, 1]]}], 'fill': None, 'mutation': {'kind': 'undefined-type', 'id': 13, 'where': 'order', 'shape': '8101'}, 'second': False})
    return out


def _tagged(prefix: str, fn):
    """evidence classes of the two engines are kept apart (enc:flow-vpn / dec:flow-vpn)"""

    def run(case: dict) -> dict:
        info = fn(case)
        info['classes'] = [f'{prefix}:{c}' for c in info.get('classes', [])]
        return info

    return run


ENGINES = [
    Engine('encode', model.rules, _tagged('enc', check_encode), quick=1100, thorough=30000, batch=275, fixed_cases=fixed_encode),
    Engine('decode', model.wire_rules, _tagged('dec', check_decode), quick=1100, thorough=30000, batch=275, fixed_cases=fixed_decode),
]
