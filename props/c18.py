"""C18 - route text is accepted if and only if it can be sent"""

from __future__ import annotations

import fnmatch
import ipaddress
import os
import re
import tempfile

from vlib import c18_api as api_lines
from vlib import c18_gen as gen
from vlib import exa, textgen
from vlib.refwire import build, codec
from hypothesis import strategies as st

from vlib.runner import Engine, Violation, exception_signature, innermost_repo_frame

PROPERTY = 'C18'
RULE = (
    'route-text: a textgen route record (7 families; every attribute keyword incl. originator-id, cluster-list, atomic-aggregate, aigp, path-information, attribute [..], watchdog, name; '
    'attribute order shuffled) is drawn, then two times out of three ONE mutation hits ONE field: a value AT its bound (AS 2^32-1, label 2^20-1, MED/LOCAL_PREF 2^32-1, community halves 65535, '
    'large community 2^32-1, extended community sub-fields, path-information 2^32-1 / 255.255.255.255, aigp 2^64-1, mask 32/128, rd halves, attribute code 0xff), the value just BEYOND it, '
    'a malformed token (addresses, rd, prefix, numbers, a prefix of the other AFI), a long list (0-300 members, 255/256 ASNs, attribute sets which leave no room for a prefix in 4096 octets), '
    'or a change of the token sequence (value dropped, clause dropped / duplicated / misplaced, unknown keyword, bracket removed, stray token). The text is offered through '
    'Configuration.parse_route_text, Configuration.partial (`<afi> <safi>` form), API.api_route / api_announce_v4 / api_announce_v6 / api_attributes (action given or legacy `announce ...`), '
    'and a configuration file (static { route ..; }, static { route P { ..; } }, announce { ipv4 { unicast ..; } }) read from disk. '
    'Accepted definitions are encoded for 16 sessions (iBGP/eBGP x ASN4 x ADD-PATH x 4096/65535) and the bytes decoded by refwire are compared with the values as written. '
    'vpls-text / flow-text: the same for `vpls` (endpoint, base, offset, size, rd at and beyond their bounds) and simple flow definitions (ports, dscp, packet-length, protocol, '
    'rate-limit, redirect AS:NN halves, mark) through API.api_vpls / api_flow, `<afi> flow`, and the l2vpn / flow / announce configuration sections. '
    'api-lines: 1-4 such definitions (route / family / attributes / vpls / flow, the same generators; one in seven stops early: whole clauses cut off the end, the last one left cut inside) are written as command lines '
    'by a pipe-backed helper process to the real Reactor + Processes with two neighbors (iBGP and eBGP, every family): `peer * | <ip> | [ a , b ] announce|withdraw <definition>` under API v6, '
    '`announce ..` / `neighbor <ip> announce ..` / `neighbor a , neighbor b ..` (the legacy dispatcher) under API v4, announce, withdraw or both in turn, with or without a trailing json / text / sync / async; '
    'the verb alone, a keyword alone and the opening words of a block are enumerated. Per line: exactly one done / error, nothing logged with a traceback, error => no Adj-RIB-Out changed, '
    'done => the routes handed over are in the Adj-RIB-Out of every neighbor named and are judged there by the oracle above (16 sessions, values as written), '
    'and the line agrees on accept / refuse with the direct entry point (parse_route_text / partial / API.api_*) for the same text. '
    'Non-trivial = one field is mutated or lies within +-1 of a bound'
)
ASSUMPTIONS = [
    'refwire decoder and the expectation model in vlib/textgen.py are trusted (C01 uses the same pair)',
    'fits: a definition is expressible when every value is inside the field the RFC gives it and the NLRI (labels + rd + mask) is at most 255 bits; beyond a bound, with a malformed token, or without next-hop / label / rd for a family which needs them it is not, and must be refused',
    'API entry points: ValueError and IndexError leaving API.api_* are what every command handler turns into an error reply, they count as a clean refusal; any other exception type is a violation (announce_route / announce_attributes answer it as "Unexpected error", the vpls / flow / ipv4 / ipv6 handlers do not catch it at all); through Configuration.parse_route_text / partial every exception is a violation',
    'API.api_route: validate_announce() is applied to the result as the announce command does, its error is a clean refusal',
    'configuration file (written to disk, comment and blank line before the section in one case out of three): a refusal must quote the offending statement (or name its line when it quotes nothing); the catch-all of reload() ("problem parsing configuration file line <lines read so far>") is an unlocated error; when the same text offered directly raises, the violation carries the signature of that exception; a located refusal whose "line N" is not the file line of the quoted statement is the violation config:wrong-line-number (checked last)',
    'signatures: parse:<form>:<keyword>:... names the clause which reproduces the failure beside the bare prefix + next-hop (found by re-parsing reduced texts); when that clause is the one the generator pushed over its bound the bound names the root cause (parse:<form>:<keyword>:<bound>:<exception type>), otherwise the innermost exabgp frame does',
    'AS 0 (RFC 7607), an empty community list, duplicated / misplaced clauses, a stray ; { } in an API line and rate-limit above the documented clamp are classified: neither acceptance nor refusal is demanded, only no exception',
    'the `<afi> <safi>` form: every keyword of its schema is counted as documented; path-information written as an integer is not (the schema says address): its refusal is classified',
    'next-hop self for an IPv6 route on an IPv4 transport session is the documented refusal (TypeError out of resolve_self), classified; an IPv6 next hop for IPv4 NLRI (RFC 8950) is left to C01',
    'LOCAL_PREF given explicitly on eBGP: presence is not compared; order inside community attributes is not compared; adjacent AS_SEQUENCE segments read as one',
    'the only permitted "no message" is an attribute set above 4096 octets on a session without extended message',
    'vpls / flow: only "no unhandled exception", "a definition which cannot be expressed is not accepted" and "accepted definitions encode without raising" (plus the VPLS NLRI fields as written); acceptance of RFC-valid values is not demanded there (a label base above 65535 is refused today: classified refused-valid:base>65535); FlowSpec semantics are C16\'s',
    'api-lines, how an unhandled exception shows: announce_route / announce_attributes / withdraw_* of those catch Exception and answer `error: Unexpected error: <type>`, the other handlers let it leave the scheduled callback, where ASYNC logs async.callback.error and its error handler answers `error`: the helper reads an error reply either way, so the exception is taken from the two log calls which carry it (lazyexc in reactor/asynchronous.py and reactor/api/__init__.py are wrapped to record it). An exception the direct entry point raises as well (same type, same innermost frame) gets the signature the entry-point engines give it (parse:<form>:<keyword>:...), any other one api-line:<form>:<verb>:<type>@<frame>; no terminal reply within 4 s of reactor time, more than one, or the end of the reactor task are api-line:no-reply / several-replies / reactor-loop-ended',
    'api-lines, terminal reply: a line which is exactly `done` or `error` (the process uses the text encoder); the free-text `error: ...` line before it is not counted',
    'api-lines, Adj-RIB-Out: no session comes up (every connect fails). Compared by identity of the stored route objects: the routes kept as announced, the watchdog groups and the eor / refresh / operational queues must be equal after a refused line; the announces and withdraws queued for the session may only lose members (a peer which fails to connect drops them, OutgoingRIB.reset) - found as a false alarm of the first version',
    'api-lines, routes: Configuration.announce_route / withdraw_route of the reactor are wrapped to see which routes a handler hands over; the objects judged are the ones found under the same index in the RIB of the neighbors the line names (both copies when they differ). That a neighbor the line does not name stays untouched is C14\'s',
    'api-lines, agreement: config-file entries of the generators are replaced by parse_route_text / partial / api; when line and direct call differ the record decides (fits True: the one which refuses deviates, fits False: the one which accepts); a deviation of the direct call is reported with the signature its own engine gives it, one of the line as entry-points:api-line-refuses-valid / -accepts-unfit; for a text outside the grammar (fits None) a difference is only classified. vpls / flow: agreement is demanded although acceptance of valid values is not',
    'api-lines, withdraw: the same text behind the other verb must be accepted or refused as the announce is, except that a withdraw needs no next hop; what it accepts must encode as a withdraw for every session (values are not compared); a withdraw accepted with a value beyond its bound or a malformed token is accepted-unfit',
    'api-lines, unfinished texts: a cut which removes next-hop (label / rd of the `<afi> <safi>` form, any vpls field) is the dropped-clause mutation (must be refused), any other one is outside the grammar; for the enumerated heads only: one reply, no exception, error => nothing changed, done => it encodes (an empty `flow route` and `attributes next-hop N nlri` are accepted today and encode: classified)',
    'api-lines, listed findings: every definition of a case is judged even when an earlier one meets a finding listed in known_findings.json (read for this only), and an unlisted violation is reported before a listed one, so that the search goes on behind the 13 listed root causes',
    'VERIF_C18_KNOWN (comma separated fnmatch patterns, `python -m vlib.c18_findings patterns`) turns diagnosed signatures into classes tolerated:<signature> while developing; registered runs never set it',
]

FAMS = [(1, 1), (1, 2), (1, 4), (1, 128), (2, 1), (2, 4), (2, 128)]
ADDPATH_FAMS = [(1, 1), (2, 1), (1, 4), (2, 4), (1, 128), (2, 128)]
LOCAL_IP = '127.0.0.1'
_STATE: dict = {}
_KNOWN = [p.strip() for p in os.environ.get('VERIF_C18_KNOWN', '').split(',') if p.strip()]


class Tolerated(Exception):
    def __init__(self, signature: str) -> None:
        Exception.__init__(self, signature)
        self.signature = signature


def violation(signature: str, message: str) -> Exception:
    """a Violation, or (development only) the marker which turns a diagnosed signature into a class"""
    if any(fnmatch.fnmatchcase(signature, p) for p in _KNOWN):
        return Tolerated(signature)
    return Violation(signature, message)


# ---------------------------------------------------------------------------- sessions


def sessions() -> list:
    """16 sessions built the production way: (description, neighbor, negotiated)"""
    if 'sessions' in _STATE:
        return _STATE['sessions']
    out = []
    i = 0
    for ibgp in (True, False):
        for asn4 in (True, False):
            for addpath in (False, True):
                for big in (False, True):
                    i += 1
                    peer_as = 65000 if ibgp else 65001
                    cap = {
                        'asn4': 'enable' if asn4 else 'disable',
                        'add-path': 'send/receive' if addpath else 'disable',
                        'extended-message': 'enable' if big else 'disable',
                        'aigp': 'enable',
                    }
                    text = exa.neighbor_text(peer_ip=f'127.0.18.{i}', local_ip=LOCAL_IP, local_as=65000, peer_as=peer_as, families=[textgen.FAMILY_TEXT[f] for f in FAMS], capability=cap)
                    _, neighbor = exa.neighbor_from_text(text)
                    caps = [build.cap_mp(a, s) for a, s in FAMS]
                    if asn4:
                        caps.append(build.cap_asn4(peer_as))
                    if addpath:
                        caps.append(build.cap_addpath([(a, s, 3) for a, s in ADDPATH_FAMS]))
                    if big:
                        caps.append(build.cap_ext_msg())
                    neg = exa.negotiate(neighbor, build.open_with_caps(peer_as, 90, 0x0A000002, caps), exa.Direction.IN)
                    if bool(neg.asn4) != asn4 or neg.msg_size != (65535 if big else 4096):
                        raise RuntimeError('harness: the session is not the one asked for')
                    sess = {'ibgp': ibgp, 'asn4': asn4, 'addpath': addpath, 'size': 65535 if big else 4096, 'local_as': 65000, 'peer_as': peer_as}
                    out.append((sess, neighbor, neg))
    _STATE['sessions'] = out
    return out


def other_session(families: list, fams: list) -> tuple:
    """one session for vpls / flow"""
    key = 'other:' + ','.join(families)
    if key not in _STATE:
        text = exa.neighbor_text(peer_ip='127.0.18.99', local_ip=LOCAL_IP, families=families, capability={'extended-message': 'enable'})
        _, neighbor = exa.neighbor_from_text(text)
        caps = [build.cap_mp(a, s) for a, s in fams] + [build.cap_asn4(65000), build.cap_ext_msg()]
        _STATE[key] = (neighbor, exa.negotiate(neighbor, build.open_with_caps(65000, 90, 0x0A000002, caps), exa.Direction.IN))
    return _STATE[key]


def parsers() -> tuple:
    """(Configuration used for parse_route_text / partial, the real API object)"""
    if 'conf' not in _STATE:
        from exabgp.reactor.api import API

        class Reactor:
            """stand-in: API.__init__ only stores the reactor, the text goes through API.configuration"""

        conf, _ = exa.neighbor_from_text(exa.neighbor_text(peer_ip='127.0.18.100', families=[textgen.FAMILY_TEXT[f] for f in FAMS]))
        reactor = Reactor()
        reactor.configuration = conf  # type: ignore[attr-defined]
        _STATE['conf'] = conf
        _STATE['api'] = API(reactor)  # type: ignore[arg-type]
    # cases are made independent of each other here (Tokeniser.clear() keeps the AFI of the last prefix); that a command's
    # leftovers do not decide the next one is checked on purpose by history_probe(), which switches this reset off
    if not _STATE.get('keep-history'):
        from exabgp.protocol.family import AFI

        _STATE['conf'].parser.tokeniser.afi = AFI.undefined
        _STATE['api'].configuration.parser.tokeniser.afi = AFI.undefined
    return _STATE['conf'], _STATE['api']


def forget_parsers() -> None:
    _STATE.pop('conf', None)
    _STATE.pop('api', None)


# ---------------------------------------------------------------------------- entry points


class Outcome:
    def __init__(self, kind: str, routes: list | None = None, reason: str = '', exc: BaseException | None = None, how: str = '') -> None:
        self.kind = kind  # routes / refused / exception / unlocated
        self.routes = routes or []
        self.reason = reason
        self.exc = exc
        self.how = how
        self.line_ok = True
        self.lines: tuple = ()

    def same_failure(self, other: Outcome) -> bool:
        if self.kind != other.kind:
            return False
        if self.kind == 'exception':
            return type(self.exc) is type(other.exc) and innermost_repo_frame(self.exc) == innermost_repo_frame(other.exc)  # type: ignore[arg-type]
        if self.kind == 'unlocated':
            return re.sub(r'line \d+', 'line N', self.reason) == re.sub(r'line \d+', 'line N', other.reason)
        return True


def scope_routes(conf) -> Outcome:
    if conf.scope.location():
        return Outcome('refused', reason='unfinished section', how='unfinished')
    conf.scope.to_context()
    return Outcome('routes', conf.scope.pop_routes())


def load_configuration(text: str, statement_lines: dict) -> Outcome:
    """a configuration file on disk -> routes of the neighbor, or the refusal

    statement_lines: {file line: statement text} of the definition under test
    """
    fd, path = tempfile.mkstemp(prefix='c18-', suffix='.conf')
    try:
        with os.fdopen(fd, 'w') as fh:
            fh.write(text)
        conf = exa.Configuration([path])
        try:
            ok = conf.reload()
        except Exception as exc:  # noqa: BLE001
            return Outcome('exception', exc=exc)
    finally:
        os.unlink(path)
    if ok is True:
        neighbors = list(conf.neighbors.values())
        if len(neighbors) != 1:
            return Outcome('refused', reason=f'{len(neighbors)} neighbors', how='config')
        seen, routes = set(), []
        for r in neighbors[0].routes:
            if id(r) not in seen:
                seen.add(id(r))
                routes.append(r)
        return Outcome('routes', routes)
    error = str(conf.error)
    if not error.strip():
        return Outcome('unlocated', reason=f'reload() returned {ok!r} with an empty error', how='config')
    flat = ' '.join(error.split())
    # the statement under test may hold several statements once a stray ; { } got into it: any of them quoted will do
    quoted_at = []
    for n, stmt in statement_lines.items():
        if stmt == '}':
            # what a block lacks is only known where it ends
            if re.search(r'line \d+: }', flat):
                quoted_at.append(n)
            continue
        parts = [' '.join(x.split()) for x in re.split(r'[;{}]', stmt)]
        if any(len(x) >= 3 and x in flat for x in parts):
            quoted_at.append(n)
    reported = re.search(r'\bline (\d+)', error)
    number = int(reported.group(1)) if reported else None
    if quoted_at:
        out = Outcome('refused', reason=flat, how='config-quoted')
        out.line_ok = number in quoted_at
        out.lines = (number, quoted_at)
        return out
    if number in statement_lines and 'problem parsing configuration file' not in error:
        return Outcome('refused', reason=flat, how='config-line')
    # (the catch-all of reload() names the number of lines read so far, which is no location)
    return Outcome('unlocated', reason=flat, how='config')


def config_text(section_lines: list, families: list, comments: int) -> tuple:
    """(file text, {line number: statement}) for a neighbor whose body is section_lines"""
    lines = ['neighbor 127.0.18.101 {', '  router-id 1.2.3.4;', f'  local-address {LOCAL_IP};', '  local-as 65000;', '  peer-as 65000;']
    if comments:
        lines += ['  # the routes', '']
    lines += ['  family {'] + [f'    {f};' for f in families] + ['  }']
    where = {}
    for line, is_statement in section_lines:
        lines.append(line)
        if is_statement:
            where[len(lines)] = line.strip().rstrip(';{').strip() or '}'
    lines.append('}')
    return '\n'.join(lines) + '\n', where


API_CLEAN = (ValueError, IndexError)


def attempt_route(case: dict, cl: list) -> Outcome:
    """offer the definition made of the clauses cl through the entry point of the case"""
    from exabgp.reactor.api.command.announce import validate_announce

    form, entry = case['form'], case['entry']
    text = gen.text_of(cl)
    conf, api = parsers()
    try:
        if entry == 'parse_route_text':
            routes = conf.parse_route_text(text)
            return Outcome('routes', routes) if routes else Outcome('refused', reason=str(conf.error))
        if entry == 'partial':
            section, line = (text.split(' ', 1) + [''])[:2]
            conf.static.clear()
            if not conf.partial(section, line, 'announce'):
                return Outcome('refused', reason=str(conf.error))
            return scope_routes(conf)
        if entry in ('api', 'api-legacy'):
            command, action = (text, 'announce') if entry == 'api' else ('announce ' + text, '')
            try:
                if form == 'route':
                    routes = api.api_route(command, action)
                elif form == 'attributes':
                    routes = api.api_attributes(command, [], action)
                elif text.startswith('ipv6'):
                    routes = api.api_announce_v6(command, action)
                else:
                    routes = api.api_announce_v4(command, action)
            except API_CLEAN as exc:
                return Outcome('refused', reason=f'{type(exc).__name__}: {exc}', how='api-error-reply')
            if not routes:
                return Outcome('refused', reason=str(api.configuration.error))
            if form == 'route':
                for r in routes:
                    error = validate_announce(r)
                    if error:
                        return Outcome('refused', reason=error, how='validate_announce')
            return Outcome('routes', routes)
    except Exception as exc:  # noqa: BLE001
        forget_parsers()
        return Outcome('exception', exc=exc)

    families = [textgen.FAMILY_TEXT[f] for f in FAMS]
    if entry == 'config-flat' and form == 'route':
        body = [('  static {', False), (f'    {text};', True), ('  }', False)]
    elif entry == 'config-block':
        head = cl[0][1]
        body = [('  static {', False), (f'    {head} {{', True)]
        body += [(f'      {c[1]};', True) for c in cl[1:] if c[1]]
        body += [('    }', True), ('  }', False)]
    else:
        afi, rest = (text.split(' ', 1) + [''])[:2]
        body = [('  announce {', False), (f'    {afi} {{', False), (f'      {rest};', True), ('    }', False), ('  }', False)]
    text, where = config_text(body, families, case.get('comments', 0))
    return load_configuration(text, where)


# ---------------------------------------------------------------------------- naming the clause at fault

SKELETON = ('prefix', 'head', 'nlri', 'rd', 'label', 'next-hop', 'prefix-value')
VPLS_SKELETON = ('head', 'rd', 'endpoint', 'base', 'offset', 'size', 'next-hop')


def isolate(case: dict, attempt, failing: Outcome, skeleton_kws: tuple = SKELETON) -> tuple:
    """(keyword of the clause which alone reproduces the failure, the shortest text which shows it, its outcome)"""
    cl = case['clauses']
    tail = [c for c in cl if c[0] == 'nlri']
    skeleton = [c for c in cl if c[0] in skeleton_kws and c[0] != 'nlri']
    others = [c for c in cl if c[0] not in skeleton_kws]
    last: dict = {}

    def fails(trial: list) -> bool:
        out = attempt(case, trial)
        if failing.same_failure(out):
            last['out'] = out
            return True
        return False

    if fails(skeleton + tail):
        seen = last['out']
        for c in skeleton[1:]:
            reduced = [x for x in skeleton if x is not c] + tail
            if not fails(reduced):
                return c[0], gen.text_of(skeleton + tail), seen
        return (tail or skeleton)[0][0], gen.text_of(skeleton + tail), seen
    for c in others:
        trial = skeleton + [c] + tail
        if fails(trial):
            return c[0], gen.text_of(trial), last['out']
    # it takes the neighbours: the first clause without which the failure goes away
    for i, c in enumerate(cl):
        if c[0] in ('prefix', 'head'):
            continue
        trial = cl[:i] + cl[i + 1 :]
        if not fails(trial):
            following = next((x[0] for x in cl[i + 1 :] if x[0] != 'nlri'), 'end')
            return f'{c[0]}+{"end" if following == "end" else "next-clause"}', gen.text_of(cl), failing
    return 'several', gen.text_of(cl), failing


# ---------------------------------------------------------------------------- the wire


def encode(route, neighbor, neg) -> list:
    from exabgp.bgp.message.update.collection import RoutedNLRI, UpdateCollection

    route = neighbor.resolve_self(route)
    return [bytes(m) for m in UpdateCollection([RoutedNLRI(route.nlri, route.nexthop)], [], route.attributes).messages(neg)]


def compare_wire(rec: dict, text: str, sess: dict, msgs: list, sig: str) -> None:
    """the UPDATEs of one route against the record (the comparison of props/c01.py)"""
    shown = text if len(text) < 400 else text[:400] + '...'
    asn4, addpath_on = sess['asn4'], sess['addpath']

    def ap(afi, safi):
        return addpath_on and (afi, safi) in ADDPATH_FAMS

    addpath = ap(rec['afi'], rec['safi'])
    announced = []
    for m in msgs:
        if m[:16] != codec.MARKER or int.from_bytes(m[16:18], 'big') != len(m) or m[18] != 2:
            raise violation(f'{sig}:bad-header', m[:19].hex())
        if len(m) > sess['size']:
            raise violation(f'{sig}:oversized', f'{len(m)} > {sess["size"]} for "{shown}"')
        try:
            u = codec.decode_update(m[19:], asn4, ap)
        except codec.Malformed as exc:
            raise violation(f'{sig}:undecodable', f'{exc}: {m[:200].hex()} for "{shown}"') from None
        if u['withdrawn'] or 15 in u['attrs']:
            raise violation(f'{sig}:withdraw-invented', m[:200].hex())
        for e in u['nlri']:
            announced.append((e, u['attrs'].get(3), u))
        if 14 in u['attrs']:
            mp = u['attrs'][14]
            if 'nlri' not in mp:
                raise violation(f'{sig}:family', f'MP_REACH for {mp["afi"]}/{mp["safi"]} for "{shown}"')
            for e in mp['nlri']:
                announced.append((e, mp['nexthop'], u))
    if len(announced) != 1:
        raise violation(f'{sig}:nlri-count', f'{len(announced)} NLRIs on the wire for one route: "{shown}"')
    entry, nexthop, u = announced[0]

    want = textgen.expected_nlri(rec, addpath)
    got = {k: entry.get(k) for k in want}
    if rec['form'] != 'family' and rec['afi'] == 1 and rec['safi'] == 2 and entry['safi'] == 1:
        got['safi'] = 2  # a class-D prefix under the plain `route` keyword names no family
    extra = set(entry) - set(want) - {'bos'}
    if got != want or extra:
        field = next((k for k in want if got.get(k) != want[k]), 'extra:' + ','.join(sorted(extra)))
        raise violation(f'{sig}:nlri:{field}', f'wire {entry} expected {want} for "{shown}" addpath={addpath}')
    if 'labels' in entry and not entry.get('bos'):
        raise violation(f'{sig}:nlri:bottom-of-stack', f'{entry}')

    if rec['nexthop'] == 'self':
        want_nh = LOCAL_IP if rec['afi'] == 1 else None
    else:
        want_nh = str(ipaddress.ip_address(rec['nexthop']))
    got_nh = nexthop[0] if isinstance(nexthop, list) else nexthop
    if got_nh is None:
        raise violation(f'{sig}:nexthop:missing', f'"{shown}"')
    if want_nh is not None and got_nh != want_nh:
        raise violation(f'{sig}:nexthop:value', f'wire {nexthop} expected {want_nh} for "{shown}"')

    exp = textgen.expected_attrs(rec, sess['local_as'], sess['peer_as'], asn4)
    gota = codec.PeerTable.attr_view(u['attrs'])
    gota.pop(3, None)
    if not sess['ibgp'] and 'local_pref' in rec['attrs']:
        gota.pop(5, None)
        exp.pop(5, None)
    for code in sorted(set(exp) | set(gota)):
        if code not in gota:
            raise violation(f'{sig}:attribute:{code}:missing', f'expected {str(exp[code])[:200]} for "{shown}" session {sess}')
        if code not in exp:
            raise violation(f'{sig}:attribute:{code}:invented', f'wire has {str(gota[code])[:200]} for "{shown}" session {sess}')
        g, w = gota[code], exp[code]
        if code in (2, 17):
            g = codec.normalise_path([(k, list(v)) for k, v in g])
            w = codec.normalise_path([(k, list(v)) for k, v in w])
        elif isinstance(w, (list, tuple)):
            g, w = list(g), list(w)
            if code == 32:
                g, w = [tuple(x) for x in g], [tuple(x) for x in w]
        if g != w:
            raise violation(f'{sig}:attribute:{code}:value', f'wire {str(g)[:200]} expected {str(w)[:200]} for "{shown}" session {sess}')
    for code, fl in u['flags'].items():
        if code in codec.FLAGS:
            opt, trans = codec.FLAGS[code]
            if bool(fl & 0x80) != bool(opt) or bool(fl & 0x40) != bool(trans):
                raise violation(f'{sig}:attribute:{code}:flags', f'flags {fl:#x} for "{shown}"')
    if 'generic' in rec['attrs']:
        code, flags, _ = rec['attrs']['generic']
        if (u['flags'].get(code, 0) & 0xE0) != (flags & 0xE0):
            raise violation(f'{sig}:attribute:generic:flags', f'{u["flags"].get(code)} vs {flags} for "{shown}"')


# ---------------------------------------------------------------------------- route-text


def parse_signature(form: str, culprit: str, case: dict, exc: BaseException) -> str:
    """the root cause of an exception out of the parser

    When the clause at fault is the one the generator pushed beyond its bound, the bound names the root cause (a missing
    or wrong check on that value; where the value happens to blow up depends on the value); otherwise the innermost exabgp frame does.
    """
    m = case['mutation']
    if m and case['fits'] is not True and culprit.split('+')[0] == m['field']:
        return f'parse:{form}:{m["field"]}:{m["what"]}:{type(exc).__name__}'
    return exception_signature(f'parse:{form}:{culprit}', exc)


def extensive(route) -> str:
    try:
        return route.extensive()[:120]
    except Exception as exc:  # noqa: BLE001
        return f'<extensive() raises {exc!r}>'


def describe(case: dict) -> str:
    m = case['mutation']
    return f'{case["form"]} form via {case["entry"]}' + (f', {m["kind"]} on {m["field"]} ({m["what"]})' if m else '')


def encode_everywhere(case: dict, routes: list, text: str) -> tuple:
    """encode every route for every session; -> (failure Outcome or None, {route index: {session index: msgs}}, classes)"""
    results: dict = {}
    classes = set()
    for ri, route in enumerate(routes):
        for si, (sess, neighbor, neg) in enumerate(sessions()):
            try:
                msgs = encode(route, neighbor, neg)
            except TypeError as exc:
                if 'next-hop self' in str(exc) and case['afi'] == 2:
                    classes.add('self-other-afi-refused')
                    continue
                return Outcome('exception', exc=exc), results, classes
            except Exception as exc:  # noqa: BLE001
                return Outcome('exception', exc=exc), results, classes
            results.setdefault(ri, {})[si] = msgs
    return None, results, classes


def attempt_encode(case: dict, cl: list) -> Outcome:
    """for isolate(): parse, then encode; the failure is the encoding exception"""
    out = attempt_route(case, cl)
    if out.kind != 'routes':
        return Outcome('other')
    failure, _, _ = encode_everywhere(case, out.routes, gen.text_of(cl))
    return failure or Outcome('fine')


# ---------------------------------------------------------------------------- what was parsed before must not decide acceptance

PRIORS = (
    ('ipv4-route', 'route', 'route 10.250.0.0/24 next-hop 10.0.0.1'),
    ('ipv6-route', 'route', 'route 2001:db8:fa::/48 next-hop 2001:db8::1'),
)


def history_probe(case: dict, form: str, attempt, cl: list, text: str) -> list:
    """the same text offered after an accepted IPv4 route and after an accepted IPv6 route (one process keeps one parser for every
    API command): accepted-or-refused must come out the same.  Only for the entry points which share the process-wide parser"""
    if str(case.get('entry', '')).startswith('config'):
        return []
    kinds = {}
    for name, kind, prior in PRIORS:
        conf, api = parsers()
        _STATE['keep-history'] = True
        try:
            try:
                # the prior goes through both parsers a process keeps (API commands; parse_route_text / partial)
                ok = api.api_route(prior, 'announce') and conf.parse_route_text(prior)
            except Exception:  # noqa: BLE001
                forget_parsers()
                return []
            if not ok:
                return []
            try:
                out = attempt(case, cl)
            except Tolerated:
                return []
        finally:
            _STATE.pop('keep-history', None)
        kinds[name] = 'accepted' if out.kind == 'routes' else out.kind
        if out.kind == 'exception':
            forget_parsers()
    if len(set(kinds.values())) > 1:
        raise violation(f'history:acceptance-depends-on-the-previous-command:{form}', f'"{text[:300]}" via {case.get("entry")}: {kinds}')
    return ['history-probe:' + next(iter(kinds.values()))]


def check_route(case: dict) -> dict:
    try:
        res = _check_route(case)
    except Tolerated as t:
        return {'nontrivial': bool(case.get('near')), 'classes': [f'tolerated:{t.signature}']}
    try:
        res['classes'] = list(res['classes']) + history_probe(case, case['form'], attempt_route, case['clauses'], gen.text_of(case['clauses']))
    except Tolerated as t:
        res['classes'] = list(res['classes']) + [f'tolerated:{t.signature}']
    return res


def _check_route(case: dict, out: Outcome | None = None) -> dict:
    """out: the outcome to judge when the definition was offered somewhere else (the api-lines engine); the entry point of the
    case is then only used to name the clause at fault"""
    exa.reset_global_state()
    form, entry, fits, mutation = case['form'], case['entry'], case['fits'], case['mutation']
    cl = case['clauses']
    text = gen.text_of(cl)
    shown = text if len(text) < 300 else text[:300] + f'... ({len(text)} characters)'
    classes = [f'form:{form}', f'entry:{entry}', f'family:{case["afi"]}/{case["safi"]}', f'fits:{fits}']
    classes.append('mutation:' + (f'{mutation["kind"]}:{mutation["field"]}' if mutation else 'none'))
    nontrivial = bool(case['near'])

    if out is None:
        out = attempt_route(case, cl)

    # (a) a route list or a clean refusal
    note = ''
    if out.kind == 'unlocated' and 'problem parsing configuration file' in out.reason:
        # reload() swallowed an exception: the same text offered directly names it (one root cause, one signature)
        direct = dict(case, entry='parse_route_text' if form == 'route' else 'partial')
        again = attempt_route(direct, cl)
        if again.kind == 'exception':
            note = f'; in a configuration file ({entry}) the operator only reads "{out.reason[:160]}", neither the line nor the statement'
            case, out = direct, again
    if out.kind == 'exception':
        culprit, minimal, _ = isolate(case, attempt_route, out)
        raise violation(parse_signature(form, culprit, case, out.exc), f'{out.exc!r} at {innermost_repo_frame(out.exc)} for "{minimal[:300]}" ({describe(case)}; whole text "{shown}"){note}') from out.exc  # type: ignore[arg-type]
    self_other_afi = case['afi'] == 2 and entry.startswith('config') and any(c[1] == 'next-hop self' for c in cl)
    if out.kind in ('unlocated', 'refused') and self_other_afi and 'next-hop self' in out.reason:
        # documented: next-hop self needs a transport address of the family of the route (the file is for an IPv4 session)
        return {'nontrivial': nontrivial, 'classes': classes + ['self-other-afi-refused']}
    if out.kind in ('unlocated', 'refused') and 'can only use ip ranges for the peer address' in out.reason:
        # the interned NetMask defect of C17: an IPv6 /32 route makes the /32 of the neighbor address look like a range
        if fits is True:
            raise violation('refused-valid:config:ipv6-mask-equal-to-neighbor-mask', f'"{shown}" in a configuration file is refused with "{out.reason[:200]}" ({describe(case)})')
        return {'nontrivial': nontrivial, 'classes': classes + ['refused:c17-netmask-interning']}
    if out.kind == 'unlocated':
        culprit, minimal, seen = isolate(case, attempt_route, out)
        raise violation(unlocated_signature(form, case, culprit), f'"{minimal[:300]}" in a configuration file is refused with "{seen.reason[:200]}": neither the line nor the statement ({describe(case)})')
    if out.kind == 'refused':
        if fits is True:
            culprit, minimal, seen = isolate(case, attempt_route, out)
            reason = ' '.join(seen.reason.split())[:200]
            if form == 'family' and culprit == 'path-information' and case['record'].get('path_id_form') == 'int':
                # the `<afi> <safi>` form documents path-information as an address; the integer spelling belongs to `route`
                return {'nontrivial': nontrivial, 'classes': classes + ['refused:family-path-information-as-integer-undocumented']}
            raise violation(f'refused-valid:{form}:{culprit}', f'"{minimal[:300]}" is refused ({reason}) although every value fits the wire format ({describe(case)}; whole text "{shown}")')
        if not out.line_ok:
            raise violation('config:wrong-line-number', f'the refusal of "{shown}" names line {out.lines[0]}, the statement is on line {out.lines[1]} of the file: "{out.reason[:200]}" ({describe(case)})')
        return {'nontrivial': nontrivial, 'classes': classes + ['refused' + (f':{out.how}' if out.how else '')]}

    # (b) accepted: it can be sent, with the values as written
    routes = out.routes
    classes.append('accepted')
    if fits is False:
        failure, results, _ = encode_everywhere(case, routes, text)
        if failure is not None:
            after = f'then encoding raises {failure.exc!r}'
        else:
            wire = next((m for per in results.values() for msgs in per.values() for m in msgs), b'')
            after = f'then sent as {wire[19:].hex()[:160]}' if wire else 'then nothing is sent'
        m = mutation or {'field': '?', 'what': '?', 'kind': '?'}
        raise violation(f'accepted-unfit:{form}:{m["field"]}:{m["what"]}', f'"{shown}" is accepted ({[extensive(r) for r in routes[:2]]}), {after} ({describe(case)})')

    failure, results, more = encode_everywhere(case, routes, text)
    classes += sorted(more)
    lacking = {'announce requires nexthop': 'next-hop', 'unexpected nlri definition': 'next-hop', 'labeled route announce requires labels': 'label', 'VPN route announce requires RD': 'rd'}
    lacks = next((kw for start, kw in lacking.items() if failure is not None and isinstance(failure.exc, ValueError) and str(failure.exc).startswith(start)), None)
    if lacks:
        # the root cause is the acceptance of a route without next hop / label / rd, however the text came to lack it
        raise violation(f'accepted-unfit:{form}:{lacks}:dropped-clause', f'"{shown}" is accepted ({[extensive(r) for r in routes[:2]]}), then encoding raises {failure.exc!r} ({describe(case)})')
    if failure is not None:
        if fits is None:
            culprit, minimal = (mutation or {}).get('field', '?'), text
        else:
            culprit, minimal, _ = isolate(case, attempt_encode, failure)
        raise violation(exception_signature(f'encode:{form}:{culprit}', failure.exc), f'{failure.exc!r} when "{minimal[:300]}" is encoded ({describe(case)}; whole text "{shown}")') from failure.exc  # type: ignore[arg-type]

    if fits is None:
        # not in the documented grammar, accepted all the same: it encodes, what it means is not demanded
        return {'nontrivial': nontrivial, 'classes': classes + [f'ungrammatical-accepted:{mutation["kind"]}' if mutation else 'ungrammatical-accepted']}

    rec = case['record']
    prefixes = [rec['prefix']] + rec.get('more_prefixes', [])
    sig = f'wire:{form}'
    if len(routes) != len(prefixes):
        raise violation(f'{sig}:route-count', f'{len(routes)} routes for {len(prefixes)} prefixes: "{shown}"')
    empty_small = compared = 0
    for ri, route in enumerate(routes):
        one = dict(rec, prefix=prefixes[ri])
        for si, (sess, _, _) in enumerate(sessions()):
            if si not in results.get(ri, {}):
                continue
            msgs = results[ri][si]
            if not msgs:
                if case['huge'] and sess['size'] == 4096:
                    empty_small += 1
                    continue
                raise violation(f'{sig}:no-message', f'nothing is sent for "{shown}" on {sess}')
            compare_wire(one, text, sess, msgs, sig)
            compared += 1
    if case['huge'] and compared:
        classes.append('huge:no-room-in-4096' if empty_small else 'huge:sent-in-4096')
    return {'nontrivial': nontrivial, 'classes': classes + (['values-as-written'] if compared else []), 'sample': {'text': shown, 'entry': entry}}


# ---------------------------------------------------------------------------- vpls-text


def attempt_vpls(case: dict, cl: list) -> Outcome:
    entry = case['entry']
    text = gen.text_of(cl)
    _, api = parsers()
    try:
        if entry in ('api', 'api-legacy'):
            command, action = (text, 'announce') if entry == 'api' else ('announce ' + text, '')
            try:
                routes = api.api_vpls(command, action)
            except API_CLEAN as exc:
                return Outcome('refused', reason=f'{type(exc).__name__}: {exc}', how='api-error-reply')
            return Outcome('routes', routes) if routes else Outcome('refused', reason=str(api.configuration.error))
    except Exception as exc:  # noqa: BLE001
        forget_parsers()
        return Outcome('exception', exc=exc)
    if entry == 'config-flat':
        body = [('  l2vpn {', False), (f'    {text};', True), ('  }', False)]
    elif entry == 'config-block':
        body = [('  l2vpn {', False), ('    vpls site-a {', False)] + [(f'      {c[1]};', True) for c in cl[1:] if c[1]] + [('    }', True), ('  }', False)]
    else:
        body = [('  announce {', False), ('    l2vpn {', False), (f'      {text};', True), ('    }', False), ('  }', False)]
    text, where = config_text(body, ['l2vpn vpls'], 0)
    return load_configuration(text, where)


def check_vpls(case: dict) -> dict:
    try:
        res = _check_vpls(case)
    except Tolerated as t:
        return {'nontrivial': bool(case.get('near')), 'classes': [f'tolerated:{t.signature}']}
    try:
        res['classes'] = list(res['classes']) + history_probe(case, 'vpls', attempt_vpls, case['clauses'], gen.text_of(case['clauses']))
    except Tolerated as t:
        res['classes'] = list(res['classes']) + [f'tolerated:{t.signature}']
    return res


def _check_vpls(case: dict, out: Outcome | None = None) -> dict:
    exa.reset_global_state()
    cl, fits, mutation = case['clauses'], case['fits'], case['mutation']
    text = gen.text_of(cl)
    classes = [f'entry:{case["entry"]}', f'fits:{fits}', 'mutation:' + (f'{mutation["kind"]}:{mutation["field"]}' if mutation else 'none')]
    if out is None:
        out = attempt_vpls(case, cl)
    where = f'vpls via {case["entry"]}' + (f', {mutation["kind"]} on {mutation["field"]}' if mutation else '')
    if out.kind == 'unlocated' and 'problem parsing configuration file' in out.reason:
        direct = dict(case, entry='api')
        again = attempt_vpls(direct, cl)
        if again.kind == 'exception':
            where += f'; in a configuration file the operator only reads "{out.reason[:160]}", neither the line nor the statement'
            case, out = direct, again
    if out.kind == 'exception':
        culprit, minimal, _ = isolate(case, attempt_vpls, out, VPLS_SKELETON)
        raise violation(parse_signature('vpls', culprit, case, out.exc), f'{out.exc!r} at {innermost_repo_frame(out.exc)} for "{minimal[:300]}" ({where})') from out.exc  # type: ignore[arg-type]
    if out.kind == 'unlocated':
        culprit, minimal, _ = isolate(case, attempt_vpls, out, VPLS_SKELETON)
        raise violation(unlocated_signature('vpls', case, culprit), f'"{minimal[:300]}" in a configuration file is refused with "{out.reason[:200]}": neither the line nor the statement ({where})')
    if out.kind == 'refused':
        if fits is True:
            rec = case['record']
            classes.append('refused-valid:base>65535' if rec['base'] > 65535 else 'refused-valid:other')
        return {'nontrivial': bool(case['near']), 'classes': classes + ['refused' + (f':{out.how}' if out.how else '')]}
    classes.append('accepted')
    neighbor, neg = other_session(['l2vpn vpls'], [(25, 65)])
    for route in out.routes:
        try:
            msgs = encode(route, neighbor, neg)
        except Exception as exc:  # noqa: BLE001
            if fits is False:
                m = mutation or {'field': '?', 'what': '?'}
                raise violation(f'accepted-unfit:vpls:{m["field"]}:{m["what"]}', f'"{text[:300]}" is accepted ({extensive(route)}), then encoding raises {exc!r} ({where})') from None
            field = (mutation or {}).get('field', 'none')
            raise violation(exception_signature(f'encode:vpls:{field}', exc), f'{exc!r} when "{text[:300]}" is encoded ({where})') from exc
        if fits is False:
            m = mutation or {'field': '?', 'what': '?'}
            wire = msgs[0][19:].hex()[:160] if msgs else 'nothing'
            raise violation(f'accepted-unfit:vpls:{m["field"]}:{m["what"]}', f'"{text[:300]}" is accepted ({extensive(route)}), then sent as {wire} ({where})')
        if fits is True:
            if not msgs:
                raise violation('wire:vpls:no-message', f'nothing is sent for "{text[:300]}"')
            u = codec.decode_update(msgs[0][19:], True)
            mp = u['attrs'].get(14)
            if not mp or (mp['afi'], mp['safi']) != (25, 65):
                raise violation('wire:vpls:family', f'{mp and (mp["afi"], mp["safi"])} for "{text[:300]}"')
            raw = bytes.fromhex(mp['nlri_raw'])
            rec = case['record']
            want = {'length': 17, 'rd': textgen.rd_bytes(rec['rd']).hex(), 'endpoint': rec['endpoint'], 'offset': rec['offset'], 'size': rec['size'], 'base': rec['base']}
            got = {
                'length': int.from_bytes(raw[0:2], 'big'),
                'rd': raw[2:10].hex(),
                'endpoint': int.from_bytes(raw[10:12], 'big'),
                'offset': int.from_bytes(raw[12:14], 'big'),
                'size': int.from_bytes(raw[14:16], 'big'),
                'base': int.from_bytes(raw[16:19], 'big') >> 4,
            }
            if len(raw) != 19 or got != want:
                field = next((k for k in want if got[k] != want[k]), 'size-of-nlri')
                raise violation(f'wire:vpls:{field}', f'wire {got} expected {want} for "{text[:300]}"')
            classes.append('values-as-written')
    return {'nontrivial': bool(case['near']), 'classes': classes, 'sample': {'text': text[:200], 'entry': case['entry']}}


# ---------------------------------------------------------------------------- flow-text


def flow_texts(case: dict, match: list, then: list) -> tuple:
    entry = case['entry']
    m = ' '.join(c[1] + ';' for c in match if c[1])
    t = ' '.join(c[1] + ';' for c in then if c[1])
    flat = ' '.join(c[1] for c in match + then if c[1])
    v6 = any(':' in c[1] for c in match if c[0] in ('destination', 'source'))
    if entry == 'api-block':
        return 'api', f'flow route {{ match {{ {m} }} then {{ {t} }} }}'
    if entry == 'api-flat':
        return 'api', f'flow route {flat}'
    if entry == 'api-legacy':
        return 'api-legacy', f'announce flow route {{ match {{ {m} }} then {{ {t} }} }}'
    if entry == 'family':
        return 'family', f'{"ipv6" if v6 else "ipv4"} flow {flat}'
    return 'config', ''


def attempt_flow(case: dict, cl: list) -> Outcome:
    match = [c for c in cl if c[2] == 'match']
    then = [c for c in cl if c[2] == 'then']
    how, text = flow_texts(case, match, then)
    conf, api = parsers()
    try:
        if how in ('api', 'api-legacy'):
            try:
                routes = api.api_flow(text, 'announce' if how == 'api' else '')
            except API_CLEAN as exc:
                return Outcome('refused', reason=f'{type(exc).__name__}: {exc}', how='api-error-reply')
            return Outcome('routes', routes) if routes else Outcome('refused', reason=str(api.configuration.error))
        if how == 'family':
            section, line = text.split(' ', 1)
            conf.flow.clear()
            conf.static.clear()
            if not conf.partial(section, line, 'announce'):
                return Outcome('refused', reason=str(conf.error))
            return scope_routes(conf)
    except Exception as exc:  # noqa: BLE001
        forget_parsers()
        return Outcome('exception', exc=exc)
    body = [('  flow {', False), ('    route verif {', False), ('      match {', False)]
    body += [(f'        {c[1]};', True) for c in match if c[1]]
    body += [('      }', False), ('      then {', False)]
    body += [(f'        {c[1]};', True) for c in then if c[1]]
    body += [('      }', False), ('    }', False), ('  }', False)]
    text, where = config_text(body, ['ipv4 flow', 'ipv6 flow'], 0)
    return load_configuration(text, where)


def isolate_flow(case: dict, cl: list, failing: Outcome) -> tuple:
    """(keyword of the clause which reproduces the failure beside a harmless rest, that text)"""
    v6 = any(':' in c[1] for c in cl if c[0] in ('destination', 'source'))
    safe_match = [['destination', 'destination 2001:db8:1::/48' if v6 else 'destination 10.9.0.0/24', 'match']]
    safe_then = [['discard', 'discard', 'then']]

    def shown(trial: list) -> str:
        return flow_texts(case, [x for x in trial if x[2] == 'match'], [x for x in trial if x[2] == 'then'])[1] or ' '.join(x[1] for x in trial)

    for c in cl:
        trial = ([c] if c[0] in ('destination', 'source') else safe_match + [c]) + safe_then if c[2] == 'match' else safe_match + [c]
        if failing.same_failure(attempt_flow(case, trial)):
            return c[0], shown(trial)
    return 'several', shown(cl)


def unlocated_signature(form: str, case: dict, culprit: str) -> str:
    m = case['mutation']
    if m and case['fits'] is not True:
        return f'config:unlocated-error:{form}:{m["field"]}:{m["what"]}'
    return f'config:unlocated-error:{form}:{culprit}'


def check_flow(case: dict) -> dict:
    try:
        res = _check_flow(case)
    except Tolerated as t:
        return {'nontrivial': bool(case.get('near')), 'classes': [f'tolerated:{t.signature}']}
    cl = [[c[0], c[1], 'match'] for c in case['match']] + [[c[0], c[1], 'then'] for c in case['then']]
    try:
        res['classes'] = list(res['classes']) + history_probe(case, 'flow', attempt_flow, cl, flow_texts(case, case['match'], case['then'])[1] or ' '.join(c[1] for c in cl))
    except Tolerated as t:
        res['classes'] = list(res['classes']) + [f'tolerated:{t.signature}']
    return res


def _check_flow(case: dict, out: Outcome | None = None) -> dict:
    exa.reset_global_state()
    fits, mutation = case['fits'], case['mutation']
    cl = [[c[0], c[1], 'match'] for c in case['match']] + [[c[0], c[1], 'then'] for c in case['then']]
    text = flow_texts(case, case['match'], case['then'])[1] or ' '.join(c[1] for c in cl)
    classes = [f'entry:{case["entry"]}', f'fits:{fits}', 'mutation:' + (f'{mutation["kind"]}:{mutation["field"]}' if mutation else 'none')]
    where = f'flow via {case["entry"]}' + (f', {mutation["kind"]} on {mutation["field"]}' if mutation else '')
    if out is None:
        out = attempt_flow(case, cl)
    if out.kind == 'unlocated' and 'problem parsing configuration file' in out.reason:
        direct = dict(case, entry='api-block')
        again = attempt_flow(direct, cl)
        if again.kind == 'exception':
            where += f'; in a configuration file the operator only reads "{out.reason[:160]}", neither the line nor the statement'
            case, out = direct, again
    if out.kind == 'exception':
        culprit, minimal = isolate_flow(case, cl, out)
        raise violation(parse_signature('flow', culprit, case, out.exc), f'{out.exc!r} at {innermost_repo_frame(out.exc)} for "{minimal[:300]}" ({where}; whole text "{text[:300]}")') from out.exc  # type: ignore[arg-type]
    if out.kind == 'unlocated':
        culprit, minimal = isolate_flow(case, cl, out)
        raise violation(unlocated_signature('flow', case, culprit), f'"{minimal[:300]}" in a configuration file is refused with "{out.reason[:200]}": neither the line nor the statement ({where})')
    if out.kind == 'refused':
        if fits is True:
            classes.append('refused-valid')
        return {'nontrivial': bool(case['near']), 'classes': classes + ['refused' + (f':{out.how}' if out.how else '')]}
    classes.append('accepted')
    neighbor, neg = other_session(['ipv4 flow', 'ipv6 flow'], [(1, 133), (2, 133)])
    for route in out.routes:
        try:
            msgs = encode(route, neighbor, neg)
        except Exception as exc:  # noqa: BLE001
            if fits is False:
                m = mutation or {'field': '?', 'what': '?'}
                raise violation(f'accepted-unfit:flow:{m["field"]}:{m["what"]}', f'"{text[:300]}" is accepted ({extensive(route)}), then encoding raises {exc!r} ({where})') from None
            field = (mutation or {}).get('field', 'none')
            raise violation(exception_signature(f'encode:flow:{field}', exc), f'{exc!r} when "{text[:300]}" is encoded ({where})') from exc
        if fits is False:
            m = mutation or {'field': '?', 'what': '?'}
            wire = msgs[0][19:].hex()[:160] if msgs else 'nothing'
            raise violation(f'accepted-unfit:flow:{m["field"]}:{m["what"]}', f'"{text[:300]}" is accepted ({extensive(route)}), then sent as {wire} ({where})')
        if fits is True and not msgs:
            raise violation('wire:flow:no-message', f'nothing is sent for "{text[:300]}"')
    return {'nontrivial': bool(case['near']), 'classes': classes, 'sample': {'text': text[:200], 'entry': case['entry']}}


# ---------------------------------------------------------------------------- api-lines: the same definitions as command lines
#
# The line is written by a helper process on its pipe, read by the real Processes, dispatched by reactor/api/dispatch (v6 or v4
# spelling) to the handlers of reactor/api/command/announce.py, which answer on the pipe and change the Adj-RIB-Out of the neighbors
# the line names.  The three judges above decide about the outcome seen there; the direct entry point names the clause at fault.

_JUDGE = {'route': lambda c, o: _check_route(c, o), 'vpls': lambda c, o: _check_vpls(c, o), 'flow': lambda c, o: _check_flow(c, o)}


def _line_form(kind: str, case: dict) -> str:
    return case['form'] if kind == 'route' else kind


def _line_direct(kind: str, case: dict) -> dict:
    """the case as the entry-point engines run it: the direct call the line is compared with"""
    entry = case['entry']
    if kind == 'route' and entry.startswith('config'):
        entry = {'route': 'parse_route_text', 'family': 'partial', 'attributes': 'api'}[case['form']]
    elif kind == 'vpls' and entry.startswith('config'):
        entry = 'api'
    elif kind == 'flow' and entry == 'config':
        entry = 'api-block'
    return dict(case, entry=entry)


def _line_clauses(kind: str, case: dict) -> list:
    if kind == 'flow':
        return [[c[0], c[1], 'match'] for c in case['match']] + [[c[0], c[1], 'then'] for c in case['then']]
    return case['clauses']


def _line_definition(kind: str, case: dict) -> str:
    """the definition as it follows `announce ` / `withdraw ` on the line"""
    if kind == 'flow':
        entry = case['entry'] if case['entry'] in ('api-block', 'api-flat', 'family') else 'api-block'
        return flow_texts(dict(case, entry=entry), case['match'], case['then'])[1]
    return gen.text_of(case['clauses'])


def _line_attempt(kind: str, case: dict) -> Outcome:
    attempt = {'route': attempt_route, 'vpls': attempt_vpls, 'flow': attempt_flow}[kind]
    return attempt(case, _line_clauses(kind, case))


def _judged(kind: str, case: dict, out: Outcome, where: str) -> dict:
    """the judge of the entry-point engines on an outcome seen on the line path (its signatures are theirs: one root cause, one signature)"""
    try:
        return _JUDGE[kind](case, out)
    except Violation as v:
        raise violation(v.signature, f'{where}: {v.message}') from None


def _kind3(out: Outcome) -> str:
    return 'accepted' if out.kind == 'routes' else ('exception' if out.kind == 'exception' else 'refused')


def _encode_withdraw(route, neighbor, neg) -> list:
    from exabgp.bgp.message.update.collection import UpdateCollection

    route = neighbor.resolve_self(route)
    return [bytes(m) for m in UpdateCollection([], [route.nlri], route.attributes).messages(neg)]


def _line_reply(obs: dict, form: str, verb: str, shown: str) -> str:
    """(1) exactly one terminal reply, from a reactor which is still there"""
    logged = obs['exceptions']
    if obs.get('skipped'):
        raise RuntimeError('harness: the line was not written, the reactor loop had ended on an earlier line which should have been reported')
    if obs['ended'] is not None:
        if isinstance(obs['ended'], BaseException):
            raise violation(exception_signature(f'api-line:reactor-loop-ended:{form}:{verb}', obs['ended']), f'{obs["ended"]!r} ended the reactor loop on the line "{shown}"') from obs['ended']
        raise violation(f'api-line:reactor-loop-ended:{form}:{verb}', f'the reactor loop returned on the line "{shown}" (replies {obs["replies"][-3:]})')
    terms = obs['terminals']
    if not terms:
        if logged:
            raise violation(exception_signature(f'api-line:no-reply:{form}:{verb}', logged[0]), f'the line "{shown}" is not answered ({REPLY_WAIT_TEXT}); logged: {logged[0]!r}; replies {obs["replies"][-3:]}') from logged[0]
        raise violation(f'api-line:no-reply:{form}:{verb}', f'the line "{shown}" is answered with neither done nor error ({REPLY_WAIT_TEXT}); replies {obs["replies"][-3:]}')
    if len(terms) > 1:
        raise violation(f'api-line:several-replies:{form}:{verb}:{"+".join(terms[:3])}', f'the line "{shown}" is answered {len(terms)} times: {obs["replies"][-6:]}' + (f'; logged: {logged[0]!r}' if logged else ''))
    return terms[0]


REPLY_WAIT_TEXT = 'within 4 s of reactor time'


def _judge_line_item(version: int, item: dict, observations: list) -> list:
    """one definition, its one or two lines; -> classes; raises the violation"""
    kind, case = item['kind'], item['case']
    form, fits, mutation = _line_form(kind, case), case['fits'], case['mutation']
    m = mutation or {'kind': 'none', 'field': 'none', 'what': 'none'}
    direct_case = _line_direct(kind, case)
    picked = api_lines.selected(item['select'])
    classes = [f'kind:{kind}', f'form:{form}', f'verb:{item["verb"]}', f'select:{item["select"]}', f'fits:{fits}', f'direct:{direct_case["entry"]}', 'mutation:' + (f'{m["kind"]}:{m["field"]}' if mutation else 'none')]
    if item.get('suffix'):
        classes.append('suffix:' + item['suffix'].replace(' ', '+'))
    direct = None
    announce_said = None

    def self_other_afi(exc: BaseException) -> bool:
        # documented: next-hop self needs a transport address of the family of the route (both sessions are IPv4 ones)
        return kind == 'route' and case['afi'] == 2 and isinstance(exc, TypeError) and 'next-hop self' in str(exc)

    for verb, obs in zip(api_lines.verbs(item), observations):
        line = obs['line']
        shown = line if len(line) < 300 else line[:300] + f'... ({len(line)} characters)'
        where = f'API line "{shown}" (api v{version})'
        said = _line_reply(obs, form, verb, shown)
        logged = obs['exceptions']
        classes.append(f'{verb}:{said}' + (':exception-logged' if logged else ''))

        # (2) refused: no Adj-RIB-Out has changed
        if said == 'error':
            changed = [api_lines.NEIGHBORS[i]['ip'] for i in range(len(obs['before'])) if api_lines.changed(obs['before'][i], obs['after'][i])]
            if changed:
                raise violation(f'api-line:error-reply-but-rib-changed:{form}:{verb}', f'{where} is answered error ({obs["replies"][-2:]}), the outgoing RIB of {changed} has changed' + (f'; logged: {logged[0]!r}' if logged else ''))

        if logged and all(self_other_afi(e) for e in logged):
            if said != 'error':
                raise violation(f'api-line:done-after-exception:{form}:{verb}', f'{where}: {logged[0]!r} is logged and the line answered done')
            classes.append('self-other-afi-refused')
            if verb == 'announce':
                announce_said = 'refused'
            continue

        if direct is None:
            direct = _line_attempt(kind, direct_case)
            classes.append(f'direct:{_kind3(direct)}')
        dk = _kind3(direct)

        # an exception is an exception whatever the helper reads (every handler, or the scheduler behind it, answers error)
        if logged:
            seen = Outcome('exception', exc=logged[0])
            if seen.same_failure(direct):
                # the parser's: the judge names it as the entry-point engines do
                _judged(kind, direct_case, seen, f'{where}, answered {said}')
                raise RuntimeError('harness: the judge let an exception pass')
            raise violation(
                exception_signature(f'api-line:{form}:{verb}', logged[0]), f'{logged[0]!r} at {innermost_repo_frame(logged[0])} while {where} is executed (answered {said}); the same definition through {direct_case["entry"]} is {dk}'
            ) from logged[0]
        if dk == 'exception':
            _judged(kind, direct_case, direct, f'{where} is answered {said}; through {direct_case["entry"]}')
            raise RuntimeError('harness: the judge let an exception pass')

        if verb == 'withdraw':
            classes += _judge_withdraw_line(kind, case, form, m, obs, said, direct, direct_case, announce_said, where, picked)
            continue

        # ---- announce
        if said == 'done':
            if not obs['announced']:
                raise violation(f'api-line:done-without-route:{form}', f'{where} is answered done, no route was handed to the outgoing RIBs')
            routes = []
            for k, (_names, route) in enumerate(obs['announced']):
                for i in picked:
                    if not obs['found'][i][k]:
                        raise violation(f'api-line:done-but-route-not-in-adj-rib-out:{form}', f'{where} is answered done, {extensive(route)} is not in the Adj-RIB-Out of {api_lines.NEIGHBORS[i]["ip"]}')
                routes.append(obs['found'][picked[0]][k][0])
            seen = Outcome('routes', routes)
            extra = []
            if len(picked) > 1:
                # the copies of the other neighbor: judged as well when they are not the same values
                others = [obs['found'][picked[1]][k][0] for k in range(len(routes))]
                try:
                    same = all(o is r or (o.index() == r.index() and o.attributes.index() == r.attributes.index() and getattr(o.nlri, '_packed', None) == getattr(r.nlri, '_packed', None) and str(o.nexthop) == str(r.nexthop)) for o, r in zip(others, routes))
                except Exception:  # noqa: BLE001
                    same = False
                if not same:
                    extra = [Outcome('routes', others)]
                    classes.append('neighbors-hold-different-values')
        else:
            seen = Outcome('refused', reason=' | '.join(obs['replies'][-2:]), how='api-line')
            extra = []
        lk = _kind3(seen)
        announce_said = lk

        # (4) the entry points agree on accept / refuse; the record says which one is wrong when they do not
        if lk != dk:
            both = f'{where} is {lk}, the same definition through {direct_case["entry"]} is {dk}' + (f' ({" ".join(direct.reason.split())[:160]})' if dk == 'refused' else '') + (f' (answered {obs["replies"][-2:]})' if lk == 'refused' else '')
            if fits is None:
                classes.append(f'entry-points-disagree:ungrammatical:line-{lk}')
                if lk == 'accepted':
                    _judged(kind, direct_case, seen, where)  # what is accepted must still encode
                continue
            direct_deviates = (dk == 'refused') == bool(fits)
            if direct_deviates:
                _judged(kind, direct_case, direct, both)
                if kind != 'route' and fits is True:
                    # vpls / flow: acceptance of valid values is not demanded of an entry point, agreement between them is
                    raise violation(f'entry-points:{direct_case["entry"]}-refuses-what-the-api-line-sends:{form}:{m["field"]}', f'{both} ({describe_any(kind, case)})')
                raise violation(f'entry-points:{direct_case["entry"]}-{"refuses-valid" if fits else "accepts-unfit"}:{form}:{m["field"]}:{m["what"]}', f'{both} ({describe_any(kind, case)})')
            if fits:
                raise violation(f'entry-points:api-line-refuses-valid:{form}:{m["field"]}', f'{both}; every value fits the wire format ({describe_any(kind, case)})')
            raise violation(f'entry-points:api-line-accepts-unfit:{form}:{m["field"]}:{m["what"]}', f'{both} ({[extensive(r) for r in seen.routes[:2]]}; {describe_any(kind, case)})')

        # (3) accepted: what is in the Adj-RIB-Out encodes for every session with the values as written (refused: was it valid?)
        info = _judged(kind, direct_case, seen, where)
        for out in extra:
            _judged(kind, direct_case, out, f'{where}, the copy of {api_lines.NEIGHBORS[picked[1]]["ip"]}')
        classes += [f'judge:{c}' for c in info.get('classes', []) if c.split(':')[0] in ('refused', 'accepted', 'values-as-written', 'ungrammatical-accepted', 'refused-valid', 'huge', 'self-other-afi-refused')]
    return classes


def describe_any(kind: str, case: dict) -> str:
    m = case['mutation']
    return f'{_line_form(kind, case)}' + (f', {m["kind"]} on {m["field"]} ({m["what"]})' if m else ', no mutation')


def _judge_withdraw_line(kind: str, case: dict, form: str, m: dict, obs: dict, said: str, direct: Outcome, direct_case: dict, announce_said, where: str, picked: list) -> list:
    """a withdraw line is the same text behind another verb: accepted or refused as the announce is, except for what only an
    announce needs (the next hop); what it accepts can be written as a withdraw for every session"""
    fits = case['fits']
    dk = _kind3(direct)
    needs_only_announce = m['kind'] == 'dropped-clause' and m['field'] == 'next-hop'
    if said == 'done':
        if not obs['withdrawn']:
            raise violation(f'api-line:done-without-route:{form}:withdraw', f'{where} is answered done, no route was handed to the outgoing RIBs')
        if fits is False and m['kind'] in ('over-bound', 'malformed'):
            if dk == 'accepted':
                raise violation(f'accepted-unfit:{form}:{m["field"]}:{m["what"]}', f'{where} is accepted ({[extensive(r) for _, r in obs["withdrawn"][:2]]}), as the announce through {direct_case["entry"]} is ({describe_any(kind, case)})')
            raise violation(f'entry-points:api-line-withdraw-accepts-unfit:{form}:{m["field"]}:{m["what"]}', f'{where} is accepted ({[extensive(r) for _, r in obs["withdrawn"][:2]]}); the announce of the same definition through {direct_case["entry"]} is {dk} ({describe_any(kind, case)})')
        if kind == 'route':
            pool = sessions()
        elif kind == 'vpls':
            pool = [(None,) + other_session(['l2vpn vpls'], [(25, 65)])]
        else:
            pool = [(None,) + other_session(['ipv4 flow', 'ipv6 flow'], [(1, 133), (2, 133)])]
        for _names, route in obs['withdrawn']:
            for _, neighbor, neg in pool:
                try:
                    _encode_withdraw(route, neighbor, neg)
                except Exception as exc:  # noqa: BLE001
                    if fits is False:
                        raise violation(f'accepted-unfit:{form}:{m["field"]}:{m["what"]}', f'{where} is accepted ({extensive(route)}), then writing the withdraw raises {exc!r} ({describe_any(kind, case)})') from None
                    # (the signature of an announce which fails in the same frame: one root cause, the acceptance of that route)
                    raise violation(exception_signature(f'encode:{form}:{m["field"]}', exc), f'{exc!r} when the withdraw accepted from {where} is encoded ({describe_any(kind, case)})') from exc
        if announce_said == 'refused' and not (fits is False and m['kind'] == 'dropped-clause') and fits is not None:
            raise violation(f'entry-points:withdraw-accepts-what-announce-refuses:{form}:{m["field"]}', f'{where} is accepted, the announce line of the same definition was refused ({describe_any(kind, case)})')
        return ['withdraw-encodes']
    # refused
    if announce_said == 'accepted':
        raise violation(f'entry-points:withdraw-refuses-what-announce-accepts:{form}:{m["field"]}', f'{where} is refused ({obs["replies"][-2:]}), the announce line of the same definition was accepted ({describe_any(kind, case)})')
    if fits is True and kind == 'route' and announce_said is None:
        if dk == 'accepted':
            raise violation(f'entry-points:api-line-withdraw-refuses-valid:{form}:{m["field"]}', f'{where} is refused ({obs["replies"][-2:]}), the announce of the same definition through {direct_case["entry"]} is accepted; every value fits the wire format ({describe_any(kind, case)})')
        _judged('route', direct_case, direct, f'{where} (and the announce through {direct_case["entry"]})')  # refused as the announce is: the parser's refused-valid
    return []


def _judge_raw_item(version: int, item: dict, observations: list) -> list:
    """a definition which stops early (`announce`, `announce flow`, the first words of a definition): no record says what it
    means, so only: one terminal reply, no exception, nothing in a RIB after error, and what is announced after done encodes"""
    words = item['text'].split(' ')
    head = words[0] if words[0] in ('route', 'ipv4', 'ipv6', 'flow', 'vpls', 'attribute', 'attributes') else 'other'
    verb, obs = item['verb'], observations[0]
    line = obs['line']
    where = f'API line "{line[:300]}" (api v{version})'
    said = _line_reply(obs, f'truncated-{head}', verb, line[:300])
    logged = obs['exceptions']
    classes = ['kind:truncated', f'head:{head}', f'words:{min(len(words), 6) if item["text"] else 0}', f'{verb}:{said}']
    if said == 'error':
        changed = [api_lines.NEIGHBORS[i]['ip'] for i in range(len(obs['before'])) if api_lines.changed(obs['before'][i], obs['after'][i])]
        if changed:
            raise violation(f'api-line:error-reply-but-rib-changed:truncated-{head}:{verb}', f'{where} is answered error ({obs["replies"][-2:]}), the outgoing RIB of {changed} has changed')
    if logged:
        if all(isinstance(e, TypeError) and 'next-hop self' in str(e) for e in logged):
            return classes + ['self-other-afi-refused']
        raise violation(exception_signature(f'api-line:truncated-{head}:{verb}', logged[0]), f'{logged[0]!r} at {innermost_repo_frame(logged[0])} while {where} is executed (answered {said})') from logged[0]
    if said == 'done':
        handed = obs['announced'] if verb == 'announce' else obs['withdrawn']
        if not handed:
            raise violation(f'api-line:done-without-route:truncated-{head}:{verb}', f'{where} is answered done, no route was handed to the outgoing RIBs')
        for k, (_names, route) in enumerate(handed):
            family = tuple(int(x) for x in route.nlri.family().afi_safi())
            if family == (25, 65):
                pool = [(None,) + other_session(['l2vpn vpls'], [(25, 65)])]
            elif family[1] == 133:
                pool = [(None,) + other_session(['ipv4 flow', 'ipv6 flow'], [(1, 133), (2, 133)])]
            else:
                pool = sessions()
            if verb == 'announce':
                for i in api_lines.selected(item['select']):
                    if not obs['found'][i][k]:
                        raise violation(f'api-line:done-but-route-not-in-adj-rib-out:truncated-{head}', f'{where} is answered done, {extensive(route)} is not in the Adj-RIB-Out of {api_lines.NEIGHBORS[i]["ip"]}')
                route = obs['found'][api_lines.selected(item['select'])[0]][k][0]
            for _, neighbor, neg in pool:
                try:
                    msgs = encode(route, neighbor, neg) if verb == 'announce' else _encode_withdraw(route, neighbor, neg)
                except Exception as exc:  # noqa: BLE001
                    lacking = {'announce requires nexthop': 'next-hop', 'unexpected nlri definition': 'next-hop', 'labeled route announce requires labels': 'label', 'VPN route announce requires RD': 'rd'}
                    lacks = next((kw for start, kw in lacking.items() if isinstance(exc, ValueError) and str(exc).startswith(start)), None)
                    form = {'route': 'route', 'ipv4': 'family', 'ipv6': 'family', 'attribute': 'attributes'}.get(head, head)
                    if lacks and verb == 'announce':
                        # the listed root cause (an announce without next hop / label / rd is accepted), met through a text which stops early
                        raise violation(f'accepted-unfit:{form}:{lacks}:dropped-clause', f'{where} is accepted ({extensive(route)}), then encoding raises {exc!r}') from None
                    raise violation(exception_signature(f'encode:truncated-{head}:{verb}', exc), f'{where} is accepted ({extensive(route)}), then encoding raises {exc!r}') from exc
                if verb == 'announce' and not msgs and family[1] in (133, 65):
                    raise violation(f'wire:truncated-{head}:no-message', f'{where} is accepted ({extensive(route)}), nothing is sent for it')
        classes.append('accepted-encodes')
    return classes


_KNOWN_ENTRIES: list = []


def _is_listed(signature: str) -> bool:
    from vlib.runner import load_findings, sig_matches

    if not _KNOWN_ENTRIES:
        _KNOWN_ENTRIES.append(load_findings(PROPERTY)[0])
    return any(sig_matches(e, signature) for e in _KNOWN_ENTRIES[0])


def check_api_lines(case: dict) -> dict:
    exa.reset_global_state()
    version = case['version']
    lines, owner = [], []
    for n, item in enumerate(case['items']):
        text = item['text'] if item['kind'] == 'raw' else _line_definition(item['kind'], item['case'])
        for verb in api_lines.verbs(item):
            lines.append(api_lines.command_line(version, item, verb, text))
            owner.append(n)
    forget_parsers()
    observations = api_lines.run_lines(version, lines)
    classes = [f'api-v{version}', f'lines:{len(lines)}']
    found: list = []
    for n, item in enumerate(case['items']):
        mine = [o for o, k in zip(observations, owner) if k == n]
        try:
            classes += (_judge_raw_item if item['kind'] == 'raw' else _judge_line_item)(version, item, mine)
        except Tolerated as t:
            classes.append(f'tolerated:{t.signature}')
        except Violation as v:
            # the search goes on behind a listed finding: every definition of the case is judged, an unlisted violation is
            # reported before a listed one
            found.append(v)
            if not _is_listed(v.signature):
                break
    for v in found:
        if not _is_listed(v.signature):
            raise v
    if found:
        raise found[0]
    return {'nontrivial': any(i['kind'] == 'raw' or i['case'].get('near') for i in case['items']), 'classes': classes, 'sample': {'version': version, 'lines': [ln[:200] for ln in lines[:3]]}}


def fixed_lines() -> list:
    """the minimal definitions of the diagnosed findings and the label-stack grid (their API spellings), as lines"""
    from vlib import c18_findings

    out = []
    seen = set()
    pools = [('route', c18_findings.route_cases() + label_stack_cases()), ('vpls', c18_findings.vpls_cases()), ('flow', c18_findings.flow_cases())]
    for kind, pool in pools:
        for c in pool:
            key = (kind, _line_definition(kind, c))
            if key in seen:
                continue
            seen.add(key)
            n = len(out)
            out.append(api_lines.single(kind, c, verb=('announce', 'both', 'withdraw')[n % 3] if n % 5 == 0 else 'announce', select=api_lines.SELECTS[n % 4], version=4 if n % 3 == 2 else 6))
    return out + api_lines.raw_cases()


def _tagged(prefix: str, fn):
    def run(case: dict) -> dict:
        info = fn(case)
        info['classes'] = [f'{prefix}:{c}' for c in info.get('classes', [])]
        return info

    return run


def label_stack_cases() -> list:
    """a label the 20-bit field cannot hold at every position of a stack of two and three, through every entry point
    (a range check applied to one position of the stack only passes the single-label and the generated one-in-thirty cases)"""
    out = []
    mutation = {'kind': 'over-bound', 'field': 'label', 'what': 'value-in-stack'}
    for form, entries, head in (('route', ('parse_route_text', 'api', 'config-flat', 'config-block'), 'route 10.18.0.0/24'), ('family', ('partial', 'api', 'config-flat'), 'ipv4 nlri-mpls 10.18.0.0/24')):
        for entry in entries:
            for bad in (2**20, 2**20 + 5, 2**28):
                for stack in ([bad, 16], [16, bad], [bad, 16, 17], [16, bad, 17], [16, 17, bad]):
                    cl = [['prefix', head], ['label', 'label [ ' + ' '.join(map(str, stack)) + ' ]'], ['next-hop', 'next-hop 10.0.0.1']]
                    out.append(gen.route_case(cl, form=form, entry=entry, afi=1, safi=4, fits=False, mutation=dict(mutation)))
    return out


def fixed_routes() -> list:
    from vlib import c18_findings

    return c18_findings.route_cases() + label_stack_cases()


def fixed_vpls() -> list:
    from vlib import c18_findings

    return c18_findings.vpls_cases()


def fixed_flow() -> list:
    from vlib import c18_findings

    return c18_findings.flow_cases()


ENGINES = [
    Engine('route-text', gen.route_cases, _tagged('route', check_route), quick=900, thorough=30000, batch=300, fixed_cases=fixed_routes),
    Engine('vpls-text', gen.vpls_cases, _tagged('vpls', check_vpls), quick=250, thorough=6000, batch=125, fixed_cases=fixed_vpls),
    Engine('flow-text', gen.flow_cases, _tagged('flow', check_flow), quick=250, thorough=6000, batch=125, fixed_cases=fixed_flow),
    Engine('api-lines', api_lines.line_cases, _tagged('lines', check_api_lines), quick=300, thorough=8000, batch=150, fixed_cases=fixed_lines, quick_s=30.0),
]
# ---------------------------------------------------------------------------- the split keyword


@st.composite
def split_cases(draw) -> dict:
    """`split /N` (one definition standing for every /N inside the prefix) in each spelling that takes the route keywords"""
    v6 = draw(st.integers(0, 3)) == 0
    if v6:
        mask = draw(st.sampled_from([32, 33, 48, 63, 125]))
        prefixes = [f'2001:db8:{i}::/{mask}' if mask >= 48 else f'2001:{"db8" if i == 0 else "db9"}::/{mask}' for i in range(2)]
        nexthop = '2001:db8::1'
    else:
        mask = draw(st.sampled_from([8, 16, 23, 24, 25, 29]))
        prefixes = [f'10.{i + 1}.0.0/{mask}' if mask >= 16 else f'{10 + i}.0.0.0/{mask}' for i in range(2)]
        nexthop = '192.0.2.1'
    spelling = draw(st.sampled_from(['route', 'route', 'attributes', 'attributes', 'attributes']))
    entry = draw(st.sampled_from({'route': ['parse_route_text', 'api', 'api-legacy', 'config-flat', 'config-block'], 'attributes': ['api', 'api-legacy', 'config-flat']}[spelling]))
    return {
        'prefixes': prefixes[: draw(st.sampled_from([1, 2])) if spelling == 'attributes' else 1],
        'split': mask + draw(st.sampled_from([1, 1, 2, 3])),
        'nexthop': nexthop,
        'spelling': spelling,
        'entry': entry,
        'where': draw(st.sampled_from(['before-med', 'after-med'])),
    }


def check_split(case: dict) -> dict:
    import ipaddress

    words = ['med 7', f'split /{case["split"]}'] if case['where'] == 'after-med' else [f'split /{case["split"]}', 'med 7']
    if case['spelling'] == 'route':
        cl = [['prefix', f'route {case["prefixes"][0]}'], ['next-hop', f'next-hop {case["nexthop"]}']] + [[w.split(' ')[0], w] for w in words]
        form = 'route'
    else:
        text = f'attributes next-hop {case["nexthop"]} ' + ' '.join(words) + ' nlri ' + ' '.join(case['prefixes'])
        cl = [['prefix', text]]
        # through a configuration file the statement sits in a static section like a route; on the API it is `announce attributes`
        form = 'route' if case['entry'] == 'config-flat' else 'attributes'
    outcome = attempt_route({'form': form, 'entry': case['entry']}, cl)
    what = f'"{gen.text_of(cl)}" via {case["entry"]}'
    if outcome.kind == 'exception':
        raise Violation(exception_signature('split:parse', outcome.exc), f'{outcome.exc!r} for {what}')
    if outcome.kind != 'routes':
        raise Violation(f'split:refused:{case["spelling"]}', f'{what}: {outcome.reason[:200]}')
    want = sorted(str(sub) for p in case['prefixes'] for sub in ipaddress.ip_network(p).subnets(new_prefix=case['split']))
    got = sorted(str(ipaddress.ip_network(str(r.nlri).split(' ')[0])) for r in outcome.routes)
    if got != want:
        kind = 'not-applied' if got == sorted(str(ipaddress.ip_network(p)) for p in case['prefixes']) else 'other-routes'
        raise Violation(f'split:{kind}:{case["spelling"]}', f'{what}: the definition stands for {want[:6]}... ({len(want)} routes), exabgp holds {got[:6]} ({len(got)} routes)')
    return {'nontrivial': True, 'classes': [f'split:{case["spelling"]}:{case["entry"]}', 'split']}


ENGINES.append(Engine('split-keyword', split_cases, check_split, quick=60, thorough=2000, batch=60))

for _engine in ENGINES[:3]:
    # a parser that does not come back is no answer at all (met: an unterminated bgp-prefix-sid list in a configuration file)
    _engine.case_timeout = 60
