"""C05 - the session state machine only takes RFC 4271 transitions"""

from __future__ import annotations

import json

from hypothesis import strategies as st

from vlib import netharness as nh
from vlib import scenario as sc
from vlib import vloop
from vlib.refwire import codec
from vlib.runner import Engine, Violation

PROPERTY = 'C05'
RULE = (
    'the unmodified Reactor/Peer on a virtual clock; schedule (<= 25 steps) over {outgoing connect succeeds / fails, incoming connection, remote sends valid OPEN / KEEPALIVE / UPDATE / '
    'EOR / ROUTE-REFRESH / NOTIFICATION, any fault class (header, OPEN, UPDATE, refresh), EOF, RST, half-close, virtual delay up to 2 x hold, API teardown, reload, full handshake} '
    'x passive on/off x hold time; a second engine drives the real Listener with a neighbor defined as an address range (dynamic peers): connections from one or two remote addresses, second connections from an address whose session is up. Oracle = history invariants over FSM.change calls, bytes written per transport labelled with the FSM state, transport closure and API state events. '
    'Non-trivial = the schedule reached OPENSENT or beyond and contains a fault or a second connection'
)
ASSUMPTIONS = [
    'only schedules the harness can express: orderings of network / API / timer events at message granularity on one event loop',
    'the RFC 4271 8.2.2 transition relation is written out in ALLOWED below (self-loops included)',
    '`down` events without a preceding `up` are not constrained',
    'transport = socketpair; outgoing connect success/failure is decided by the schedule',
]

ALLOWED = {
    'IDLE': {'IDLE', 'CONNECT', 'ACTIVE'},
    'CONNECT': {'CONNECT', 'ACTIVE', 'OPENSENT', 'IDLE'},
    'ACTIVE': {'ACTIVE', 'CONNECT', 'OPENSENT', 'IDLE'},
    'OPENSENT': {'OPENSENT', 'OPENCONFIRM', 'ACTIVE', 'IDLE'},
    'OPENCONFIRM': {'OPENCONFIRM', 'ESTABLISHED', 'IDLE'},
    'ESTABLISHED': {'ESTABLISHED', 'IDLE'},
}
CONNECTED = {'OPENSENT', 'OPENCONFIRM', 'ESTABLISHED'}

FAULTS = sorted(sc.HEADER_FAULTS) + sorted(sc.UPDATE_FAULTS) + sorted(sc.UPDATE_SOFT_FAULTS) + ['refresh-bad-subtype']
OPEN_VARIANTS = ['valid', 'valid', 'valid', 'rid-low'] + sorted(sc.OPEN_FAULTS)


@st.composite
def op(draw):
    kind = draw(
        st.sampled_from(
            ['wait', 'wait', 'handshake', 'handshake', 'open', 'ka', 'ka', 'update', 'eor', 'refresh', 'notif', 'fault', 'fault', 'fault-close', 'fault-close', 'partial', 'eof', 'rst', 'halfclose', 'in', 'in', 'policy', 'teardown', 'reload', 'reload-remove', 'select']
        )
    )
    if kind == 'wait':
        return ['wait', draw(st.sampled_from([0.0, 0.05, 0.2, 1.0, 3.0, 5.0, 11.0, 20.0]))]
    if kind == 'open':
        return ['open', draw(st.sampled_from(OPEN_VARIANTS))]
    if kind == 'notif':
        return ['notif', draw(st.sampled_from([1, 2, 3, 4, 5, 6])), draw(st.integers(0, 8))]
    if kind == 'fault':
        return ['fault', draw(st.sampled_from(FAULTS))]
    if kind == 'fault-close':
        return ['fault-close', draw(st.sampled_from(FAULTS + ['bad-open'])), draw(st.booleans())]
    if kind == 'partial':
        return ['partial', draw(st.sampled_from(['open', 'keepalive', 'update'])), draw(st.sampled_from([1, 10, 18, 19, 25, 40]))]
    if kind == 'policy':
        return ['policy', draw(st.booleans())]
    if kind == 'teardown':
        return ['teardown', draw(st.sampled_from([2, 3, 4, 6]))]
    if kind == 'select':
        return ['select', draw(st.integers(-2, 1))]
    return [kind]


@st.composite
def cases(draw):
    return {
        'passive': draw(st.sampled_from([False, False, True])),
        'hold': draw(st.sampled_from([9, 9, 30, 0])),
        'connect_ok': draw(st.sampled_from([True, True, True, False])),
        # graceful restart offered by both sides (RFC 4724): a second connection from the peer may then be a restart
        'gr': draw(st.sampled_from([False, False, True])),
        'ops': draw(st.sampled_from([[], [], [['handshake']], [['handshake']], [['handshake'], ['wait', 0.3]], [['in'], ['handshake']]])) + draw(st.lists(op(), min_size=1, max_size=24)) + draw(st.sampled_from([[], [], [], [['shutdown'], ['wait', 1.0]]])),
    }


def fixed_cases() -> list:
    """the neighbor is removed by a reload, or the daemon shut down, at every stage of the establishment"""
    out = []
    for end in (['reload-remove'], ['shutdown']):
        for pre in ([], [['open', 'valid']], [['open', 'valid'], ['wait', 0.05]], [['handshake']], [['handshake'], ['update']]):
            for passive in (False, True):
                out.append({'passive': passive, 'hold': 30, 'connect_ok': True, 'gr': False, 'ops': ([['in']] if passive else []) + pre + [end, ['wait', 0.5], ['open', 'valid'], ['ka'], ['wait', 1.0]]})
    # a session which dies before it is established (NOTIFICATION in OPENSENT / OPENCONFIRM, the peer going away), then sessions
    # which establish and drop: every `up` still has its `down`
    for early in ([['notif', 6, 5]], [['open', 'valid'], ['notif', 6, 5]], [['open', 'valid'], ['eof']], [['rst']]):
        out.append({'passive': False, 'hold': 30, 'connect_ok': True, 'gr': False, 'ops': early + [['wait', 20.0], ['handshake'], ['wait', 0.5], ['eof'], ['wait', 20.0], ['handshake'], ['wait', 0.5], ['notif', 6, 4], ['wait', 20.0], ['handshake'], ['wait', 1.0]]})
    return out


def check(case: dict) -> dict:
    from vlib.refwire import build

    sc.EXTRA_CAPS[:] = [build.cap_gr(0, 120, [(1, 1, 0x80), (2, 1, 0x80)])] if case.get('gr') else []
    try:
        return _check(case)
    finally:
        sc.EXTRA_CAPS[:] = []


def _check(case: dict) -> dict:
    out: dict = {}

    async def main(loop):
        text = sc.config(
            passive=case['passive'],
            hold=case['hold'],
            routes=['route 30.0.0.0/24 next-hop 1.2.3.4', 'route 30.0.1.0/24 next-hop 1.2.3.4 med 5'],
            capability={'graceful-restart': 120} if case.get('gr') else None,
        )
        env = {'bgp.openwait': 8}
        if case['passive']:
            env['bgp.passive'] = True
        path = None
        if any(o[0] == 'reload-remove' for o in case['ops']):
            import os
            import tempfile

            out['tmpdir'] = tempfile.mkdtemp(prefix='c05-')
            path = os.path.join(out['tmpdir'], 'exabgp.conf')
            with open(path, 'w') as fh:
                fh.write(text)
        with nh.Harness(loop, config_text=None if path else text, config_files=[path] if path else None, env=env) as hn:
            if not hn.reload_ok:
                raise RuntimeError(f'configuration refused: {hn.reactor.configuration.error}')
            runner = sc.Runner(hn)
            if path:
                # what stays: the process section and a passive neighbor nobody connects to
                other = sc.config(passive=True, hold=30).replace('neighbor 127.0.0.2 ', 'neighbor 127.0.0.77 ')
                runner.remove = (path, other)
            runner.policy = case['connect_ok']
            hn.start()
            await hn.sleep(0.2)
            await runner.run(case['ops'])
            await hn.sleep(1.5)
            hn.api_read()
            peers = list(hn.reactor._peers.values())
            out['fsm'] = list(hn.fsm_log)
            out['wire'] = [dict(w, data=w['data']) for w in hn.wire_log]
            out['api'] = list(hn.api_lines)
            out['end'] = loop.time()
            out['final'] = [(p.fsm.name(), p.proto is not None) for p in peers]
            out['remotes'] = [
                {
                    'conn': id(r.connection),
                    'kind': r.kind,
                    'closed_at': r.closed_at,
                    'local_closed_at': r.local_closed_at,
                    'io_closed': r.connection.io is None,
                    'sent': [(t, d) for t, d in r.sent],
                    'denied': getattr(r, 'denied', False),
                }
                for r in hn.remotes
            ]

    try:
        vloop.run(main)
    except vloop.Deadlock as exc:
        raise Violation('reactor:stalls', str(exc)) from None
    finally:
        if out.get('tmpdir'):
            import shutil

            shutil.rmtree(out['tmpdir'], ignore_errors=True)

    fsm = out['fsm']
    # (1) transitions
    reached = set()
    for t, key, frm, to, conn in fsm:
        reached.add(to)
        if to not in ALLOWED[frm]:
            raise Violation(f'transition:{frm}->{to}', f'at {t:.2f}s; history {[(f, x) for _, _, f, x, _ in fsm][-8:]}')
    remotes = {r['conn']: r for r in out['remotes']}
    # (2) ESTABLISHED only after OPEN sent, acceptable OPEN and then KEEPALIVE received, on the current transport
    for t, key, frm, to, conn in fsm:
        if to == 'ESTABLISHED' and frm != 'ESTABLISHED':
            r = remotes.get(conn)
            if r is None:
                raise Violation('established:no-transport', f'at {t:.2f}s')
            ours = [w for w in out['wire'] if w['conn'] == conn and w['t'] <= t and w['data'][18] == 1]
            if not ours:
                raise Violation('established:our-open-not-sent', f'at {t:.2f}s')
            stream = b''.join(d for ts, d in r['sent'] if ts <= t)
            msgs, err, _ = codec.split_stream(stream, 65535)
            types = [m[1] for m in msgs]
            if 1 not in types:
                raise Violation('established:no-peer-open', f'remote sent types {types}')
            first_open = types.index(1)
            body = msgs[first_open][2]
            if body != sc.open_body('valid') and body != sc.open_body('rid-low') and body != sc.open_body('hold-0') and not any(body == sc.open_body('valid', hold=hh) for hh in (9, 30, 90)):
                raise Violation('established:after-unacceptable-open', body.hex())
            if 4 not in types[first_open + 1 :]:
                raise Violation('established:no-keepalive-after-open', f'remote sent types {types}')
            if types[:first_open]:
                raise Violation('established:message-before-open-ignored', f'remote sent types {types}')
    # (3) what is written in which state
    for w in out['wire']:
        mtype = w['data'][18]
        state = w['fsm']
        if mtype in (2, 5) and state != 'ESTABLISHED':
            raise Violation(f'write:{ {2: "UPDATE", 5: "ROUTE-REFRESH"}[mtype] }-in-{state}', f'at {w["t"]:.2f}s {w["data"].hex()[:80]}')
        if mtype == 4 and state not in ('OPENCONFIRM', 'ESTABLISHED', 'OPENSENT'):
            raise Violation(f'write:KEEPALIVE-in-{state}', f'at {w["t"]:.2f}s')
    # (4) leaving a connected state closes the transport
    for t, key, frm, to, conn in fsm:
        if frm in CONNECTED and to in ('IDLE', 'ACTIVE') and conn is not None:
            r = remotes.get(conn)
            if r is None:
                continue
            if not r['io_closed']:
                raise Violation(f'close:transport-left-open-after-{frm}->{to}', f'at {t:.2f}s')
            if r['local_closed_at'] is None and r['closed_at'] is None:
                raise Violation('close:remote-never-saw-eof', f'{frm}->{to} at {t:.2f}s')
            if r['local_closed_at'] is None and r['closed_at'] is not None and r['closed_at'] > t + 1.0:
                raise Violation('close:eof-late', f'{r["closed_at"] - t:.2f}s after {frm}->{to}')
    # (4b) once exabgp has decided to end a session (it wrote, or tried to write, a NOTIFICATION) the session is over:
    #      the transport is closed and the FSM has left the connected state, whether or not the write succeeded
    for w in out['wire']:
        if w['data'][18] != 3 or w['t'] > out['end'] - 1.0:
            continue
        r = remotes.get(w['conn'])
        if r is not None and not r['io_closed']:
            raise Violation('close:transport-open-after-notification', f'NOTIFICATION attempted at {w["t"]:.2f}s in {w["fsm"]}, transport still open at {out["end"]:.2f}s')
        left = [1 for t, key, frm, to, conn in fsm if t >= w['t'] - 1e-9 and conn == w['conn'] and frm in CONNECTED | {'CONNECT', 'ACTIVE'} and to == 'IDLE']
        if not left and w['fsm'] in CONNECTED:
            raise Violation('close:state-kept-after-notification', f'NOTIFICATION attempted at {w["t"]:.2f}s in {w["fsm"]}, no transition to IDLE follows')
    for state, has_proto in out['final']:
        if state in ('IDLE',) and has_proto and False:
            raise Violation('close:proto-kept-in-idle', '')
    # (5) API: every up is followed by a down before the next up
    up = False
    states = []
    for t, line in out['api']:
        try:
            doc = json.loads(line)
        except ValueError:
            continue
        if doc.get('type') == 'state':
            s = doc['neighbor'].get('state')
            states.append(s)
            if s == 'up':
                if up:
                    raise Violation('api:up-twice-without-down', str(states[-6:]))
                up = True
            elif s == 'down':
                up = False
    n_est = sum(1 for _, _, f, to, _ in fsm if to == 'ESTABLISHED' and f != 'ESTABLISHED')
    if states.count('up') > n_est:
        raise Violation('api:up-without-established', f'{states.count("up")} up events, {n_est} ESTABLISHED entries')

    faulty = any(o[0] in ('fault', 'notif', 'eof', 'rst', 'halfclose', 'teardown') or (o[0] == 'open' and o[1] in sc.OPEN_FAULTS) for o in case['ops'])
    second = len(out['remotes']) >= 2
    nontrivial = bool(reached & CONNECTED) and (faulty or second)
    classes = [f'reached:{s}' for s in sorted(reached)]
    if second:
        classes.append('several-transports')
    if case['passive']:
        classes.append('passive')
    if case.get('gr'):
        classes.append('graceful-restart-negotiable')
    if any(r['kind'] == 'incoming' for r in out['remotes']):
        classes.append('incoming-connection')
    if any(r.get('denied') for r in out['remotes']):
        classes.append('incoming-denied')
    if n_est >= 2:
        classes.append('re-established')
    return {'nontrivial': nontrivial, 'classes': classes}


ENGINES = [Engine('schedules', cases, check, quick=700, thorough=12000, batch=100, thorough_s=1200.0, fixed_cases=fixed_cases)]


# ---------------------------------------------------------------------------- dynamic peers: a neighbor defined as an address range


RANGE_ADDRS = ['127.0.5.7', '127.0.5.9']


def range_config(hold: int) -> str:
    return (
        nh.process_section()
        + 'neighbor 127.0.5.0/24 {\n  router-id 10.0.0.5;\n  local-address 127.0.0.1;\n  local-as 65000;\n  peer-as 65001;\n'
        + f'  hold-time {hold};\n  passive true;\n  capability {{\n    asn4 enable;\n    route-refresh enable;\n  }}\n  family {{\n    ipv4 unicast;\n  }}\n'
        + nh.api_section(changes=True)
        + '\n  static {\n    route 30.0.0.0/24 next-hop 1.2.3.4;\n  }\n}\n'
    )


@st.composite
def range_cases(draw):
    ops = [['connect', 0], ['handshake', 0]]
    n = 1
    for _ in range(draw(st.integers(1, 8))):
        kind = draw(st.sampled_from(['connect', 'connect', 'handshake', 'open', 'wait', 'wait', 'close', 'ka']))
        if kind == 'connect':
            ops.append(['connect', draw(st.sampled_from([0, 0, 1]))])
            n += 1
        elif kind == 'wait':
            ops.append(['wait', draw(st.sampled_from([0.0, 0.1, 1.0, 3.0]))])
        else:
            ops.append([kind, draw(st.integers(0, n - 1))])
    return {'kind': 'range', 'hold': draw(st.sampled_from([30, 9])), 'settle': draw(st.sampled_from([0.0, 0.0, 1.5])), 'ops': ops}


def check_range(case: dict) -> dict:
    out: dict = {}

    async def main(loop):
        with nh.Harness(loop, config_text=range_config(case['hold']), env={'bgp.openwait': 8, 'bgp.passive': True}) as hn:
            if not hn.reload_ok:
                raise RuntimeError(f'configuration refused: {hn.reactor.configuration.error}')
            hn.start()
            await hn.sleep(0.2)
            conns: list = []
            for o in case['ops']:
                if o[0] == 'connect':
                    conns.append((RANGE_ADDRS[o[1]], hn.connect_from(RANGE_ADDRS[o[1]])))
                    await hn.sleep(0.3)
                elif o[0] == 'wait':
                    await hn.sleep(o[1])
                else:
                    addr, r = conns[o[1]]
                    if r.closed_at is not None or r.local_closed_at is not None:
                        continue
                    if o[0] == 'handshake':
                        await nh.establish(r, sc.open_body('valid'), timeout=3.0)
                        await hn.sleep(case['settle'])
                    elif o[0] == 'open':
                        await r.send_msg(codec.OPEN, sc.open_body('valid'))
                        await hn.sleep(0.3)
                    elif o[0] == 'ka':
                        await r.send_msg(codec.KEEPALIVE)
                        await hn.sleep(0.1)
                    elif o[0] == 'close':
                        r.close()
                        await hn.sleep(0.5)
            await hn.sleep(1.5)
            hn.api_read()
            out['fsm'] = list(hn.fsm_log)
            out['api'] = list(hn.api_lines)
            out['end'] = loop.time()
            out['conns'] = [
                {'addr': addr, 'messages': [(t, ty) for t, ty, _ in r.messages], 'closed_at': r.closed_at if r.closed_at is not None else r.local_closed_at, 'sent': [(t, d) for t, d in r.sent]}
                for addr, r in conns
            ]

    try:
        vloop.run(main)
    except vloop.Deadlock as exc:
        raise Violation('reactor:stalls', str(exc)) from None

    for t, key, frm, to, conn in out['fsm']:
        if to not in ALLOWED[frm]:
            raise Violation(f'transition:{frm}->{to}', f'dynamic peer {key} at {t:.2f}s')
    # a session is live on a transport from the moment exabgp wrote an UPDATE or a second KEEPALIVE there (it is in
    # ESTABLISHED) until the transport closes: one remote address never has two such sessions at once (RFC 4271 6.8)
    live = []
    for c in out['conns']:
        kas = [t for t, ty in c['messages'] if ty == 4]
        upd = [t for t, ty in c['messages'] if ty == 2]
        start = min(upd + kas[1:]) if (upd or len(kas) > 1) else None
        if start is not None:
            live.append((c['addr'], start, c['closed_at'] if c['closed_at'] is not None else out['end'] + 1))
    for i, (a, s1, e1) in enumerate(live):
        for b, s2, e2 in live[i + 1 :]:
            if a == b and max(s1, s2) < min(e1, e2) - 0.5:
                raise Violation('dynamic:two-established-sessions-for-one-address', f'{a}: sessions live over [{s1:.2f},{e1:.2f}] and [{s2:.2f},{e2:.2f}]; ops {case["ops"]}')
    # API: for every remote address an up is followed by a down before the next up
    up: dict = {}
    for t, line in out['api']:
        try:
            doc = json.loads(line)
        except ValueError:
            continue
        if doc.get('type') == 'state':
            addr = doc['neighbor']['address']['peer']
            state = doc['neighbor'].get('state')
            if state == 'up':
                if up.get(addr):
                    raise Violation('api:up-twice-without-down', f'{addr}; ops {case["ops"]}')
                up[addr] = True
            elif state == 'down':
                up[addr] = False
    n_live = len(live)
    second = any(a == b for i, (a, _, _) in enumerate(live) for b, _, _ in live[i + 1 :]) or sum(1 for c in out['conns'] if c['addr'] == RANGE_ADDRS[0]) >= 2
    classes = ['dynamic-peer', f'sessions-established:{min(n_live, 3)}']
    if second:
        classes.append('second-connection-from-the-same-address')
    if len({c['addr'] for c in out['conns']}) >= 2:
        classes.append('two-remote-addresses')
    return {'nontrivial': n_live >= 1 and second, 'classes': classes}


def range_fixed() -> list:
    return [
        {'kind': 'range', 'hold': 30, 'settle': 1.5, 'ops': [['connect', 0], ['handshake', 0], ['wait', 1.0], ['connect', 0], ['handshake', 1]]},
        {'kind': 'range', 'hold': 30, 'settle': 1.5, 'ops': [['connect', 0], ['handshake', 0], ['wait', 1.0], ['connect', 0], ['open', 1], ['wait', 3.0]]},
        {'kind': 'range', 'hold': 30, 'settle': 0.0, 'ops': [['connect', 0], ['handshake', 0], ['connect', 1], ['handshake', 1], ['connect', 0], ['handshake', 2]]},
        {'kind': 'range', 'hold': 9, 'settle': 1.5, 'ops': [['connect', 0], ['handshake', 0], ['close', 0], ['connect', 0], ['handshake', 1]]},
        # two remote addresses of the range, then a second connection from the second address (met in the thorough tier: every peer
        # created from the range shared one session object, so the first peer and the range itself took the second peer's address)
        {'kind': 'range', 'hold': 30, 'settle': 0.0, 'ops': [['connect', 0], ['handshake', 0], ['connect', 1], ['handshake', 1], ['connect', 1], ['handshake', 2]]},
        {'kind': 'range', 'hold': 30, 'settle': 1.5, 'ops': [['connect', 1], ['handshake', 0], ['connect', 0], ['handshake', 1], ['wait', 1.0], ['connect', 0], ['handshake', 2], ['connect', 1], ['handshake', 3]]},
        {'kind': 'range', 'hold': 30, 'settle': 0.0, 'ops': [['connect', 0], ['handshake', 0], ['open', 0], ['connect', 0], ['wait', 0.0], ['connect', 1], ['handshake', 2], ['wait', 0.0], ['handshake', 1]]},
    ]


ENGINES.append(Engine('dynamic-peers', range_cases, check_range, quick=60, thorough=4000, batch=100, fixed_cases=range_fixed, thorough_s=900.0))
