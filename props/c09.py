"""C09 - generated UPDATEs fit the negotiated size and lose nothing

Development aid: VERIF_C09_KNOWN="pattern,pattern" (fnmatch on signatures) turns matching violations into
`tolerated:<signature>` classes so that the search goes on behind findings which are not yet listed in
known_findings.json.  Registered commands never set it.
"""

from __future__ import annotations

import fnmatch
import os

from vlib import c09_model as model
from vlib import exa, textgen
from vlib.refwire import build, codec
from vlib.runner import Engine, Violation, innermost_repo_frame

PROPERTY = 'C09'
RULE = (
    'UpdateCollection(announces, withdraws, attributes) built from objects the real text parser returned, on a Negotiated made from two OPENs '
    '(extended message by both / one / no side -> 4096 or 65535, ADD-PATH, ASN4 or not, iBGP/eBGP, peer family subsets); '
    'attribute block steered to small / one attribute value at 252-264 octets (extended-length switch) / block of 250-260 / '
    'msg_size-23-k for k in -2..60 / anywhere, by as-path, community, large-community counts and an exact generic filler; '
    '0-1500 announces and withdraws over IPv4 unicast, IPv6 unicast, IPv4 labeled, IPv4 VPN with mask mixes, label stacks of 1-2, '
    'several next hops per MP family, include_withdraw both; plus an enumerated sweep of the room left (-2..48 octets) x family x 4 shapes. '
    'Every message is size-checked and decoded alone by refwire; the union is compared with the request. '
    'Non-trivial = >= 2 messages, or attribute block in [250,260], or block within 64 octets of the limit'
)
ASSUMPTIONS = [
    'refwire decoder trusted; the attribute expectation comes from vlib/textgen.py, the attribute block length from vlib/c09_model.attr_parts',
    'a route fits when 19+2+2+len(attribute block as ExaBGP packs it)+its single NLRI (or its single-NLRI MP_REACH_NLRI) <= negotiated size; only fitting routes are demanded',
    'a withdrawal always fits (it needs no attribute): every requested withdrawal of a negotiated family is demanded when include_withdraw',
    'all IPv4 unicast announces of one collection share the next hop of the attribute set (production groups routes by attributes + next hop); MP families mix next hops',
    'not demanded: optimal packing, absence of duplicates with identical content, order, a redundant NEXT_HOP beside MP_REACH_NLRI, which label a withdraw carries',
    'an UPDATE that carries attributes and no route is tolerated (class empty-update) unless it reads as an End-of-RIB marker',
    'an exception out of messages() is a violation only when a fitting route or a withdrawal is lost with it',
]

TOLERATED = [p for p in os.environ.get('VERIF_C09_KNOWN', '').split(',') if p]

FAMILY_TEXT = {(1, 1): 'ipv4 unicast', (2, 1): 'ipv6 unicast', (1, 4): 'ipv4 nlri-mpls', (1, 128): 'ipv4 mpls-vpn'}
_NEIGHBORS: dict = {}


def neighbor_for(session: dict):
    extnh = bool(session.get('extnh'))
    key = (session['ext_ours'], session['addpath'], session['ibgp'], extnh)
    if key not in _NEIGHBORS:
        fams = [FAMILY_TEXT[f] for f in model.FAMILIES]
        if extnh:
            # exabgp offers RFC 8950 for a family only when its IPv6 twin is configured too
            fams += ['ipv6 nlri-mpls', 'ipv6 mpls-vpn']
        text = exa.neighbor_text(
            peer_ip=f'127.0.9.{1 + len(_NEIGHBORS)}',
            local_as=model.LOCAL_AS,
            peer_as=model.LOCAL_AS if session['ibgp'] else model.PEER_AS_EBGP,
            families=fams,
            capability={
                'asn4': 'enable',
                'add-path': 'send/receive' if session['addpath'] else 'disable',
                'extended-message': 'enable' if session['ext_ours'] else 'disable',
                'nexthop': 'enable' if extnh else 'disable',
            },
            addpath_families=[FAMILY_TEXT[f] for f in model.FAMILIES] if session['addpath'] else None,
            nexthop=['ipv4 nlri-mpls ipv6', 'ipv4 mpls-vpn ipv6'] if extnh else None,
        )
        try:
            _NEIGHBORS[key] = exa.neighbor_from_text(text)
        except exa.ConfigError as exc:
            raise RuntimeError(f'harness: neighbor configuration refused: {exc}\n{text}') from None
    return _NEIGHBORS[key]


def peer_open(session: dict) -> bytes:
    fams = [tuple(f) for f in session['families']]
    caps = [build.cap_mp(a, s) for a, s in fams]
    peer_as = model.LOCAL_AS if session['ibgp'] else model.PEER_AS_EBGP
    if session['asn4']:
        caps.append(build.cap_asn4(peer_as))
    if session['addpath']:
        caps.append(build.cap_addpath([(a, s, 3) for a, s in fams]))
    if session['ext_peer']:
        caps.append(build.cap_ext_msg())
    if session.get('extnh'):
        caps.append(build.cap_ext_nh([(a, s, 2) for a, s in fams if (a, s) in ((1, 4), (1, 128))]))
    return build.open_with_caps(peer_as, 90, 0x0A000002, caps)


def parse_one(conf, neighbor, text: str):
    try:
        routes = conf.parse_route_text(text)
        if len(routes) != 1:
            raise ValueError(f'{len(routes)} routes')
        return neighbor.resolve_self(routes[0])
    except Exception as exc:  # noqa: BLE001 - what the parser takes is C18's subject, the generator must stay inside it
        raise RuntimeError(f'harness: the parser did not take "{text[:200]}": {exc!r}') from None


# ---------------------------------------------------------------------------- decoding with a per-case attribute cache


class Decoder:
    """refwire decode of one UPDATE; in large messages the value of a large attribute is decoded once per case
    (same functions as codec.decode_update, which is run as is on small messages and on the first large ones)"""

    def __init__(self, asn4: bool, addpath) -> None:
        self.asn4 = asn4
        self.addpath = addpath
        self.memo: dict = {}
        self.direct = 0

    def decode(self, body: bytes) -> dict:
        if len(body) <= 1024:
            return codec.decode_update(body, self.asn4, self.addpath)
        if self.direct < 3:
            # the first large messages of a case go through codec.decode_update as is and through the cached path
            self.direct += 1
            plain = codec.decode_update(body, self.asn4, self.addpath)
            if plain != self._cached(body):
                raise RuntimeError('harness: cached decode differs from codec.decode_update')
            return plain
        return self._cached(body)

    def _cached(self, body: bytes) -> dict:
        r = codec.Reader(body)
        withdrawn_raw = r.take(r.u16())
        attr_raw = r.take(r.u16())
        nlri_raw = r.rest()
        attrs_list = codec.split_attributes(attr_raw)
        attrs: dict = {}
        flags: dict = {}
        order = []
        for fl, code, value in attrs_list:
            order.append(code)
            if code in attrs:
                continue
            if code in (14, 15) or len(value) < 64:
                attrs[code] = codec.decode_attribute(code, value, self.asn4, self.addpath)
            else:
                k = (code, value)
                if k not in self.memo:
                    self.memo[k] = codec.decode_attribute(code, value, self.asn4, self.addpath)
                attrs[code] = self.memo[k]
            flags[code] = fl
        ap = self.addpath(1, 1)
        return {
            'withdrawn': codec.decode_nlri(withdrawn_raw, 1, 1, ap, withdraw=True),
            'nlri': codec.decode_nlri(nlri_raw, 1, 1, ap),
            'attrs': attrs,
            'flags': flags,
            'order': order,
            'raw_attrs': attrs_list,
        }


def run_messages(neg, attributes, ann: list, wd: list, include_withdraw: bool):
    from exabgp.bgp.message.update.collection import RoutedNLRI, UpdateCollection

    out: list[bytes] = []
    exc = None
    try:
        coll = UpdateCollection([RoutedNLRI(o.nlri, o.nexthop) for _, o in ann], [o.nlri for _, o in wd], attributes)
        for m in coll.messages(neg, include_withdraw):
            out.append(bytes(m))
    except Exception as e:  # noqa: BLE001
        exc = e
    return out, exc


def delivered(msgs: list[bytes], dec: Decoder) -> tuple[set, set]:
    """keys announced / withdrawn by the decodable messages (used by the diagnosis reruns)"""
    seen_a: set = set()
    seen_w: set = set()
    for m in msgs:
        try:
            u = dec.decode(m[19:])
        except codec.Malformed:
            continue
        for e in u['nlri']:
            seen_a.add(model.wire_key(e))
        for e in u['attrs'].get(14, {}).get('nlri', []):
            seen_a.add(model.wire_key(e))
        for e in u['withdrawn']:
            seen_w.add(model.wire_key(e))
        for e in u['attrs'].get(15, {}).get('nlri', []):
            seen_w.add(model.wire_key(e))
    return seen_a, seen_w


# ---------------------------------------------------------------------------- the check


def check(case: dict) -> dict:
    exa.reset_global_state()
    session = case['session']
    a = case['attrs']
    include_withdraw = case['include_withdraw']
    msg_size = model.msg_size_of(session)
    neg_fams = model.negotiated_families(session)
    asn4 = session['asn4']
    addpath_on = session['addpath']
    peer_as = model.LOCAL_AS if session['ibgp'] else model.PEER_AS_EBGP

    classes: list[str] = []

    def flag(signature: str, message: str) -> None:
        if any(fnmatch.fnmatchcase(signature, p) for p in TOLERATED):
            classes.append(f'tolerated:{signature}')
            return
        raise Violation(signature, message)

    conf, neighbor = neighbor_for(session)
    neg = exa.negotiate(neighbor, peer_open(session), exa.Direction.IN)  # the daemon makes its one Negotiated per session with Direction.IN (reactor/protocol.py) and encodes with it
    if neg.msg_size != msg_size or bool(neg.asn4) != asn4 or sorted((int(x), int(y)) for x, y in neg.families) != sorted(neg_fams):
        raise RuntimeError(f'harness: negotiation differs from the session model (C07 decides that): {neg.msg_size} {neg.asn4} {neg.families} for {session}')

    def ap(afi: int, safi: int) -> bool:
        return addpath_on and (afi, safi) in neg_fams

    # ---- the request: real objects from the real parser
    tg = model.attr_textgen(a)
    attr_text = textgen.attributes_text(tg)
    if a['source'] == 'v4':
        carrier = f'route 203.0.113.0/24 next-hop {model.NH4[a["nh4"]]} {attr_text}'
    else:
        carrier = f'route 2001:db8:aaaa::/64 next-hop {model.NH6[0]} {attr_text}'
    attributes = parse_one(conf, neighbor, carrier).attributes
    ann_recs, wd_recs = model.expand(case)
    ann = [(r, parse_one(conf, neighbor, r['text'])) for r in ann_recs]
    wd = [(r, parse_one(conf, neighbor, r['text'])) for r in wd_recs]

    l_ref = model.attr_len(a, session)
    exp_ann = {model.route_key(r): r for r, _ in ann if (r['afi'], r['safi']) in neg_fams}
    exp_wd = {model.route_key(r): r for r, _ in wd if (r['afi'], r['safi']) in neg_fams} if include_withdraw else {}

    msgs, exc = run_messages(neg, attributes, ann, wd, include_withdraw)

    # ---- every message on its own
    dec = Decoder(asn4, ap)
    seen_ann: dict = {}
    seen_wd: set = set()
    attr_verdict: dict = {}
    l_wire = None
    oversized = False
    mp_extended = False
    at_limit = False
    empty_updates = 0
    exp_attrs = textgen.expected_attrs({'attrs': tg}, model.LOCAL_AS, peer_as, asn4)
    exp_attrs[2] = codec.normalise_path(exp_attrs[2])
    if 17 in exp_attrs:
        exp_attrs[17] = codec.normalise_path(exp_attrs[17])
    want_nh4 = model.NH4[a['nh4']] if a['source'] == 'v4' else None

    for m in msgs:
        kinds = []
        if m[:16] != codec.MARKER or m[18] != 2:
            flag('frame:marker-or-type', m[:19].hex())
            continue
        if int.from_bytes(m[16:18], 'big') != len(m):
            flag('frame:length-field', f'header says {int.from_bytes(m[16:18], "big")}, message is {len(m)} octets')
            continue
        try:
            u = dec.decode(m[19:])
        except codec.Malformed as err:
            flag('decode:undecodable', f'{err}: {m[:80].hex()}... ({len(m)} octets)')
            continue
        mp_r = u['attrs'].get(14)
        mp_u = u['attrs'].get(15)
        if u['nlri']:
            kinds.append('v4')
        if u['withdrawn']:
            kinds.append('v4-withdraw')
        if mp_r is not None:
            kinds.append('mp_reach')
        if mp_u is not None:
            kinds.append('mp_unreach')
        if len(m) > msg_size:
            oversized = True
            # sections are filled in the order IPv4 NLRI, IPv4 withdrawn, MP_REACH, MP_UNREACH: the last one present overflowed.
            # One lone NLRI in it = an NLRI carried over after a flush without asking whether it fits on its own;
            # several = the budget arithmetic itself is wrong
            last, count = 'empty', 0
            for name, entries in (('v4', u['nlri']), ('v4-withdraw', u['withdrawn']), ('mp_reach', (mp_r or {}).get('nlri', [])), ('mp_unreach', (mp_u or {}).get('nlri', []))):
                if entries:
                    last, count = name, len(entries)
            kind = 'lone-nlri-carried-over' if count == 1 else 'budget'
            flag(f'size:oversized:{kind}:{last}', f'{len(m)} octets > negotiated {msg_size} ({"+".join(kinds)}; {count} NLRI in the {last} section)')
        at_limit = at_limit or len(m) == msg_size
        if len(u['order']) != len(set(u['order'])):
            flag('attrs:duplicate-attribute', f'{u["order"]}')
        for fl, code, value in u['raw_attrs']:
            if code in (14, 15) and len(value) > 255:
                mp_extended = True
        if codec.is_eor(m[19:]):
            flag('extra:end-of-rib', f'End-of-RIB for {codec.is_eor(m[19:])} was never requested: {m[19:].hex()}')
            continue
        announced = [(e, u['attrs'].get(3)) for e in u['nlri']]
        if mp_r is not None:
            if 'nlri' not in mp_r:
                flag('extra:mp-family-unknown', f'{mp_r["afi"]}/{mp_r["safi"]}')
            else:
                if len(mp_r['nexthop']) != 1:
                    flag('nexthop:mp-count', f'{mp_r["nexthop"]}')
                announced += [(e, mp_r['nexthop'][0]) for e in mp_r['nlri']]
                if not mp_r['nlri']:
                    flag('extra:empty-mp-reach', m[19:80].hex())
        withdrawn = list(u['withdrawn']) + (list(mp_u.get('nlri', [])) if mp_u is not None else [])
        if not announced and not withdrawn:
            empty_updates += 1
        for e in withdrawn:
            k = model.wire_key(e)
            if k not in exp_wd:
                why = 'include_withdraw is False' if not include_withdraw else 'never requested / family not negotiated'
                flag('extra:withdraw-not-requested', f'{k}: {why}')
            seen_wd.add(k)
        if not announced:
            continue
        # -- attributes (decoded and compared once per distinct block)
        raw_block = b''.join(bytes([fl, code]) + value for fl, code, value in u['raw_attrs'] if code not in (14, 15))
        block_len = sum(2 + (2 if fl & 0x10 else 1) + len(value) for fl, code, value in u['raw_attrs'] if code not in (14, 15))
        if l_wire is None:
            l_wire = block_len
        if raw_block not in attr_verdict:
            attr_verdict[raw_block] = compare_attrs(u, exp_attrs)
        if attr_verdict[raw_block]:
            flag(*attr_verdict[raw_block])
        if u['nlri'] and u['attrs'].get(3) is None:
            flag('nexthop:missing-NEXT_HOP', 'IPv4 NLRI without NEXT_HOP')
        if 3 in u['attrs'] and want_nh4 is not None and u['attrs'][3] != want_nh4:
            flag('nexthop:NEXT_HOP-value', f'{u["attrs"][3]} expected {want_nh4}')
        if 3 in u['attrs'] and want_nh4 is None:
            flag('attrs:3:invented', f'NEXT_HOP {u["attrs"][3]} with an attribute set that has none')
        for e, nh in announced:
            k = model.wire_key(e)
            rec = exp_ann.get(k)
            if rec is None:
                flag('extra:announce-not-requested', f'{k}')
                continue
            if nh != rec['nexthop']:
                flag(f'nexthop:not-its-own:{"v4" if (rec["afi"], rec["safi"]) == (1, 1) else "mp"}', f'{k} announced with {nh}, requested {rec["nexthop"]}')
            if 'labels' in rec and (list(e.get('labels', [])) != rec['labels'] or not e.get('bos')):
                flag('announce:labels', f'{k}: wire {e.get("labels")} bos={e.get("bos")} requested {rec["labels"]}')
            seen_ann[k] = seen_ann.get(k, 0) + 1

    # ---- the union
    l_used = l_wire if l_wire is not None else l_ref
    if l_wire is not None and l_wire != l_ref:
        classes.append('attr-length-model-differs')
    room = msg_size - model.UPDATE_FIXED - l_used
    fit = {k: model.single_announce_size(r, l_used) <= msg_size for k, r in exp_ann.items()}
    for k in seen_ann:
        if not fit[k] and not oversized:
            # cannot happen without an oversized message; kept as a guard on the reference arithmetic
            raise RuntimeError(f'harness: {k} was announced in messages all <= {msg_size} but the reference says it cannot fit (attrs {l_used})')
    lost_ann = [k for k in exp_ann if fit[k] and k not in seen_ann]
    lost_wd = [k for k in exp_wd if k not in seen_wd]
    unframeable = exc is not None and type(exc).__name__ == 'error' and (innermost_repo_frame(exc) or '').endswith('message.py:_message')
    if unframeable:
        # a message of more than 65535 octets was assembled and could not even be framed: the oversized message in its
        # msg_size 65535 form; whatever is lost behind it is its consequence
        flag('size:oversized:beyond-65535', f'{exc!r} after {len(msgs)} messages, room {room} octets after attributes of {l_used}; {len(lost_ann)} announces and {len(lost_wd)} withdrawals lost behind it')
    elif lost_ann or lost_wd:
        cause = diagnose(neg, attributes, ann, wd, include_withdraw, neg_fams, fit, room, Decoder(asn4, ap))
        how = type(exc).__name__ if exc is not None else 'silent'
        where = f' at {innermost_repo_frame(exc)}' if exc is not None else ''
        flag(
            f'loss:{cause}:{how}',
            f'{len(lost_ann)} fitting announces and {len(lost_wd)} withdrawals missing (first {(lost_ann + lost_wd)[0]}), '
            f'{len(msgs)} messages, room {room} octets after attributes of {l_used}, {how}{where}: {exc!r}',
        )
    elif exc is not None:
        classes.append('exception-without-loss')

    # ---- the receiving peer's table (independent application order check)
    if sum(len(m) for m in msgs) <= 400000 and not any(c.startswith(('tolerated:decode', 'tolerated:frame')) for c in classes):
        table = codec.PeerTable(asn4, ap)
        for m in msgs:
            table.apply(m[19:])
        final = {(k[0], k[1], k[2], k[3], k[5]) for k in table.table}
        if final != set(seen_ann):
            flag('final-state:differs', f'table has {len(final)} routes, announces seen {len(seen_ann)}')
        for k, entry in table.table.items():
            rec = exp_ann.get((k[0], k[1], k[2], k[3], k[5]))
            if rec is not None and entry['nexthop'] != rec['nexthop']:
                flag('final-state:nexthop', f'{k}: {entry["nexthop"]} vs {rec["nexthop"]}')

    # ---- bookkeeping
    n = len(msgs)
    nontrivial = n >= 2 or 250 <= l_used <= 260 or room <= 64
    classes.append(f'msg_size:{msg_size}')
    classes.append(f'mode:{a["mode"]}')
    classes.append('messages:' + ('0' if n == 0 else '1' if n == 1 else '2-9' if n < 10 else '10-99' if n < 100 else '100+'))
    if n >= 2:
        classes.append('multi-message')
    if room <= 64:
        classes.append('near-limit')
        classes.append('room:' + ('<=0' if room <= 0 else '1-16' if room <= 16 else '17-40' if room <= 40 else '41-64'))
    if 250 <= l_used <= 260:
        classes.append('attr-block-250-260')
    parts = model.attr_parts(a, session)
    if any(251 <= v <= 262 for v in parts.values()):
        classes.append('attribute-at-extended-length-switch')
    if any(v > 258 for v in parts.values()):
        classes.append('attribute-extended-length')
    if mp_extended:
        classes.append('mp-attribute-extended-length')
    if at_limit:
        classes.append('message-exactly-at-limit')
    if empty_updates:
        classes.append('empty-update')
    for f in sorted({(r['afi'], r['safi']) for r in exp_ann.values()}):
        classes.append(f'announce:{f[0]}/{f[1]}')
    for f in sorted({(r['afi'], r['safi']) for r in exp_wd.values()}):
        classes.append(f'withdraw:{f[0]}/{f[1]}')
    if exp_wd:
        classes.append('withdraws')
    if wd and not include_withdraw:
        classes.append('include_withdraw:false')
    if len({(r['afi'], r['safi']) for r in list(exp_ann.values()) + list(exp_wd.values())}) >= 2:
        classes.append('families-mixed')
    if len({r['nexthop'] for r in exp_ann.values() if (r['afi'], r['safi']) != (1, 1)}) >= 2:
        classes.append('mp-several-nexthops')
    if any(len({':' in r['nexthop'] for r in exp_ann.values() if (r['afi'], r['safi']) == f}) == 2 for f in ((1, 4), (1, 128))):
        classes.append('rfc8950:next-hops-of-two-lengths-in-one-family')
    if any(not v for v in fit.values()):
        classes.append('unfit-routes-requested')
    if any((r['afi'], r['safi']) not in neg_fams for r, _ in ann + wd):
        classes.append('non-negotiated-family-requested')
    if any(c > 1 for c in seen_ann.values()):
        classes.append('duplicates-tolerated')
    if addpath_on:
        classes.append('addpath')
    if not asn4:
        classes.append('asn2' + ('+as4_path' if 17 in parts else ''))
    total = len(exp_ann) + len(exp_wd)
    classes.append('routes:' + ('0' if total == 0 else '1-9' if total < 10 else '10-99' if total < 100 else '100-499' if total < 500 else '500+'))
    sample = {'session': session, 'attrs': a, 'announces': case['announces'], 'withdraws': case['withdraws'], 'messages': [len(m) for m in msgs[:12]], 'attr_block': l_used}
    return {'nontrivial': nontrivial, 'classes': sorted(set(classes)), 'sample': sample}


def compare_attrs(u: dict, exp: dict):
    got = codec.PeerTable.attr_view(u['attrs'])
    got.pop(3, None)
    if 2 in got:
        got[2] = codec.normalise_path(got[2])
    if 17 in got:
        got[17] = codec.normalise_path(got[17])
    for code in sorted(set(exp) | set(got)):
        if code not in got:
            return (f'attrs:{code}:missing', f'expected {str(exp[code])[:120]}')
        if code not in exp:
            return (f'attrs:{code}:invented', f'wire has {str(got[code])[:120]}')
        g, w = got[code], exp[code]
        if isinstance(g, (list, tuple)):
            g, w = [tuple(x) if isinstance(x, (list, tuple)) else x for x in g], [tuple(x) if isinstance(x, (list, tuple)) else x for x in w]
        if g != w:
            return (f'attrs:{code}:value', f'wire {str(g)[:120]} expected {str(w)[:120]}')
    for code, fl in u['flags'].items():
        if code in codec.FLAGS:
            opt, trans = codec.FLAGS[code]
            if bool(fl & 0x80) != bool(opt) or bool(fl & 0x40) != bool(trans):
                return (f'attrs:{code}:flags', f'{fl:#x}')
    return None


def diagnose(neg, attributes, ann: list, wd: list, include_withdraw: bool, neg_fams: list, fit: dict, room: int, dec: Decoder) -> str:
    """name the root cause of a loss by re-running messages() on parts of the request"""

    def fam(r: dict) -> tuple:
        return (r['afi'], r['safi'])

    ann = [(r, o) for r, o in ann if fam(r) in neg_fams]
    wd = [(r, o) for r, o in wd if fam(r) in neg_fams] if include_withdraw else []

    def complete(a_part: list, w_part: list) -> bool:
        msgs, exc = run_messages(neg, attributes, a_part, w_part, include_withdraw)
        if exc is not None:
            return False
        sa, sw = delivered(msgs, dec)
        return all(model.route_key(r) in sa for r, _ in a_part if fit[model.route_key(r)]) and all(model.route_key(r) in sw for r, _ in w_part)

    fitting = [(r, o) for r, o in ann if fit[model.route_key(r)]]
    if len(fitting) != len(ann) and complete(fitting, wd):
        return 'route-that-cannot-fit-takes-others-with-it'
    ann = fitting
    # a withdrawal needs no attribute, yet it is budgeted in the room the attributes leave
    roomy = [(r, o) for r, o in wd if r['size'] + (0 if fam(r) == (1, 1) else 6) <= room]
    if len(roomy) != len(wd) and complete(ann, roomy):
        return 'withdrawals-need-room-after-attributes'
    wd = roomy
    v4a = [(r, o) for r, o in ann if fam(r) == (1, 1)]
    v4w = [(r, o) for r, o in wd if fam(r) == (1, 1)]
    mpa = [(r, o) for r, o in ann if fam(r) != (1, 1)]
    mpw = [(r, o) for r, o in wd if fam(r) != (1, 1)]
    if (v4a or v4w) and (mpa or mpw) and complete(v4a, v4w) and complete(mpa, mpw):
        return 'ipv4-leftover-eats-the-mp-budget'
    if not complete(v4a, v4w):
        return 'ipv4-unicast-alone'
    families = sorted({fam(r) for r, _ in mpa + mpw})
    for f in families:
        fa = [(r, o) for r, o in mpa if fam(r) == f]
        fw = [(r, o) for r, o in mpw if fam(r) == f]
        if not complete(fa, fw):
            if fa and fw and complete(fa, []) and complete([], fw):
                return 'mp-reach-leaves-no-room-for-mp-unreach'
            if fa and not complete(fa, []):
                return 'mp-announce-alone'
            return 'mp-withdraw-alone'
    return 'between-mp-families'


QUICK_SHARDS = 4
ENGINES = [Engine('collections', model.cases, check, quick=300, thorough=4000, batch=60, fixed_cases=model.fixed_cases)]
