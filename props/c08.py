"""C08 - malformed attributes never yield announced routes (RFC 7606)"""

from __future__ import annotations

import collections
import fnmatch
import ipaddress
import json
import os
import struct

from hypothesis import strategies as st

from props import c02
from vlib import c08_ref as ref
from vlib import exa
from vlib.refwire import build
from vlib.refwire import strategies as ws
from vlib.runner import Engine, Violation, exception_signature

PROPERTY = 'C08'
RULE = (
    'a well-formed announcing UPDATE (IPv4 NLRI field and/or MP_REACH) with exactly one corruption of one attribute. Enumerated grid (5883 cases): 19 attribute types '
    '(ORIGIN, AS_PATH, NEXT_HOP, MED, LOCAL_PREF, ATOMIC_AGGREGATE, AGGREGATOR, COMMUNITIES, ORIGINATOR_ID, CLUSTER_LIST, MP_REACH, MP_UNREACH, EXTENDED_COMMUNITIES, AS4_PATH, '
    'AS4_AGGREGATOR, PMSI_TUNNEL, AIGP, LARGE_COMMUNITIES, one unknown optional transitive) all present in one base message x {value one byte short / one byte long / zero length, '
    'length field alone -1 / +1, declared length swallowing the rest of the block, declared length past the end of the block (+1, +200; and +1, +2 with the attribute moved last and whole), '
    'Optional bit flipped, Transitive bit flipped, both, extended-length bit without a 2-byte length, per-type invalid values (ORIGIN 3/255, segment type 0/5, segment count overrun / zero / 255, '
    'segment underrun, NEXT_HOP 3/5/16, community lengths off the multiple, AGGREGATOR of the other AS width, AIGP TLV lengths, MP next-hop length 0/5/+1, NLRI mask 200, MP header only), '
    'block cut inside the header / inside the value, duplicate (right after / at the end, other value)} x {IPv4 NLRI field, MP_REACH sorted, MP_REACH first, both} x 5 sessions '
    '(asn4 on/off x ADD-PATH on/off, one eBGP); plus a mandatory attribute swallowed whole by an unknown one, plus labelled-unicast NLRI shorter than a label. Hypothesis adds random C02 base '
    'messages (all IP families, permuted order, forced extended length), random targets and random parameters (cut position, overrun size, random value bytes, byte flips, length deltas). '
    'The routes are first announced well-formed; then the corrupted UPDATE goes through the real Protocol.read_message (fake connection, API sink) and, when it comes back as an UPDATE, '
    'the real UpdateHandler. Observers: JSON v6, JSON v4, Adj-RIB-In (routes re-stored / removed / untouched, and their attributes). '
    'Oracle: vlib/c08_ref.py, an independent RFC 7606 walk of the same bytes. Non-trivial = outer UPDATE framing still valid and the reference finds at least one fault'
)
ASSUMPTIONS = [
    'signatures name the clause, what the parser itself recorded (marked-withdraw / marked-discard / unmarked: read from the attribute collection only to bucket root causes, never for the verdict), '
    'the attribute, for unmarked cases the corruption kind, and what Adj-RIB-In did (rib-stored / rib-unchanged / rib-removed)',
    'vlib/c08_ref.py is the RFC 7606 reading: treat-as-withdraw for ORIGIN, AS_PATH, NEXT_HOP, MED, LOCAL_PREF, COMMUNITIES, ORIGINATOR_ID, CLUSTER_LIST, EXTENDED_COMMUNITIES, LARGE_COMMUNITIES '
    '(RFC 8092); attribute discard for ATOMIC_AGGREGATE, AGGREGATOR, AS4_PATH, AS4_AGGREGATOR (RFC 6793 6), AIGP (RFC 7311 3.2); session reset for a malformed or repeated MP_REACH / MP_UNREACH',
    'a reaction stronger than the RFC asks (withdraw instead of discard, reset instead of withdraw) is accepted; a session reset must carry error code 3 (UPDATE Message Error), any subcode',
    'where the RFC asks for a session reset (malformed / repeated MP_REACH or MP_UNREACH, unrecognised well-known attribute) treat-as-withdraw is accepted as equally safe for this property: nothing announced, '
    'every route of the message that can be located reported withdrawn and out of Adj-RIB-In (class rfc-asks-reset:withdrawn-instead). When no NLRI can be located at all (e.g. zero-length MP_REACH) this '
    'is satisfied by an UPDATE that announces and withdraws nothing: routes the peer announced earlier then stay (class earlier-routes-stay:no-locatable-nlri) - RFC 7606 7.11 resets for that reason, the property statement does not demand it',
    'framing errors of the attribute list (RFC 7606 4: declared length past the Total Attribute Length, fewer than 3/4 octets left): treat-as-withdraw and session reset are both accepted; under '
    'treat-as-withdraw only the NLRI that can be located (NLRI field, MP_REACH delimited before the error) must be reported withdrawn',
    'wrong Optional/Transitive bits: treat-as-withdraw for the treat-as-withdraw class (3.c); discard or withdraw for the discard class, PMSI_TUNNEL and AIGP; withdraw or reset for MP_REACH / MP_UNREACH whose content is readable',
    'PMSI_TUNNEL has no RFC 7606 class for IP routes: discard, withdraw and reset are all accepted; only a value shorter than its 5 fixed octets counts as malformed (the tunnel identifier is opaque here)',
    'LOCAL_PREF / ORIGINATOR_ID / CLUSTER_LIST from an external peer (7.5, 7.9, 7.10) and a malformed NEXT_HOP next to MP_REACH only: discard and withdraw both accepted',
    'an unknown attribute with the Optional bit clear is an unrecognised well-known attribute (RFC 4271 6.3, not revised by RFC 7606): session reset expected; when it shows up behind an '
    'earlier fault (a wrong length field shifts every boundary after it) treat-as-withdraw is taken too',
    'dropping the UPDATE as a whole (nothing on the API, nothing stored, nothing withdrawn) is tolerated only for a malformed attribute of the discard class (class outcome:ignored-whole-update)',
    'every attribute after the first of a repeated non-MP attribute is discarded (3.g), the first one must be the one reported',
    'LOCAL_PREF is not demanded as mandatory (the C02 generator of well-formed messages leaves it out); ORIGIN / AS_PATH (/ NEXT_HOP with an NLRI field) swallowed by an over-long neighbour make the UPDATE treat-as-withdraw (3.d)',
    'a corruption that leaves a well-formed UPDATE (e.g. COMMUNITIES swallowing whole attributes and still a multiple of 4) is counted trivial and not judged here (C02 territory)',
    'AFI/SAFI bytes of MP attributes turned into a family that was not negotiated are not judged (class unmodelled)',
]

KNOWN = [p for p in os.environ.get('VERIF_C08_KNOWN', '').split(',') if p]

F_EXT = 0x10

# ---------------------------------------------------------------------------- corruptions


def tlv_parts(tlv: bytes) -> tuple[int, int, int, bytes]:
    flags, code = tlv[0], tlv[1]
    head = 4 if flags & F_EXT else 3
    return flags, code, head, tlv[head:]


def encode(flags: int, code: int, value: bytes, declared: int | None = None) -> bytes:
    """TLV with the length form the flags ask for; widened only when the number does not fit one octet"""
    n = len(value) if declared is None else declared
    if n > 255:
        flags |= F_EXT
    if flags & F_EXT:
        return bytes([flags, code]) + struct.pack('!H', n) + value
    return bytes([flags, code, n]) + value


def base_tlvs(desc: dict) -> list[bytes]:
    return [build.attribute(a['flags'], a['code'], ws.attr_value_bytes(a, desc['session']), a.get('ext', False)) for a in desc['attrs']]


def corrupt(desc: dict, target: int, cor: dict) -> tuple[bytes, dict]:
    """apply one corruption; returns the UPDATE body and {'code','kind'}"""
    tlvs = base_tlvs(desc)
    t = tlvs[target]
    flags, code, head, value = tlv_parts(t)
    after = b''.join(tlvs[target + 1 :])
    kind = cor['kind']
    label = kind
    new: list[bytes]
    if kind == 'value':
        # consistent TLV around another value
        label = cor.get('name', 'value')
        new = tlvs[:target] + [encode(flags, code, bytes.fromhex(cor['hex']))] + tlvs[target + 1 :]
    elif kind == 'short':
        n = cor.get('n', 1)
        label = f'value-{n}'
        new = tlvs[:target] + [encode(flags, code, value[: max(0, len(value) - n)])] + tlvs[target + 1 :]
    elif kind == 'long':
        extra = bytes.fromhex(cor.get('hex', '00'))
        label = f'value+{len(extra)}'
        new = tlvs[:target] + [encode(flags, code, value + extra)] + tlvs[target + 1 :]
    elif kind == 'empty':
        label = 'zero-length'
        new = tlvs[:target] + [encode(flags, code, b'')] + tlvs[target + 1 :]
    elif kind == 'lenfield':
        # the length field alone: the value bytes stay, the walk of the block loses its step
        d = cor['delta']
        label = f'lenfield{d:+d}'
        new = tlvs[:target] + [encode(flags, code, value, max(0, len(value) + d))] + tlvs[target + 1 :]
    elif kind == 'swallow':
        # declared length reaches exactly the end of the block: framing stays valid, the followers become value
        label = 'overrun-to-end'
        new = tlvs[:target] + [encode(flags, code, value + after)]
    elif kind == 'overrun':
        k = cor.get('k', 1)
        if cor.get('last'):
            # the attribute goes to the end of the block (any order is legal), whole, and declares k octets more than the block holds
            label = 'overrun-as-last'
            new = tlvs[:target] + tlvs[target + 1 :] + [encode(flags, code, value, len(value) + k)]
        else:
            label = 'overrun-past-end'
            new = tlvs[:target] + [encode(flags, code, value + after, len(value) + len(after) + k)]
    elif kind == 'flags':
        mask = cor['mask']
        label = {0x80: 'flags-optional', 0x40: 'flags-transitive', 0xC0: 'flags-both'}.get(mask, f'flags-{mask:#x}')
        new = tlvs[:target] + [bytes([flags ^ mask]) + t[1:]] + tlvs[target + 1 :]
    elif kind == 'extlen':
        # extended-length bit flipped while the length field keeps its size
        label = 'extlen-inconsistent'
        new = tlvs[:target] + [bytes([flags ^ F_EXT]) + t[1:]] + tlvs[target + 1 :]
    elif kind == 'truncate':
        # the block ends inside this attribute (Total Attribute Length follows, the NLRI field stays where it is)
        p = cor['at']
        if p < 0:
            p = len(t) + p
        p = max(1, min(len(t) - 1, p))
        label = 'truncate-header' if p < head else 'truncate-value'
        new = tlvs[:target] + [t[:p]]
    elif kind == 'duplicate':
        second = t if 'hex' not in cor else encode(flags, code, bytes.fromhex(cor['hex']))
        label = 'duplicate-' + cor.get('where', 'after')
        if cor.get('where', 'after') == 'after':
            new = tlvs[: target + 1] + [second] + tlvs[target + 1 :]
        else:
            new = tlvs + [second]
    elif kind == 'flip':
        # one byte of the value xor-ed
        if not value:
            new = list(tlvs)
        else:
            i = cor['at'] % len(value)
            v = bytearray(value)
            v[i] ^= cor['xor'] or 1
            new = tlvs[:target] + [encode(flags, code, bytes(v))] + tlvs[target + 1 :]
        label = 'byte-flip'
    else:
        raise RuntimeError(f'unknown corruption {kind}')
    raw = dict(desc, attrs=[{'code': 0, 'raw': b''.join(new).hex()}])
    moved = kind == 'overrun' and cor.get('last')
    offset = sum(len(x) for x in (new[:-1] if moved else new[:target]))
    return ws.render_update(raw), {'code': code, 'kind': label, 'offset': offset}


# ---------------------------------------------------------------------------- the enumerated grid

GRID_SESSIONS = [
    {'asn4': True, 'families': [[1, 1], [2, 1]], 'addpath': [], 'peer_as': 65000},
    {'asn4': False, 'families': [[1, 1], [2, 1]], 'addpath': [], 'peer_as': 65000},
    {'asn4': True, 'families': [[1, 1], [2, 1]], 'addpath': [[1, 1], [2, 1]], 'peer_as': 65000},
    {'asn4': False, 'families': [[1, 1], [2, 1]], 'addpath': [[1, 1], [2, 1]], 'peer_as': 65000},
    {'asn4': True, 'families': [[1, 1], [2, 1]], 'addpath': [], 'peer_as': 65001},
]


def grid_base(session: dict, placement: str) -> dict:
    def ent(prefix: str, afi: int) -> dict:
        e: dict = {'prefix': prefix}
        if [afi, 1] in session['addpath']:
            e['path_id'] = 7
        return e

    asn4 = session['asn4']
    attrs: list[dict] = [
        {'code': 1, 'flags': 0x40, 'v': 1},
        {'code': 2, 'flags': 0x40, 'v': [[2, [65001, 70000 if asn4 else 23456]], [1, [64512, 64513]]]},
    ]
    if placement in ('v4', 'both'):
        attrs.append({'code': 3, 'flags': 0x40, 'v': '10.0.0.1'})
    attrs += [
        {'code': 4, 'flags': 0x80, 'v': 100},
        {'code': 5, 'flags': 0x40, 'v': 200},
        {'code': 6, 'flags': 0x40, 'v': True},
        {'code': 7, 'flags': 0xC0, 'v': [65001 if asn4 else 23456, '192.0.2.1']},
        {'code': 8, 'flags': 0xC0, 'v': [0x00010002, 0xFFFFFF01]},
        {'code': 9, 'flags': 0x80, 'v': '1.2.3.4'},
        {'code': 10, 'flags': 0x80, 'v': ['10.0.0.1', '192.0.2.1']},
    ]
    if placement in ('mp', 'mp-first', 'both'):
        attrs.append({'code': 14, 'flags': 0x80, 'v': {'afi': 2, 'safi': 1, 'hops': ['2001:db8::1'], 'entries': [ent('2001:db8:1::/48', 2), ent('2001:db8:2:3::/64', 2)]}})
    attrs.append({'code': 15, 'flags': 0x80, 'v': {'afi': 2, 'safi': 1, 'entries': [ent('2001:db8:ffff::/48', 2)]}})
    attrs.append({'code': 16, 'flags': 0xC0, 'v': ['0002fde800000064', '010201020304000a']})
    if not asn4:
        # the AS_PATH [65001 23456] {64512 64513} of an OLD speaker: AS4_PATH names the true tail (RFC 6793 4.2.2)
        attrs.append({'code': 17, 'flags': 0xC0, 'v': [[2, [70000]], [1, [64512, 64513]]]})
        attrs.append({'code': 18, 'flags': 0xC0, 'v': [70000, '192.0.2.1']})
    attrs += [
        {'code': 22, 'flags': 0xC0, 'v': '0006000010c0000201'},
        {'code': 26, 'flags': 0x80, 'v': 10},
        {'code': 32, 'flags': 0xC0, 'v': [[65000, 1, 2], [4200000000, 0, 4294967295]]},
        {'code': 0x63, 'flags': 0xC0, 'v': 'deadbeef'},
    ]
    desc = {'session': session, 'withdrawn': [], 'nlri': [], 'attrs': attrs, 'order': 'sorted'}
    if placement == 'mp-first':
        # RFC 7606 5.1: MP_REACH / MP_UNREACH first, so that their NLRI is found before anything else can go wrong
        desc['attrs'] = [a for a in attrs if a['code'] in (14, 15)] + [a for a in attrs if a['code'] not in (14, 15)]
        desc['order'] = 'mp-first'
    if placement in ('v4', 'both'):
        desc['nlri'] = [ent('10.1.0.0/16', 1), ent('10.2.3.0/24', 1)]
    return desc


def value_corruptions(code: int, value: bytes, session: dict) -> list[dict]:
    """per-type invalid values, each a consistent TLV"""
    out: list[tuple[str, bytes]] = []
    width = 4 if (session['asn4'] or code == 17) else 2
    if code == 1:
        out += [('origin-3', b'\x03'), ('origin-255', b'\xff')]
    elif code in (2, 17):
        out += [
            ('segment-type-0', b'\x00' + value[1:]),
            ('segment-type-5', b'\x05' + value[1:]),
            # the count of the last segment says one AS more than the value holds (RFC 7606 7.2 overrun)
            ('segment-count-overrun', _bump_last_segment(value, width)),
            ('segment-count-zero', value + b'\x02\x00'),
            ('segment-underrun', value + b'\x02'),
            # the first segment claims every byte of the value and more
            ('segment-count-255', value[:1] + b'\xff' + value[2:]),
        ]
    elif code == 3:
        out += [('nexthop-len-3', value[:3]), ('nexthop-len-5', value + b'\x01'), ('nexthop-len-16', ipaddress.IPv6Address('2001:db8::1').packed)]
    elif code in (4, 5):
        out += [('len-8', value + value)]
    elif code == 7:
        # the size that goes with the other AS width
        out += [('aggregator-other-as-width', value[2:] if session['asn4'] else b'\x00\x00' + value)]
    elif code == 8:
        out += [('len-2', value[:2]), ('len-6', value[:6])]
    elif code == 9:
        out += [('len-16', value * 4)]
    elif code == 10:
        out += [('len-6', value[:6])]
    elif code == 16:
        out += [('len-4', value[:4]), ('len-12', value[:12])]
    elif code == 18:
        out += [('len-6', value[2:])]
    elif code == 22:
        out += [('pmsi-len-4', value[:4]), ('pmsi-len-1', value[:1])]
    elif code == 26:
        out += [
            ('aigp-tlv-length-2', b'\x01\x00\x02' + value[3:]),
            ('aigp-tlv-length-over', b'\x01\x00\x0c' + value[3:]),
            ('aigp-tlv-length-10', b'\x01\x00\x0a' + value[3:10]),
        ]
    elif code == 32:
        out += [('len-8', value[:8]), ('len-16', value[:16])]
    elif code == 14:
        nh = value[3]
        out += [
            ('mp-nexthop-len+1', value[:3] + bytes([nh + 1]) + value[4:]),
            ('mp-nexthop-len-0', value[:3] + b'\x00' + value[4:]),
            ('mp-nexthop-len-5', value[:3] + b'\x05' + value[4:9] + value[4 + nh :]),
            ('mp-nlri-mask-200', value[: 4 + nh + 1] + _mask(value[4 + nh + 1 :], session, 200)),
            ('mp-header-only-3', value[:3]),
        ]
    elif code == 15:
        out += [('mp-nlri-mask-200', value[:3] + _mask(value[3:], session, 200)), ('mp-header-only-2', value[:2])]
    return [{'kind': 'value', 'name': n, 'hex': v.hex()} for n, v in out]


def _bump_last_segment(value: bytes, width: int) -> bytes:
    pos = 0
    last = 0
    while pos + 2 <= len(value):
        last = pos
        pos += 2 + value[pos + 1] * width
    return value[: last + 1] + bytes([value[last + 1] + 1]) + value[last + 2 :]


def _mask(nlri: bytes, session: dict, bits: int) -> bytes:
    off = 4 if [2, 1] in session['addpath'] else 0
    return nlri[:off] + bytes([bits]) + nlri[off + 1 :]


def second_value(code: int, value: bytes) -> bytes:
    """another well-formed value for the repeated attribute"""
    if code == 1:
        return b'\x02' if value != b'\x02' else b'\x00'
    if code in (6, 14, 15) or not value:
        return value
    v = bytearray(value)
    v[-1] ^= 0x04
    return bytes(v)


def grid_corruptions(desc: dict, target: int) -> list[dict]:
    tlvs = base_tlvs(desc)
    flags, code, head, value = tlv_parts(tlvs[target])
    last = target == len(tlvs) - 1
    cors: list[dict] = []
    if code != 0x63:
        # the value of an unknown attribute has no wrong length
        if value:
            cors += [{'kind': 'short'}, {'kind': 'empty'}]
        cors += [{'kind': 'long'}]
    cors += [{'kind': 'lenfield', 'delta': -1}] if value else []
    cors += [{'kind': 'lenfield', 'delta': 1}]
    if not last:
        cors += [{'kind': 'swallow'}]
    cors += [{'kind': 'overrun', 'k': 1}, {'kind': 'overrun', 'k': 200}, {'kind': 'overrun', 'k': 1, 'last': True}, {'kind': 'overrun', 'k': 2, 'last': True}]
    cors += [{'kind': 'flags', 'mask': 0x80}, {'kind': 'flags', 'mask': 0x40}, {'kind': 'flags', 'mask': 0xC0}, {'kind': 'extlen'}]
    cors += value_corruptions(code, value, desc['session'])
    cors += [{'kind': 'truncate', 'at': 2}]
    if value:
        cors += [{'kind': 'truncate', 'at': -1}]
        if len(value) > 2:
            cors += [{'kind': 'truncate', 'at': head + 1}]
    cors += [{'kind': 'duplicate', 'where': 'after', 'hex': second_value(code, value).hex()}, {'kind': 'duplicate', 'where': 'end', 'hex': second_value(code, value).hex()}]
    return cors


_GRID: list = []


def fixed_cases() -> list:
    if _GRID:
        return _GRID
    for n, session in enumerate(GRID_SESSIONS):
        for placement in ('v4', 'mp', 'mp-first') + (('both',) if n < 2 else ()):
            desc = grid_base(session, placement)
            for target in range(len(desc['attrs'])):
                for cor in grid_corruptions(desc, target):
                    _GRID.append({'session': session, 'base': desc, 'target': target, 'cor': cor})
    # a well-known mandatory attribute swallowed whole by the unknown attribute in front of it (RFC 7606 3.d)
    for session in GRID_SESSIONS[:2]:
        for code in (1, 2, 3):
            desc = grid_base(session, 'v4')
            attrs = [a for a in desc['attrs'] if a['code'] != 0x63]
            at = next(i for i, a in enumerate(attrs) if a['code'] == code)
            attrs.insert(at, {'code': 0x63, 'flags': 0xC0, 'v': 'deadbeef'})
            desc = dict(desc, attrs=attrs, order='permuted')
            size = len(base_tlvs(desc)[at + 1])
            _GRID.append({'session': session, 'base': desc, 'target': at, 'cor': {'kind': 'lenfield', 'delta': size}})
    # labelled unicast (RFC 8277 2): an NLRI shorter than one label cannot be read
    session = {'asn4': True, 'families': [[1, 1], [2, 4]], 'addpath': [], 'peer_as': 65000}
    reach = {'afi': 2, 'safi': 4, 'hops': ['2001:db8::1'], 'entries': [{'prefix': '2001:db8:1::/48', 'labels': [16]}]}
    desc = {'session': session, 'withdrawn': [], 'nlri': [], 'order': 'sorted', 'attrs': [{'code': 1, 'flags': 0x40, 'v': 0}, {'code': 2, 'flags': 0x40, 'v': [[2, [65001]]]}, {'code': 14, 'flags': 0x80, 'v': reach}]}
    head = ws.attr_value_bytes(desc['attrs'][2], session)[:21]
    for name, nlri in (('labelled-nlri-2-bits', b'\x02\x40'), ('labelled-nlri-0-bits', b'\x00'), ('labelled-nlri-23-bits', b'\x17\x00\x01\x01')):
        _GRID.append({'session': session, 'base': desc, 'target': 2, 'cor': {'kind': 'value', 'name': name, 'hex': (head + nlri).hex()}})
    return _GRID


# ---------------------------------------------------------------------------- random part


def announcing(desc: dict) -> bool:
    if desc.get('order') == 'attributes-only':
        return False
    if desc['nlri']:
        return True
    return any(a['code'] == 14 and a['v']['entries'] for a in desc['attrs'])


@st.composite
def cases(draw):
    session = draw(ws.sessions())
    desc = draw(ws.updates(session).filter(announcing))
    target = draw(st.integers(0, len(desc['attrs']) - 1))
    a = desc['attrs'][target]
    value = ws.attr_value_bytes(a, session)
    generic = [
        st.just({'kind': 'short'}),
        st.builds(lambda n: {'kind': 'short', 'n': n, 'random': True}, st.integers(2, 5)),
        st.just({'kind': 'empty'}),
        st.builds(lambda b: {'kind': 'long', 'hex': b.hex(), 'random': True}, st.binary(min_size=1, max_size=5)),
        st.builds(lambda d: {'kind': 'lenfield', 'delta': d}, st.sampled_from([-3, -2, -1, 1, 2, 3, 7])),
        st.just({'kind': 'swallow'}),
        st.builds(lambda k: {'kind': 'overrun', 'k': k}, st.sampled_from([1, 1, 2, 3, 4, 16, 200, 5000])),
        st.builds(lambda k: {'kind': 'overrun', 'k': k, 'last': True}, st.sampled_from([1, 1, 2, 3, 4, 8, 16, 200])),
        st.builds(lambda m: {'kind': 'flags', 'mask': m}, st.sampled_from([0x80, 0x40, 0xC0])),
        st.just({'kind': 'extlen'}),
        st.builds(lambda p: {'kind': 'truncate', 'at': p}, st.integers(-6, 12)),
        st.builds(lambda w: {'kind': 'duplicate', 'where': w, 'hex': second_value(a['code'], value).hex()}, st.sampled_from(['after', 'end'])),
        st.builds(lambda b: {'kind': 'value', 'name': 'random-value', 'hex': b.hex(), 'random': True}, st.binary(max_size=max(8, len(value) + 4))),
        st.builds(lambda i, x: {'kind': 'flip', 'at': i, 'xor': x}, st.integers(0, 300), st.integers(1, 255)),
    ]
    typed = value_corruptions(a['code'], value, session) if value else []
    if typed:
        generic.append(st.sampled_from(typed))
    cor = draw(st.one_of(generic))
    if cor['kind'] == 'truncate' and cor['at'] == 0:
        cor = dict(cor, at=1)
    return {'session': session, 'base': desc, 'target': target, 'cor': cor}


# ---------------------------------------------------------------------------- driving exabgp

_NEIGHBORS: dict = {}


def neighbor_for(session: dict):
    key = json.dumps(session, sort_keys=True)
    if key not in _NEIGHBORS:
        n, neg = c02.neighbor_for(session)
        # the API keys read_message consults: parsed UPDATEs are wanted by one process
        n.api['receive-parsed'] = ['c08']
        n.api['receive-update'] = ['c08']
        n.api['receive-packets'] = []
        n.api['receive-consolidate'] = []
        if len(_NEIGHBORS) > 48:
            _NEIGHBORS.clear()
        _NEIGHBORS[key] = (n, neg)
    return _NEIGHBORS[key]


class _Sink:
    """stands where Processes stands: keeps what read_message hands to the API"""

    def __init__(self) -> None:
        self.messages: list = []

    def message(self, msg_id, peer, direction, message, header, body, negotiated=None) -> None:
        self.messages.append(message)

    def packets(self, *args, **kwargs) -> None:
        pass

    def notification(self, *args, **kwargs) -> None:
        pass


class _Reactor:
    def __init__(self) -> None:
        self.processes = _Sink()


class _Peer:
    def __init__(self, neighbor) -> None:
        self.neighbor = neighbor
        self.reactor = _Reactor()
        self.stats = collections.defaultdict(int)


class _Connection:
    def __init__(self, body: bytes) -> None:
        self.body = body

    async def reader_async(self):
        head = b'\xff' * 16 + struct.pack('!HB', 19 + len(self.body), 2)
        return 19 + len(self.body), 2, memoryview(head), memoryview(self.body), None

    def session(self) -> str:
        return 'c08'


def _drive(coro):
    try:
        coro.send(None)
    except StopIteration as stop:
        return stop.value
    coro.close()
    raise RuntimeError('exabgp awaited something the harness does not provide')


def deliver(neighbor, neg, handler, ctx, body: bytes) -> dict:
    """one UPDATE through Protocol.read_message and, if it comes back as an UPDATE, UpdateHandler - the way Peer does"""
    from exabgp.reactor.protocol import Protocol

    proto = object.__new__(Protocol)
    proto.peer = _Peer(neighbor)
    proto.neighbor = neighbor
    proto.negotiated = neg
    proto.connection = _Connection(body)
    proto.log_routes = True
    out: dict = {'reset': None, 'api': None, 'message': None, 'handled': False}
    try:
        message = _drive(proto.read_message())
    except exa.Notify as exc:
        out['reset'] = (int(exc.code), int(exc.subcode), str(exc))
        return out
    out['message'] = message
    sink = proto.peer.reactor.processes.messages
    if len(sink) > 1:
        raise Violation('api:event-repeated', f'{len(sink)} events for one UPDATE')
    if sink:
        out['api'] = sink[0]
    if handler.can_handle(message):
        c02._run(handler.handle_async(ctx, message))
        out['handled'] = True
    return out


EXTRA_KEYS = ('aigp', 'pmsi')


def api_view(neighbor, neg, message, body: bytes) -> dict:
    from exabgp.version import json_v4

    try:
        out6 = exa.render_update_json(neighbor, message, neg)
        out4 = exa.render_update_json(neighbor, message, neg, json_v4)
    except Exception as exc:  # noqa: BLE001
        raise Violation(exception_signature('json', exc), f'{exc!r} for {body.hex()}') from exc
    try:
        got6 = c02.observed_from_json(out6)
        got4 = c02.observed_from_json(out4)
        at = json.loads(out6)['neighbor']['message'].get('update', {}).get('attribute', {})
    except Violation:
        raise
    except (ValueError, KeyError, TypeError) as exc:
        raise Violation(f'json:unusable:{type(exc).__name__}', f'{exc!r} in {out6[:300]} for {body.hex()}') from None
    if 'eor' in got6:
        return {'eor': got6['eor'], 'announce': {}, 'withdraw': set(), 'attrs': {}, 'text': out6}
    for k in EXTRA_KEYS:
        if k in at:
            got6['attrs'][k] = at[k]
    if set(got6['announce']) != set(got4.get('announce', {})) or got6['withdraw'] != got4.get('withdraw', set()):
        raise Violation('json-v4-differs', f'v6 {sorted(map(str, got6["announce"]))} v4 {sorted(map(str, got4.get("announce", {})))} for {body.hex()}')
    got6['text'] = out6
    return got6


def rib_full(neighbor) -> dict:
    table = {}
    for route in neighbor.rib.incoming.cached_routes():
        nlri = route.nlri
        fam = (int(nlri.afi), int(nlri.safi))
        text = nlri.json()
        item = json.loads('{' + text + '}' if not text.lstrip().startswith('{') else text)
        try:
            doc = json.dumps({'neighbor': {'message': {'update': {'attribute': json.loads('{' + route.attributes.json() + '}')}}}})
            attrs = c02.observed_from_json(doc)['attrs']
        except (ValueError, KeyError, TypeError) as exc:
            raise Violation(f'rib:attributes-unusable:{type(exc).__name__}', f'{exc!r} in the attributes of {nlri}') from None
        at = json.loads(doc)['neighbor']['message']['update']['attribute']
        for k in EXTRA_KEYS:
            if k in at:
                attrs[k] = at[k]
        table[c02.json_key(fam, item)] = {'route': route, 'nexthop': str(route.nexthop), 'labels': c02.json_labels(item), 'attrs': attrs}
    return table


ATTR_KEY = {
    1: 'origin',
    2: 'as-path',
    4: 'med',
    5: 'local-preference',
    6: 'atomic-aggregate',
    7: 'aggregator',
    8: 'community',
    9: 'originator-id',
    10: 'cluster-list',
    16: 'extended-community',
    17: 'as-path',
    18: 'aggregator',
    22: 'pmsi',
    26: 'aigp',
    32: 'large-community',
    0x63: 'unknown-0x63',
    0x99: 'unknown-0x99',
    0xF0: 'unknown-0xf0',
}


# ---------------------------------------------------------------------------- the check


class _Judge:
    """names the violation: clause + what exabgp's parser recorded + attribute (+ corruption kind)

    When the parser recorded its own treat-as-withdraw decision and the routes are announced all the same, the kind of
    corruption no longer matters for the cause (nothing acts on the decision): one signature per attribute.
    """

    def __init__(self, attr: str, kind: str, body: bytes, session: dict, faults: str) -> None:
        self.attr = attr
        self.kind = kind
        self.marked = 'unmarked'
        self.own_decisive = True
        self.rib = ''
        self.tail = f'UPDATE {body.hex()} session asn4={session["asn4"]} addpath={session["addpath"]} peer-as={session["peer_as"]}; reference: {faults}'

    def fail(self, clause: str, text: str, scope: str = 'kind') -> None:
        if scope == 'none':
            sig = clause
        elif scope == 'attr':
            sig = f'{clause}:{self.attr}'
        else:
            sig = f'{clause}:{self.attr}:{self.kind}'
        if clause.startswith(('announced-despite-malformed', 'overrun-accepted', 'discard:api')):
            # the API let the routes in: say what Adj-RIB-In did with them
            sig += f':{self.rib}'
        raise Violation(sig, f'[{self.attr} {self.kind}] {text}; {self.tail}')

    def announced(self, clause: str, text: str) -> None:
        """a clause about routes let in: bucket by the parser's own record"""
        if self.marked == 'marked-withdraw':
            self.fail('announced-despite-malformed:marked-withdraw', f'({clause}) {text}', 'attr')
        # a discard mark says nothing about a fault that asks for more than discard: folded into 'unmarked'
        self.fail(f'{clause}:unmarked', f'(parser: {self.marked}) {text}')


def check(case: dict) -> dict:
    try:
        return _check(case)
    except Violation as v:
        for pat in KNOWN:
            if fnmatch.fnmatchcase(v.signature, pat):
                return {'nontrivial': True, 'classes': [f'tolerated:{v.signature}']}
        raise


def _check(case: dict) -> dict:
    from exabgp.bgp.message import Message
    from exabgp.bgp.message.update.attribute import Attribute
    from exabgp.reactor.peer.context import PeerContext
    from exabgp.reactor.peer.handlers import UpdateHandler

    session = case['session']
    base = case['base']
    neighbor, neg = neighbor_for(session)
    neighbor.rib.incoming.clear()
    exa.reset_global_state()
    handler = UpdateHandler()
    ctx = PeerContext(proto=None, neighbor=neighbor, negotiated=neg, refresh_enhanced=False, routes_per_iteration=25, peer_id='c08', stats=collections.defaultdict(int))

    base_body = ws.render_update(base)
    body, what = corrupt(base, case['target'], case['cor'])
    attr, kind = ref.name(what['code']), what['kind']
    target_offset = what['offset']
    ana = ref.analyse(body, session)
    if not ana['outer_ok']:
        raise RuntimeError(f'the corruption broke the outer framing: {body.hex()}')
    base_ana = ref.analyse(base_body, session)
    if base_ana['allowed'] != frozenset({'ok'}):
        raise RuntimeError(f'the reference finds a fault in the well-formed base: {base_ana["faults"]} {base_body.hex()}')
    classes = [f'attr:{attr}', f'kind:{kind}', 'placement:' + '+'.join(p for p, on in (('v4', base['nlri']), ('mp', any(a['code'] == 14 for a in base['attrs']))) if on) + ('-first' if base['attrs'][0]['code'] == 14 else '')]
    classes.append(f'session:asn4={int(session["asn4"])},addpath={int(bool(session["addpath"]))},{"ebgp" if session["peer_as"] != 65000 else "ibgp"}')
    faults = ', '.join(f'{ref.name(f["code"])}/{f["kind"]}' for f in ana['faults']) or 'none'
    judge = _Judge(attr, kind, body, session, f'faults [{faults}] allowed {sorted(ana["allowed"])}')
    # naming only: the faults that decide (those attribute discard does not answer, if there is any such fault)
    decisive = [f for f in ana['faults'] if 'discard' not in f['allowed']] or ana['faults']
    own = [f['kind'] for f in decisive if f['code'] == what['code']]
    judge.own_decisive = bool(own)
    if decisive and (('unrecognized-wellknown' in own) or (not own and decisive[0]['kind'] == 'unrecognized-wellknown')):
        # one cause however it came about: an attribute nobody knows, with the Optional bit clear
        judge.attr, judge.kind = 'UNKNOWN', 'unrecognized-wellknown'
    elif case['cor']['kind'] == 'flags' and 'flags' in own:
        judge.kind = 'flags'
    elif decisive and not own:
        # the corrupted attribute itself reads well, or is only to be discarded (a length field moved the boundaries):
        # what decides is what follows
        first = decisive[0]
        judge.attr, judge.kind = ref.name(first['code']), f'{first["kind"]}-behind-shifted-boundary'
    elif what['code'] in (14, 15) and 'value' in own:
        # whatever was done to it, the attribute now holds a next hop or an NLRI that cannot be read
        judge.kind = 'unreadable-nexthop-or-nlri'
    elif case['cor']['kind'] in ('lenfield', 'extlen', 'flip', 'swallow') or case['cor'].get('random'):
        # a moved boundary or random bytes: name the fault it makes of the attribute itself (zero-length, value, framing:overrun ...)
        judge.kind = own[0] if own else kind

    if body == base_body or ana['allowed'] == frozenset({'ok'}):
        return {'nontrivial': False, 'classes': classes + ['corruption-left-a-wellformed-update']}
    if ana['unmodelled']:
        return {'nontrivial': False, 'classes': classes + ['unmodelled']}
    allowed = ana['allowed']
    classes.append('required:' + next(a for a in ('discard', 'withdraw', 'reset') if a in allowed))
    for f in ana['faults']:
        classes.append(f'fault:{f["kind"]}')

    # 1. the routes are there, well-formed
    pre = deliver(neighbor, neg, handler, ctx, base_body)
    base_ref = c02.reference(base_body, session)
    before = rib_full(neighbor)
    if pre['reset'] or not pre['handled'] or not set(base_ref['announce']) <= set(before):
        # the well-formed message itself is not taken as sent: C02's subject, nothing to learn here
        return {'nontrivial': False, 'classes': classes + ['base-not-accepted']}

    # 1b. the same bytes are first decoded for a session of the other AS width (one process serves many peers): what that
    # decode leaves behind - a value cache keyed by bytes alone - must not make this session take the attribute as read
    try:
        _other_neighbor, other_neg = neighbor_for(dict(session, asn4=not session['asn4']))
        for primer in (base_body, body):
            try:
                Message.unpack(2, memoryview(primer), other_neg)
            except Exception:  # noqa: BLE001 - what the other session makes of the bytes is not this case's subject
                pass
        classes.append('primed-on-the-other-as-width')
    except RuntimeError:
        pass

    # 2. the corrupted UPDATE
    try:
        out = deliver(neighbor, neg, handler, ctx, body)
    except Violation:
        raise
    except Exception as exc:  # noqa: BLE001
        raise Violation(exception_signature('exception', exc), f'{exc!r}; {judge.tail}') from exc

    if out['reset']:
        code, subcode, text = out['reset']
        if code != 3:
            # read_message wraps what escaped the decoder into 1/0: find what it was
            exa.reset_global_state()
            try:
                Message.unpack(2, memoryview(body), neg)
            except exa.Notify:
                pass
            except Exception as exc:  # noqa: BLE001
                raise Violation(exception_signature('decoder-exception', exc), f'{exc!r} (sent to the peer as NOTIFICATION {code}/{subcode}); {judge.tail}') from exc
            judge.fail(f'reset-not-update-error:{code}/{subcode}', text[:120])
        classes.append('outcome:session-reset')
        classes.append(f'notify:3/{subcode}')
        if 'withdraw' in allowed:
            classes.append('stricter-than-required')
        return {'nontrivial': True, 'classes': sorted(set(classes)), 'sample': {'update': body.hex(), 'attr': attr, 'kind': kind, 'outcome': f'reset 3/{subcode}'}}

    message = out['message']
    api = api_view(neighbor, neg, out['api'], body) if out['api'] is not None else None
    after = rib_full(neighbor)
    # only to name the root cause in the signature (never part of the verdict): did the parser record a decision?
    marked = 'unmarked'
    for m in (out['api'], message):
        if m is not None and not getattr(m, 'IS_EOR', False) and hasattr(m, 'data'):
            if Attribute.CODE.INTERNAL_TREAT_AS_WITHDRAW in m.data.attributes:
                marked = 'marked-withdraw'
            elif Attribute.CODE.INTERNAL_DISCARD in m.data.attributes:
                marked = 'marked-discard'
            break
    classes.append(f'exabgp:{marked}')
    judge.marked = marked

    # what the message says (reference reading)
    msg_routes = {c02.ref_key(e) for e in ana['nlri']}
    if ana['mp_reach'] and ana['mp_reach'].get('nlri'):
        msg_routes |= {c02.ref_key(e) for e in ana['mp_reach']['nlri']}
    explicit = {c02.ref_key(e) for e in ana['withdrawn']}
    if ana['mp_unreach'] and ana['mp_unreach'].get('nlri'):
        explicit |= {c02.ref_key(e) for e in ana['mp_unreach']['nlri']}
    explicit -= msg_routes

    stored = {k for k, v in after.items() if k not in before or v['route'] is not before[k]['route']}
    announced = dict(api['announce']) if api else {}
    judge.rib = 'rib-stored' if stored else ('rib-removed' if msg_routes and not (msg_routes & set(after)) else 'rib-unchanged')
    own_key = ATTR_KEY.get(what['code'])

    expected = None
    if 'discard' in allowed:
        try:
            expected = c02.reference(ana['kept_body'], session)
        except Exception as exc:  # noqa: BLE001
            raise RuntimeError(f'reference cannot read its own discard reading: {exc!r} {ana["kept_body"].hex()}') from exc
        # aigp / pmsi are not modelled by the C02 reference: an untouched TLV must read as it did in the well-formed base
        base_attrs = next(iter(before.values()))['attrs']
        base_raw = {t['code']: t['raw'] for t in base_ana['tlvs']}
        for t in ana['kept_tlvs']:
            k = ATTR_KEY.get(t['code'])
            if k in EXTRA_KEYS and k in base_attrs and base_raw.get(t['code']) == t['raw'] and k not in expected['attrs']:
                expected['attrs'][k] = base_attrs[k]

    # ---- clause A: nothing of a damaged UPDATE is announced, unless attribute discard is the reaction
    if announced:
        if 'discard' not in allowed:
            framing = ana['framing']
            shown = f'{own_key}={api["attrs"].get(own_key)!r}' if own_key else (f'next hops {sorted({v[0] for v in announced.values()})}' if what['code'] in (3, 14, 15) else '')
            if framing and framing['kind'] == 'overrun' and marked == 'unmarked':
                # the parser raised nothing: the TLV that runs past the block was taken with the octets that were there
                if framing['offset'] != target_offset:
                    judge.attr, shown = ref.name(framing['code']), f'the attribute at offset {framing["offset"]}'
                judge.fail('overrun-accepted:unmarked', f'declared length {framing["declared"]} with {framing["available"]} octets left in the block, yet {shown} is accepted and routes are announced {sorted(map(str, announced))[:2]}', 'attr')
            judge.announced('announced-despite-malformed', f'routes announced {sorted(map(str, announced))[:2]} with {shown or "the attribute"}; RFC 7606 asks for {sorted(allowed)}')
        _compare_discard('api', judge, expected, {'announce': announced, 'attrs': api['attrs'], 'withdraw': api['withdraw']}, ana, own_key)

    # ---- clause B: the same for Adj-RIB-In
    if stored:
        if 'discard' not in allowed:
            k = sorted(stored, key=str)[0]
            judge.announced('stored-despite-malformed', f'{k} stored in Adj-RIB-In with {after[k]["attrs"]}')
        rib_got = {'announce': {k: (after[k]['nexthop'], after[k]['labels']) for k in stored}, 'attrs': after[sorted(stored, key=str)[0]]['attrs'], 'withdraw': set()}
        _compare_discard('rib', judge, expected, rib_got, ana, own_key)

    # ---- clause C: the two observers tell one story, and it is one the RFC allows
    if announced and stored:
        for k in expected['withdraw']:
            if k in after:
                judge.fail('discard:withdrawn-route-kept', f'{k} is withdrawn by the UPDATE and still in Adj-RIB-In')
        classes.append('outcome:attribute-discard')
        outcome = 'discard'
    elif announced and not stored:
        # read_message hands the UPDATE to the API, then drops it because of INTERNAL_DISCARD
        judge.fail(f'announced-on-api-but-update-dropped:{marked}', f'API announces {sorted(map(str, announced))[:2]}, Adj-RIB-In keeps the old routes (read_message returned {type(message).__name__})', 'none')
    elif stored and not announced:
        judge.fail('stored-but-not-announced', f'{sorted(map(str, stored))[:2]} stored, API event {"absent" if api is None else "without announce"}')
    else:
        reported = api['withdraw'] if api else set()
        still = msg_routes & set(after)
        lost = {k for k in base_ref['announce'] if k in after and k not in msg_routes}
        if msg_routes <= reported and not still:
            if 'withdraw' not in allowed:
                # the RFC says session reset (NLRI that cannot be located, repeated MP attribute, unrecognised well-known):
                # nothing is announced and every route that can be located is withdrawn - taken as equally safe
                classes.append('rfc-asks-reset:withdrawn-instead')
            if not msg_routes:
                classes.append('withdraw-with-no-locatable-nlri')
                if lost:
                    classes.append('earlier-routes-stay:no-locatable-nlri')
            missing = explicit - reported
            if missing:
                judge.fail('withdraw:explicit-withdraw-lost', f'{sorted(map(str, missing))[:2]} withdrawn by the UPDATE but not reported')
            classes.append('outcome:treat-as-withdraw')
            if 'discard' in allowed:
                classes.append('stricter-than-required')
            outcome = 'withdraw'
        elif not (msg_routes & reported) and still == msg_routes and all(after[k]['route'] is before[k]['route'] for k in still):
            if 'ignore' not in allowed:
                how = 'no API event' if api is None else ('End-of-RIB reported' if 'eor' in api else f'API event with withdraw {sorted(map(str, reported))[:2]} only')
                judge.fail(f'neither-withdrawn-nor-reset:{marked}', f'{how}; the routes {sorted(map(str, msg_routes))[:2]} announced earlier stay in Adj-RIB-In; RFC 7606 asks for {sorted(allowed)}')
            if api is not None and (api['withdraw'] or 'eor' in api):
                judge.fail('ignored:partly', f'the UPDATE is dropped yet the API got {api["text"][:200]}')
            classes.append('outcome:ignored-whole-update')
            outcome = 'ignore'
        else:
            judge.fail(f'withdraw-incomplete:{marked}', f'reported withdrawn {sorted(map(str, reported))[:3]}, message routes {sorted(map(str, msg_routes))[:3]}, still in Adj-RIB-In {sorted(map(str, still))[:3]}')
    return {'nontrivial': True, 'classes': sorted(set(classes)), 'sample': {'update': body.hex(), 'attr': attr, 'kind': kind, 'outcome': outcome}}


def _compare_discard(tag: str, judge: _Judge, expected: dict, got: dict, ana: dict, own_key: str | None) -> None:
    """attribute discard: the routes with exactly the other attributes"""
    ra, ga = expected['announce'], got['announce']
    if set(ra) != set(ga):
        judge.announced(f'discard:{tag}:routes-differ', f'expected {sorted(map(str, ra))[:3]} got {sorted(map(str, ga))[:3]}')
    for k, (nh, labels) in ra.items():
        g, glabels = ga[k]
        if labels != glabels:
            judge.announced(f'discard:{tag}:labels', f'{k}: {glabels} vs {labels}')
        if nh is not None and ipaddress.ip_address(g) != ipaddress.ip_address(nh):
            judge.announced(f'discard:{tag}:nexthop', f'{k}: reported {g} reference {nh}')
    why = {ATTR_KEY[c]: kind for c, kind in ana['dropped_why'].items() if c in ATTR_KEY}
    kept_codes = {t['code'] for t in ana['kept_tlvs']}
    if 18 in kept_codes:
        why.pop('aggregator', None)  # a well-formed AS4_AGGREGATOR stands in (not compared, as in C02)
    for k in sorted(set(expected['attrs']) | set(got['attrs'])):
        r, g = expected['attrs'].get(k), got['attrs'].get(k)
        if k == 'aggregator' and r is None and k not in why:
            continue
        if k == 'as-path' and not r and not g:
            continue
        if k in EXTRA_KEYS and r is None and k not in why:
            continue  # not modelled and not the same bytes as in the base: no expectation
        if r != g:
            if why.get(k) == 'duplicate':
                judge.announced(f'discard:{tag}:wrong-occurrence-kept', f'{k}: reported {g!r}, the first occurrence says {r!r}')
            if k in why:
                judge.announced(f'discard:{tag}:malformed-attribute-used', f'{k}={g!r} is reported, without the malformed attribute it is {r!r}')
            judge.announced(f'discard:{tag}:other-attribute-changed:{k}', f'reported {g!r} reference {r!r}')


ENGINES = [Engine('corrupt', cases, check, quick=350, thorough=20000, batch=175, fixed_cases=fixed_cases)]
