"""C17 - configuration reload applies the difference, or nothing at all"""

from __future__ import annotations

import os
import shutil

from hypothesis import strategies as st

from vlib import netharness as nh
from vlib import scenario as sc
from vlib import vloop
from vlib.refwire import codec
from vlib.runner import Engine, Inconclusive, Violation

PROPERTY = 'C17'
RULE = (
    'pair (old configuration, new configuration or broken file) from a grammar, as real files: 1-2 neighbors, per neighbor a route set over a small universe with routes removed, added, '
    'same prefix with changed attributes, same prefix with changed next hop, unchanged; neighbor parameters unchanged (reconfigure path) or changed (re-establish path: hold time, or an address family added to / removed from the neighbor); neighbor added / removed; '
    'broken variants: token deleted, brace dropped, unknown keyword, value out of range, a value that makes a parser raise something else than ValueError, file truncated at k, file missing, file is a directory; '
    'x session up or down at reload time x 0-3 API-announced routes x reload by signal flag or API command. '
    'Non-trivial = the pair has a same-prefix attribute or next-hop change, or the new file is broken, or the session was down during the reload'
)
ASSUMPTIONS = [
    'refwire PeerTable rebuilds the remote table from the bytes of the session that is up after the reload',
    'bounded liveness: 30 virtual seconds to re-establish and drain, otherwise inconclusive',
    'a failed reload is recognised by Reactor.reload() returning False (recorded by wrapping it)',
    'one case in three runs with "adj-rib-out false" + "route-refresh disable" (no Adj-RIB-Out kept); for those the neighbor definition is left unchanged '
    'and the session is up at reload time (a session started after a failed or closed one announces nothing again without an Adj-RIB-Out, by the meaning of the option: Peer._reset drains the RIB) and an API route is optional on a session established after it was announced',
]

PREFIXES = ['70.0.0.0/24', '70.0.1.0/24', '70.0.2.0/24', '70.0.3.0/24', '2001:db8:70::/48']
NHS = {4: ['1.2.3.4', '1.2.3.5'], 6: ['2001:db8::4', '2001:db8::5']}
PEERS = [{'ip': '127.0.0.2', 'as': 65001, 'rid_remote': 0x0A000009}, {'ip': '127.0.0.3', 'as': 65001, 'rid_remote': 0x0A00000A}]


def route_line(p: int, med: int, nh: int) -> str:
    prefix = PREFIXES[p]
    fam = 6 if ':' in prefix else 4
    return f'route {prefix} next-hop {NHS[fam][nh]} med {med}'


def render(neighbors: list[dict], ribout: bool = True, process: bool = True) -> str:
    """ribout False = a neighbor that keeps no Adj-RIB-Out (it needs route-refresh off, otherwise the configuration turns it back on)"""
    text = nh.process_section() if process else ''
    rib = 'adj-rib-out true;\n  capability {\n    asn4 enable;\n    route-refresh enable;\n  }' if ribout else 'adj-rib-out false;\n  capability {\n    asn4 enable;\n    route-refresh disable;\n  }'
    for nb in neighbors:
        peer = PEERS[nb['peer']]
        body = (nh.api_section(changes=True) if process else '') + '\n  static {\n' + '\n'.join(f'    {route_line(*r)};' for r in nb['routes']) + '\n  }'
        text += (
            f'neighbor {peer["ip"]} {{\n  router-id 10.0.0.5;\n  local-address 127.0.0.1;\n  local-as 65000;\n  peer-as {peer["as"]};\n  hold-time {nb["hold"]};\n'
            f'  {rib}\n  family {{\n    ipv4 unicast;\n' + ('' if nb.get('v4only') else '    ipv6 unicast;\n') + f'  }}\n{body}\n}}\n'
        )
    return text


def table_of_config(nb: dict) -> dict:
    out = {}
    for p, med, nhx in nb['routes']:
        prefix = PREFIXES[p]
        out[prefix] = (med, NHS[6 if ':' in prefix else 4][nhx])
    return out


@st.composite
def route_set(draw):
    return [list(r) for r in draw(st.lists(st.tuples(st.integers(0, len(PREFIXES) - 1), st.integers(1, 3), st.integers(0, 1)), max_size=4, unique_by=lambda r: r[0]))]


@st.composite
def evolve(draw, routes):
    out = []
    for r in routes:
        what = draw(st.sampled_from(['keep', 'keep', 'remove', 'med', 'nexthop']))
        if what == 'keep':
            out.append(list(r))
        elif what == 'med':
            out.append([r[0], r[1] % 3 + 1, r[2]])
        elif what == 'nexthop':
            out.append([r[0], r[1], 1 - r[2]])
    have = {r[0] for r in out}
    for p in range(len(PREFIXES)):
        if p not in have and draw(st.integers(0, 3)) == 0:
            out.append([p, draw(st.integers(1, 3)), draw(st.integers(0, 1))])
    return out


BREAKS = ['token-deleted', 'brace-dropped', 'unknown-keyword', 'out-of-range', 'raises', 'truncated', 'missing', 'directory', 'trailing']


@st.composite
def cases(draw):
    n_old = draw(st.sampled_from([1, 1, 2]))
    old = [{'peer': i, 'hold': 30, 'routes': draw(route_set())} for i in range(n_old)]
    new = []
    for nb in old:
        if n_old == 2 and nb['peer'] == 1 and draw(st.integers(0, 3)) == 0:
            continue  # neighbor removed
        new.append({'peer': nb['peer'], 'hold': draw(st.sampled_from([30, 30, 30, 45])), 'routes': draw(evolve(nb['routes']))})
    if n_old == 1 and draw(st.integers(0, 3)) == 0:
        new.append({'peer': 1, 'hold': 30, 'routes': draw(route_set())})
    if draw(st.integers(0, 3)) == 0:
        # the reload adds an address family to an existing neighbor (or takes one away): the old definition has IPv4 unicast only
        which = draw(st.sampled_from(['added', 'added', 'removed']))
        for side in (old, new) if which == 'added' else (new, old):
            side[0]['v4only'] = side is (old if which == 'added' else new)
        for nb in (old[0], new[0]):
            if nb.get('v4only'):
                nb['routes'] = [r for r in nb['routes'] if ':' not in PREFIXES[r[0]]]
        if which == 'added' and not any(':' in PREFIXES[r[0]] for r in new[0]['routes']):
            new[0]['routes'].append([4, draw(st.integers(1, 3)), draw(st.integers(0, 1))])
    api = [list(a) for a in draw(st.lists(st.tuples(st.integers(0, 2), st.integers(1, 3)), max_size=3, unique_by=lambda a: a[0]))]
    ribout = draw(st.sampled_from([True, True, False]))
    if not ribout:
        # a neighbor told to keep no Adj-RIB-Out has nothing to send again on a new session (that is what the option means):
        # only the path that keeps the session (neighbor definition unchanged) is in the domain for it
        for nb in new:
            nb['hold'] = 30
        for nb in old + new:
            nb.pop('v4only', None)
    session_up = draw(st.sampled_from([True, True, False])) if ribout else True
    no_process = draw(st.integers(0, 4)) == 0
    if no_process:
        # the running configuration defines no API process at all; the file offered at reload does
        api = []
    return {
        'no_process': no_process,
        'old': old,
        'new': new,
        'break': draw(st.sampled_from([None, None, None] + BREAKS)),
        'break_at': draw(st.integers(0, 10000)),
        'session_up': session_up,
        'api': api,
        'via': 'signal' if no_process else draw(st.sampled_from(['signal', 'signal', 'api'])),
        'then_valid_reload': draw(st.booleans()),
        'ribout': ribout,
        'readd': draw(route_set()) if (n_old == 2 and len(new) == 1) else None,
        'mid': draw(evolve(old[0]['routes'])) if (session_up and draw(st.integers(0, 2)) == 0 and not any('v4only' in nb for nb in old + new)) else None,
        'mid_gap': draw(st.sampled_from([-1.0, -1.0, 0.0, 0.03, 0.3, 2.0])),
        'mid_hold': draw(st.sampled_from([30, 30, 45])) if ribout else 30,  # without Adj-RIB-Out only the path that keeps the session is in the domain
        'pre_failed': [draw(st.sampled_from(['token-deleted', 'unknown-keyword', 'raises', 'truncated', 'brace-dropped', 'trailing', 'trailing'])), draw(st.integers(0, 10000)), draw(st.sampled_from([0.0, 0.3, 2.0]))] if draw(st.integers(0, 3)) == 0 else None,
    }


API_PREFIX = ['80.0.0.0/24', '80.0.1.0/24', '80.0.2.0/24']


def broken(text: str, kind: str, at: int) -> str | None:
    lines = text.split('\n')
    if kind == 'token-deleted':
        idx = [i for i, ln in enumerate(lines) if ln.strip().endswith(';')]
        i = idx[at % len(idx)]
        lines[i] = lines[i].rstrip()[:-1]
        return '\n'.join(lines)
    if kind == 'brace-dropped':
        idx = [i for i, ln in enumerate(lines) if ln.strip() == '}']
        del lines[idx[at % len(idx)]]
        return '\n'.join(lines)
    if kind == 'unknown-keyword':
        idx = [i for i, ln in enumerate(lines) if ln.strip().startswith('hold-time')]
        lines.insert(idx[at % len(idx)], '  frobnicate true;')
        return '\n'.join(lines)
    if kind == 'out-of-range':
        idx = [i for i, ln in enumerate(lines) if ln.strip().startswith('hold-time')]
        lines[idx[at % len(idx)]] = ['  hold-time 70000;', '  hold-time 1;', '  peer-as 99999999999;'][at % 3]
        return '\n'.join(lines)
    if kind == 'raises':
        idx = [i for i, ln in enumerate(lines) if ln.strip() == 'static {']
        bad = ['    route 70.9.0.0/24 next-hop 1.2.3.4 originator-id 1.2.3.999;', '    route 70.9.0.0/24 next-hop 1.2.3.4 community 70000:1;', '    route 70.9.0.0/24 next-hop 1.2.3.999;', '    route 70.9.0.0/24 next-hop 1.2.3.4 extended-community 0x0002;'][at % 4]
        lines.insert(idx[at % len(idx)] + 1, bad)
        return '\n'.join(lines)
    if kind == 'trailing':
        # every neighbor is defined before the parser meets the error
        return text.rstrip('\n') + '\n' + ['frobnicate true;', 'neighbor 127.0.0.9 {\n  frobnicate true;\n}', 'neighbor 127.0.0.9 {\n  router-id 1.2.3.4;', 'process again {\n  run;\n}'][at % 4] + '\n'
    if kind == 'truncated':
        cut = 1 + at % max(1, len(text) - 2)
        return text[:cut]
    return None


def check(case: dict) -> dict:
    out: dict = {}
    tmp = os.path.join(os.environ.get('VERIF_TMP') or os.path.join(os.path.dirname(os.path.dirname(os.path.abspath(__file__))), '.work'), f'c17-{os.getpid()}')
    os.makedirs(tmp, exist_ok=True)
    path = os.path.join(tmp, 'exabgp.conf')
    ribout = case.get('ribout', True)
    old_text = render(case['old'], ribout, process=not case.get('no_process'))
    new_text = render(case['new'], ribout)
    with open(path, 'w') as fh:
        fh.write(old_text)

    async def bring_up(hn, runner, key_ip, timeout=40.0):
        """establish (or re-establish) the session of the neighbor with this address; returns the Remote"""
        waited = 0.0
        while waited < timeout:
            for r in reversed(hn.remotes):
                if r.closed_at is None and r.local_closed_at is None and key_ip in r.key and not getattr(r, 'used', False):
                    r.used = True
                    rid = 0x0A000009 if key_ip.endswith('.2') else 0x0A00000A
                    from vlib.refwire import build

                    body = build.open_with_caps(65001, 30, rid, [build.cap_mp(1, 1), build.cap_mp(2, 1), build.cap_asn4(65001), build.cap_refresh()])
                    if await nh.establish(r, body, timeout=8.0):
                        return r
            await hn.sleep(0.5)
            waited += 0.5
        return None

    def peer_table(r):
        t = codec.PeerTable(asn4=True)
        for _, ty, body in r.messages:
            if ty == 2:
                t.apply(body)
        res = {}
        for k, v in t.table.items():
            res[k[3]] = (v['attrs'].get(4), v['nexthop'])
        return res

    async def main(loop):
        with nh.Harness(loop, config_files=[path], env={'bgp.openwait': 10}) as hn:
            if not hn.reload_ok:
                raise RuntimeError(f'old configuration refused: {hn.reactor.configuration.error}\n{old_text}')
            runner = sc.Runner(hn)
            runner.policy = case['session_up']
            results = []
            real_reload = hn.reactor.reload

            during: list = []

            def spy_reload():
                r = real_reload()
                results.append(bool(r))
                if during:
                    # the next SIGUSR1 arrived while this file was being read (the handler is re-armed before the reload starts)
                    with open(path, 'w') as fh:
                        fh.write(during.pop())
                    hn.signal_reload()
                return r

            hn.reactor.reload = spy_reload
            hn.start()
            await hn.sleep(0.3)
            sessions = {}
            if case['session_up']:
                for nb in case['old']:
                    ip = PEERS[nb['peer']]['ip']
                    r = await bring_up(hn, runner, ip)
                    if r is None:
                        raise Inconclusive('initial establishment did not complete')
                    sessions[ip] = r
                await hn.sleep(1.0)
            # API routes
            for p, med in case['api']:
                hn.api_write(f'peer * announce route {API_PREFIX[p]} next-hop 1.2.3.4 med {med}\n'.encode())
                await hn.sleep(0.1)
            await hn.sleep(1.0)
            hn.api_read()
            before_neighbors = {k: sorted(str(r) for r in n.routes) for k, n in hn.reactor.configuration.neighbors.items()}
            before_msgs = {ip: len(r.messages) for ip, r in sessions.items()}
            before_fsm = {k: p.fsm.name() for k, p in hn.reactor._peers.items()}
            before_processes = (sorted(hn.reactor.configuration.processes), len(nh.FakePopen.instances))
            # the new file
            kind = case['break']
            if kind == 'missing':
                os.remove(path)
            elif kind == 'directory':
                os.remove(path)
                os.mkdir(path)
            else:
                text = new_text if kind is None else broken(new_text if case['new'] else old_text, kind, case['break_at'])
                with open(path, 'w') as fh:
                    fh.write(text)
            if case.get('pre_failed') is not None and kind is None:
                # a reload that fails (the file defines the neighbors, then breaks) comes before the one judged
                bad = broken(old_text, case['pre_failed'][0], case['pre_failed'][1])
                if bad is not None:
                    with open(path, 'w') as fh:
                        fh.write(bad)
                    n_results = len(results)
                    hn.signal_reload()
                    for _ in range(700):
                        if len(results) > n_results:
                            break
                        await hn.sleep(0.01)
                    out['pre_failed'] = (len(results) > n_results and not results[n_results])
                    if len(results) > n_results and results[n_results]:
                        raise Inconclusive('the file meant to fail was accepted (a truncation that leaves a valid file): not the history asked for')
                    await hn.sleep(case['pre_failed'][2])
                    with open(path, 'w') as fh:
                        fh.write(text)
            if case.get('mid') is not None and kind is None:
                # two reloads one behind the other: a first valid file (same neighbors, other routes) is loaded, and the file judged
                # follows `mid_gap` seconds after that reload was executed (0: before the peers have looked at it)
                mid = [dict(nb, routes=case['mid'], hold=case.get('mid_hold', nb['hold'])) if i == 0 else nb for i, nb in enumerate(case['old'])]
                with open(path, 'w') as fh:
                    fh.write(render(mid, ribout, process=not case.get('no_process')))
                n_results = len(results)
                if case.get('mid_gap', 0.0) < 0:
                    during.append(text)
                hn.signal_reload()
                for _ in range(700):
                    if len(results) > n_results:
                        break
                    await hn.sleep(0.01)
                if len(results) == n_results or not results[n_results]:
                    raise Inconclusive('the first of the two reloads was not executed')
                if case.get('mid_gap', 0.0) >= 0:
                    await hn.sleep(case.get('mid_gap', 0.0))
                    with open(path, 'w') as fh:
                        fh.write(text)
                n_results += 1
            else:
                n_results = len(results)
            if case.get('mid') is not None and kind is None and case.get('mid_gap', 0.0) < 0:
                pass
            elif case['via'] == 'signal':
                hn.signal_reload()
            else:
                hn.api_write(b'daemon reload\n')
            await hn.sleep(2.0)
            hn.api_read()
            if len(results) == n_results and case.get('mid') is not None and kind is None:
                # a reload request that arrives while the updates of the previous one are still pending is dropped by the reactor
                # (upstream behaviour, outside the statement): the operator asks again
                out['asked_again'] = True
                hn.signal_reload()
                await hn.sleep(2.0)
            if len(results) == n_results:
                # reload waits for pending adj-rib-out: give it time
                await hn.sleep(5.0)
            if len(results) == n_results:
                raise Inconclusive('the reload was not executed')
            ok = results[-1]
            out['reload_ok'] = ok
            out['kind'] = kind
            if ok:
                # let sessions come up for every neighbor of the new configuration and drain
                runner.policy = True
                tables = {}
                for nb in case['new']:
                    ip = PEERS[nb['peer']]['ip']
                    r = sessions.get(ip)
                    if r is None or r.closed_at is not None or r.local_closed_at is not None:
                        out.setdefault('reestablished', []).append(ip)
                        r = await bring_up(hn, runner, ip)
                        if r is None:
                            raise Inconclusive(f'{ip} did not (re-)establish after the reload')
                    await hn.sleep(3.0)
                    if r.closed_at is not None:
                        # torn down for re-establishment after we looked: take the next session
                        out.setdefault('reestablished', []).append(ip)
                        r = await bring_up(hn, runner, ip)
                        if r is None:
                            raise Inconclusive(f'{ip} did not re-establish after the reload')
                        await hn.sleep(3.0)
                    tables[ip] = peer_table(r)
                out['tables'] = tables
                removed = [PEERS[nb['peer']]['ip'] for nb in case['old'] if nb['peer'] not in [x['peer'] for x in case['new']]]
                out['removed_closed'] = {ip: (sessions[ip].closed_at is not None) for ip in removed if ip in sessions}
                gone = [nb for nb in case['old'] if nb['peer'] not in [x['peer'] for x in case['new']]]
                if gone and case.get('readd') is not None and kind is None:
                    # a later reload configures the removed neighbor again, with other routes: what it held before it was removed
                    # (whether its session was up or down then) must not come back
                    again = {'peer': gone[0]['peer'], 'hold': 30, 'routes': case['readd']}
                    with open(path, 'w') as fh:
                        fh.write(render(case['new'] + [again], ribout))
                    n_results = len(results)
                    hn.signal_reload()
                    await hn.sleep(3.0)
                    if len(results) == n_results:
                        await hn.sleep(5.0)
                    if len(results) > n_results and results[-1]:
                        r = await bring_up(hn, runner, PEERS[again['peer']]['ip'])
                        if r is not None:
                            await hn.sleep(3.0)
                            out['readd'] = (again, peer_table(r))
            else:
                after_neighbors = {k: sorted(str(r) for r in n.routes) for k, n in hn.reactor.configuration.neighbors.items()}
                out['neighbors_same'] = after_neighbors == before_neighbors
                out['neighbors_diff'] = (sorted(before_neighbors), sorted(after_neighbors))
                out['fsm_same'] = {k: p.fsm.name() for k, p in hn.reactor._peers.items()} == before_fsm
                out['fsm'] = (before_fsm, {k: p.fsm.name() for k, p in hn.reactor._peers.items()})
                out['processes'] = (before_processes, (sorted(hn.reactor.configuration.processes), len(nh.FakePopen.instances)))
                out['extra_bytes'] = {ip: [(ty, b.hex()[:60]) for _, ty, b in r.messages[before_msgs[ip] :] if ty != 4] for ip, r in sessions.items()}
                # the API keeps working
                if case.get('no_process'):
                    await hn.sleep(1.5)
                    out['processes'] = (before_processes, (sorted(hn.reactor.configuration.processes), len(nh.FakePopen.instances)))
                    out['api_reply'] = ['done']
                    out['api_sent'] = {}
                else:
                    n_lines = len(hn.api_lines)
                    hn.api_write(b'peer * announce route 81.0.0.0/24 next-hop 1.2.3.4 med 7\n')
                    await hn.sleep(1.5)
                    hn.api_read()
                    out['api_reply'] = [ln for _, ln in hn.api_lines[n_lines:]]
                    out['api_sent'] = {ip: '81.0.0.0/24' in peer_table(r) for ip, r in sessions.items() if r.closed_at is None}
                if case['then_valid_reload']:
                    if kind == 'directory':
                        os.rmdir(path)
                    with open(path, 'w') as fh:
                        fh.write(new_text)
                    n_results = len(results)
                    hn.signal_reload()
                    await hn.sleep(3.0)
                    out['second_reload'] = results[-1] if len(results) > n_results else None

    try:
        vloop.run(main)
    except vloop.Deadlock as exc:
        raise Violation('reactor:stalls', str(exc)) from None
    finally:
        shutil.rmtree(tmp, ignore_errors=True)
        try:
            os.rmdir(os.path.dirname(tmp))
        except OSError:
            pass

    kind = case['break']
    fam_change = any(bool(o.get('v4only')) != bool(n.get('v4only')) for o in case['old'] for n in case['new'] if o['peer'] == n['peer'])
    classes = ([f'two-reloads:gap-{case.get("mid_gap", 0.0)}' + (':asked-again' if out.get('asked_again') else '')] if case.get('mid') is not None and kind is None else []) + [f'no-process-configured:{bool(case.get("no_process"))}', f'new:{kind or "valid"}', f'session-up:{case["session_up"]}', f'family-set-changed:{fam_change}', f'via:{case["via"]}', f'adj-rib-out:{case.get("ribout", True)}']
    if out['reload_ok']:
        if kind in ('missing', 'directory'):
            raise Violation(f'reload:accepted-{kind}-file', 'reload reported success')
        if kind is not None:
            # a broken variant that still parses (e.g. truncation on a section boundary) is a valid other configuration: nothing to compare
            return {'nontrivial': False, 'classes': classes + ['broken-but-parses']}
        for nb in case['new']:
            ip = PEERS[nb['peer']]['ip']
            want = table_of_config(nb)
            if any(o['peer'] == nb['peer'] for o in case['old']):
                # API routes were announced to the neighbors that existed at the time
                for p, med in case['api']:
                    want[API_PREFIX[p]] = (med, '1.2.3.4')
            got = out['tables'][ip]
            if not case.get('ribout', True) and ip in out.get('reestablished', []):
                # without an Adj-RIB-Out nothing remembers an API route over a new session: holding it or not are both right
                for k in API_PREFIX:
                    if k in want and k not in got:
                        del want[k]
            if got != want:
                missing = sorted(set(want) - set(got))
                extra = sorted(set(got) - set(want))
                wrong = sorted(k for k in set(want) & set(got) if want[k] != got[k])
                if missing and all(m in API_PREFIX for m in missing) and not extra and not wrong:
                    what = 'api-route-lost'
                elif missing:
                    what = 'new-route-not-announced'
                elif extra:
                    what = 'removed-route-not-withdrawn'
                else:
                    what = 'changed-route-not-reannounced'
                raise Violation(f'reload:{what}', f'{ip}: missing {missing} extra {extra} wrong {[(k, got[k], want[k]) for k in wrong]}; session_up={case["session_up"]}')
        for ip, closed in out.get('removed_closed', {}).items():
            if not closed:
                raise Violation('reload:removed-neighbor-session-kept', ip)
        if 'readd' in out:
            again, got = out['readd']
            want = table_of_config(again)
            got = {k: v for k, v in got.items() if k not in API_PREFIX}  # routes announced through the API before the removal: not judged
            if got != want:
                raise Violation('reload:removed-then-configured-again:routes-of-the-old-definition', f'{PEERS[again["peer"]]["ip"]} was removed and configured again with {sorted(want)}: it was sent {sorted(got)}; session_up={case["session_up"]}')
            classes.append('neighbor-removed-then-configured-again')
        changed = False
        for nb in case['new']:
            old = next((o for o in case['old'] if o['peer'] == nb['peer']), None)
            if old:
                om = {r[0]: r for r in old['routes']}
                changed = changed or any(r[0] in om and om[r[0]] != r for r in nb['routes'])
        return {'nontrivial': changed or not case['session_up'] or case.get('mid') is not None, 'classes': classes + (['same-prefix-change'] if changed else []) + (['failed-reload-before'] if out.get('pre_failed') else [])}
    # ---- failed reload: nothing may have changed
    classes.append('reload-failed')
    if kind is None:
        raise Violation('reload:valid-configuration-refused', 'the new file is well-formed')
    if not out['neighbors_same']:
        raise Violation(f'reload-failed:neighbors-changed:{kind}', f'before {out["neighbors_diff"][0]} after {out["neighbors_diff"][1]}')
    if out['processes'][0] != out['processes'][1]:
        raise Violation(f'reload-failed:api-processes-changed:{kind}', f'configured / spawned before {out["processes"][0]} after {out["processes"][1]}')
    if not out['fsm_same']:
        raise Violation(f'reload-failed:session-state-changed:{kind}', str(out['fsm']))
    for ip, extra in out['extra_bytes'].items():
        if extra:
            raise Violation(f'reload-failed:bytes-on-the-wire:{kind}', f'{ip}: {extra[:3]}')
    replies = [r.strip() for r in out['api_reply']]
    if 'done' not in replies:
        raise Violation(f'reload-failed:api-broken:{kind}', f'announce after the failed reload answered {replies}')
    for ip, sent in out['api_sent'].items():
        if not sent:
            raise Violation(f'reload-failed:api-announce-not-sent:{kind}', ip)
    if case['then_valid_reload'] and out.get('second_reload') is None:
        # the request was not executed in the time given (the reactor defers a reload while updates are pending)
        classes.append('second-reload-not-executed')
    elif case['then_valid_reload'] and out.get('second_reload') is not True:
        raise Violation(f'reload-failed:later-valid-reload-fails:{kind}', str(out.get('second_reload')))
    return {'nontrivial': True, 'classes': classes}


def fixed_cases() -> list:
    """a neighbor removed by a reload (session up, and session down) and configured again by the next one with other routes"""
    out = []
    for up in (True, False):
        out.append({'no_process': False, 'old': [{'peer': 0, 'hold': 30, 'routes': [[0, 1, 0]]}, {'peer': 1, 'hold': 30, 'routes': [[0, 1, 0], [1, 2, 0]]}], 'new': [{'peer': 0, 'hold': 30, 'routes': [[0, 1, 0]]}], 'break': None, 'break_at': 0, 'session_up': up, 'api': [], 'via': 'signal', 'then_valid_reload': False, 'ribout': True, 'readd': [[2, 3, 0]]})
    # a failed reload, then the reload that removes a neighbor, then one that configures it again
    for up in (True, False):
        for kind, at in (('trailing', 0), ('trailing', 1), ('trailing', 2), ('raises', 1), ('token-deleted', 9999)):
            out.append({'no_process': False, 'old': [{'peer': 0, 'hold': 30, 'routes': [[0, 1, 0]]}, {'peer': 1, 'hold': 30, 'routes': [[0, 1, 0], [1, 2, 0]]}], 'new': [{'peer': 0, 'hold': 30, 'routes': [[0, 1, 0]]}], 'break': None, 'break_at': 0, 'session_up': up, 'api': [], 'via': 'signal', 'then_valid_reload': False, 'ribout': True, 'readd': [[2, 3, 0]], 'pre_failed': [kind, at, 0.3]})
    # the first of two reloads changes a session parameter (the session is taken down for it) and removes a route, the second
    # comes while the neighbor is down
    for gap in (0.3, 2.0):
        for new_routes in ([[1, 1, 0]], [[1, 1, 0], [2, 2, 0]]):
            out.append({'no_process': False, 'old': [{'peer': 0, 'hold': 30, 'routes': [[0, 1, 0], [1, 1, 0]]}], 'new': [{'peer': 0, 'hold': 45, 'routes': new_routes}], 'break': None, 'break_at': 0, 'session_up': True, 'api': [], 'via': 'signal', 'then_valid_reload': False, 'ribout': True, 'readd': None, 'mid': [[1, 1, 0]], 'mid_gap': gap, 'mid_hold': 45})
    # two reloads one behind the other (old -> mid -> new): the first removes a route and adds one, the second changes nothing more / puts
    # the first state back; what the peer holds at the end is the last file
    for gap in (-1.0, 0.0, 0.3):
        for up in (True,):
            for new_routes in ([[1, 1, 0]], [[1, 1, 0], [2, 2, 0]]):
                # the first of the two only removes a route (nothing of it is pending when the second arrives)
                out.append({'no_process': False, 'old': [{'peer': 0, 'hold': 30, 'routes': [[0, 1, 0], [1, 1, 0]]}], 'new': [{'peer': 0, 'hold': 30, 'routes': new_routes}], 'break': None, 'break_at': 0, 'session_up': up, 'api': [], 'via': 'signal', 'then_valid_reload': False, 'ribout': True, 'readd': None, 'mid': [[1, 1, 0]], 'mid_gap': gap})
            for new_routes in ([[1, 1, 0], [2, 2, 0]], [[0, 1, 0], [1, 1, 0]]):
                out.append({'no_process': False, 'old': [{'peer': 0, 'hold': 30, 'routes': [[0, 1, 0], [1, 1, 0]]}], 'new': [{'peer': 0, 'hold': 30, 'routes': new_routes}], 'break': None, 'break_at': 0, 'session_up': up, 'api': [], 'via': 'signal', 'then_valid_reload': False, 'ribout': True, 'readd': None, 'mid': [[1, 1, 0], [2, 2, 0]], 'mid_gap': gap})
    return out


ENGINES = [Engine('reloads', cases, check, quick=120, thorough=5000, batch=100, thorough_s=1200.0, fixed_cases=fixed_cases)]
