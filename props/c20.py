"""C20 - healthcheck announces and withdraws with rise/fall hysteresis, and every line it writes is a valid API command

The real `healthcheck.loop(options)` is run in-process. `options` come out of the real `healthcheck.parse()` from a generated
argv. For the duration of one case the names loop() reaches through the healthcheck module namespace (`sys`, `time`, `os`,
`signal`, `subprocess`, `check`, `setup_ips`, `remove_ips`) are replaced by scripted stand-ins; nothing sleeps, forks or touches
an interface. The lines written on stdout are then
  (1) folded into "what is announced after step t" and compared with trace predicates on the scripted results, and
  (2) handed to the daemon side (`API.process` -> dispatch_v6 -> v6_announce/v6_withdraw -> announce_route/withdraw_route ->
      `API.api_route`) with a recording reactor, and the parsed Route is compared with the configured values for that state.

Sensitivity runs: with VERIF_C20_NO_SEVERAL=1 in the environment no case has several --neighbor values (that selector is refused
by the daemon on the unchanged tree, which would make every mutant look caught).
"""

from __future__ import annotations

import ipaddress
import logging
import os
import re
import sys as real_sys

from hypothesis import strategies as st

from vlib import exa  # noqa: F401  (puts the code under test on the path and checks where exabgp comes from)
from vlib.runner import Engine, Violation, exception_signature

PROPERTY = 'C20'
RULE = (
    'argv drawn option by option and read by the real healthcheck.parse(): rise/fall 1..5, --withdraw-on-down, --debounce, up/down/disabled metric, '
    '--increase, community / extended / large / disabled community, --as-path and per-state as-paths, next hop (address or self), local preference, '
    'path-id, 1-4 IPv4/IPv6 addresses or networks, --neighbor (none, *, one, several), --no-ack, --disable, --dynamic-ip-setup, execute hooks; '
    'a script of <= 40 (check result, disable file present) steps built from runs whose lengths sit around rise/fall, ended by KeyboardInterrupt in the sleep, '
    'by the SIGTERM handler (during the sleep, the check command or an ack read) or by --interval 0. '
    'Non-trivial = the announced content changes at least twice after the first announcement and the script holds a flap shorter than rise/fall '
    '(a run of contrary results too short to change the announcement, with rise or fall > 1)'
)
ASSUMPTIONS = [
    'what is announced after a step = the text of the last complete group of lines; two states that render to the same text are the same announcement',
    'a switch is demanded both ways: never earlier than rise/fall consecutive results, and not later than rise/fall consecutive results taken in steps where the disable file is absent '
    '(the step that follows the removal of the disable file is not counted: its result is discarded by design)',
    'after the disable file disappears the DISABLED announcement may stay until the hysteresis has finished: nothing is demanded there',
    '--interval 0 leaves without withdrawing (documented: "exit after first announcement"); withdrawal on exit is demanded for KeyboardInterrupt during the sleep and for SIGTERM',
    'KeyboardInterrupt outside the sleep is not part of the domain',
    'for the DOWN state both --community and --disabled-community are accepted (help text says "when disabled", code uses it for DOWN as well)',
    'path-id 0 may be rendered as no path-information at all',
    'option values are ones the route parser accepts (ranges respected, next hop of the family of the advertised addresses); acceptance of bad values is C18',
    'the daemon-side view is exabgp\'s own parser (API.process with a recording reactor); members of community attributes are compared as sets',
    're-announcement on every round without --debounce, the sleep intervals, ack reads, execute hooks and setup_ips/remove_ips calls are not demanded',
]

DISABLE_PATH = '/nonexistent/verif-c20/disable'
PEERS = ['127.0.0.2', '127.0.0.3', '10.255.0.1', '2001:db8::2', '2001:db8::3']
V4_IPS = ['192.0.2.1', '192.0.2.2', '198.51.100.7', '203.0.113.254', '10.0.0.0/24', '100.64.0.0/10']
V6_IPS = ['2001:db8::1', '2001:db8:1::53', 'fd00::a:b', '2001:db8:ff00::/40']
# --deaggregate-networks announces every address of a network: only small ones are given then
SMALL_V4_NETS = ['192.0.2.8/30', '198.51.100.64/31', '203.0.113.5/32']
SMALL_V6_NETS = ['2001:db8:2::10/126', '2001:db8:3::1/128']
COMMUNITIES = ['65000:100', '64512:1', '0:0', '65000:65535', 'no-export', 'no-advertise']
EXT_COMMUNITIES = ['target:65000:1', 'origin:1.2.3.4:5', 'target:192.0.2.1:5', 'target:4200000000:7']
LARGE_COMMUNITIES = ['65000:1:2', '4200000000:0:4294967295', '1:1:1']
AS_PATHS = [[65001], [65001, 65002], [64512, 64512, 64512], [4200000000], [1, 23456, 65535]]
MAX32 = 0xFFFFFFFF


# ---------------------------------------------------------------------------- generation


def _subset(draw, pool, max_size=3):
    return draw(st.lists(st.sampled_from(pool), min_size=1, max_size=max_size, unique=True))


@st.composite
def option_sets(draw):
    family = draw(st.sampled_from(['v4', 'v6', 'mixed', 'mixed']))
    pool = {'v4': V4_IPS, 'v6': V6_IPS, 'mixed': V4_IPS + V6_IPS}[family]
    ips = draw(st.lists(st.sampled_from(pool), min_size=1, max_size=4, unique=True))
    small = {'v4': SMALL_V4_NETS, 'v6': SMALL_V6_NETS, 'mixed': SMALL_V4_NETS + SMALL_V6_NETS}[family]
    small_nets = draw(st.lists(st.sampled_from(small), min_size=1, max_size=2, unique=True))
    if family == 'mixed':
        next_hop = None
    else:
        next_hop = draw(st.sampled_from([None, '192.0.2.254' if family == 'v4' else '2001:db8::ffff']))
    increase = draw(st.sampled_from([1, 1, 0, 10, 1000]))
    room = MAX32 - 8 * increase  # at most nine addresses are announced (two small networks split into their addresses)
    metric = st.one_of(st.sampled_from([100, 1000, 500, 0, 1, room]), st.integers(0, 5000))
    neighbors_kind = draw(st.sampled_from(['none', 'none', 'star', 'one', 'one', 'several', 'several']))
    if neighbors_kind == 'several' and os.environ.get('VERIF_C20_NO_SEVERAL'):
        # sensitivity runs: keep the (refused) multi-neighbor selector out, so that a CAUGHT is the mutation's doing
        neighbors_kind = 'one'
    if neighbors_kind == 'none':
        neighbors = []
    elif neighbors_kind == 'star':
        neighbors = draw(st.sampled_from([['*'], ['*'], [PEERS[0], '*']]))
    elif neighbors_kind == 'one':
        neighbors = [draw(st.sampled_from(PEERS))]
    else:
        neighbors = draw(st.lists(st.sampled_from(PEERS), min_size=2, max_size=4, unique=True))
    maybe = lambda s: draw(st.one_of(st.none(), st.none(), s))  # noqa: E731
    return {
        'rise': draw(st.integers(1, 5)),
        'fall': draw(st.integers(1, 5)),
        'withdraw_on_down': draw(st.sampled_from([False, False, True])),
        'debounce': draw(st.sampled_from([False, False, True])),
        'up_metric': maybe(metric),
        'down_metric': maybe(metric),
        'disabled_metric': maybe(metric),
        'increase': increase,
        'community': maybe(st.lists(st.sampled_from(COMMUNITIES), min_size=1, max_size=3, unique=True)),
        'disabled_community': maybe(st.lists(st.sampled_from(COMMUNITIES), min_size=1, max_size=2, unique=True)),
        'extended_community': maybe(st.lists(st.sampled_from(EXT_COMMUNITIES), min_size=1, max_size=2, unique=True)),
        'large_community': maybe(st.lists(st.sampled_from(LARGE_COMMUNITIES), min_size=1, max_size=2, unique=True)),
        'as_path': maybe(st.sampled_from(AS_PATHS)),
        'up_as_path': maybe(st.sampled_from(AS_PATHS)),
        'down_as_path': maybe(st.sampled_from(AS_PATHS)),
        'disabled_as_path': maybe(st.sampled_from(AS_PATHS)),
        'next_hop': next_hop,
        'local_preference': maybe(st.sampled_from([0, 100, 200, MAX32])),
        'path_id': maybe(st.sampled_from([1, 7, 65536, MAX32, 0])),
        'ips': ips,
        'small_nets': small_nets,
        'neighbors': neighbors,
        'no_ack': draw(st.sampled_from([False, False, True])),
        'disable': draw(st.sampled_from([True, True, True, False])),
        'dynamic': draw(st.sampled_from([False, False, False, True])),
        'no_ip_setup': draw(st.sampled_from([False, False, True])),
        'execute': draw(st.sampled_from([False, False, False, True])),
        'fast': draw(st.sampled_from([1, 0.25])),
        # handled by main() between parse() and loop(): the list is rotated, networks are split into their addresses
        'start_ip': draw(st.sampled_from([0, 0, 0, 1, 2, 3, 7])),
        'deaggregate': draw(st.sampled_from([False, False, False, False, True])),
    }


@st.composite
def scripts(draw, opts):
    """runs of equal results whose lengths sit around rise / fall; the disable file comes and goes in runs as well"""
    rise, fall = opts['rise'], opts['fall']
    steps: list[list[bool]] = []
    value = draw(st.booleans())
    nruns = draw(st.integers(1, 12))
    for _ in range(nruns):
        bound = rise if value else fall
        length = draw(st.sampled_from([1, 1, max(1, bound - 1), bound, bound, bound + 1, bound + 2, 2 * bound]))
        disabled = opts['disable'] and draw(st.integers(0, 7)) == 0
        for _ in range(length):
            steps.append([value if not disabled else draw(st.booleans()), disabled])
        if not disabled or draw(st.booleans()):
            value = not value
    return steps[:40]


@st.composite
def cases(draw):
    opts = draw(option_sets())
    script = draw(scripts(opts))
    kind = draw(st.sampled_from(['interrupt', 'interrupt', 'sigterm', 'sigterm', 'interval0']))
    end = {'kind': kind}
    if kind == 'sigterm':
        end['where'] = draw(st.sampled_from(['sleep', 'sleep', 'check', 'ack']))
        end['ack_index'] = draw(st.integers(0, 3))
    return {'options': opts, 'script': script, 'end': end}


def given_ips(o: dict) -> list[str]:
    """what follows --ip on the command line"""
    return list(o['small_nets']) if o.get('deaggregate') else list(o['ips'])


def announced_ips(o: dict) -> list[str]:
    """the addresses the helper is asked to announce, in its order: --deaggregate-networks splits every network into its addresses,
    --start-ip N makes the N-th of the list the first (healthcheck --help: 'index of the first IP in the list of IP addresses')"""
    nets = [ipaddress.ip_network(i) for i in given_ips(o)]
    if o.get('deaggregate'):
        nets = [ipaddress.ip_network(a) for n in nets for a in n]
    k = (o.get('start_ip') or 0) % len(nets)
    return [str(n) for n in nets[k:] + nets[:k]]


def argv_for(o: dict, end: dict) -> list[str]:
    argv = ['--no-syslog', '--cmd', 'verif-scripted-check', '--rise', str(o['rise']), '--fall', str(o['fall'])]
    argv += ['--fast-interval', str(o['fast'])]
    if end['kind'] == 'interval0':
        argv += ['--interval', '0']
    if o['withdraw_on_down']:
        argv.append('--withdraw-on-down')
    if o['debounce']:
        argv.append('--debounce')
    for key, flag in (('up_metric', '--up-metric'), ('down_metric', '--down-metric'), ('disabled_metric', '--disabled-metric')):
        if o[key] is not None:
            argv += [flag, str(o[key])]
    argv += ['--increase', str(o['increase'])]
    for key, flag in (
        ('community', '--community'),
        ('disabled_community', '--disabled-community'),
        ('extended_community', '--extended-community'),
        ('large_community', '--large-community'),
    ):
        if o[key] is not None:
            argv += [flag, ' '.join(o[key])]
    for key, flag in (('as_path', '--as-path'), ('up_as_path', '--up-as-path'), ('down_as_path', '--down-as-path'), ('disabled_as_path', '--disabled-as-path')):
        if o[key] is not None:
            argv += [flag, ' '.join(str(a) for a in o[key])]
    if o['next_hop'] is not None:
        argv += ['--next-hop', o['next_hop']]
    if o['local_preference'] is not None:
        argv += ['--local-preference', str(o['local_preference'])]
    if o['path_id'] is not None:
        argv += ['--path-id', str(o['path_id'])]
    for ip in given_ips(o):
        argv += ['--ip', ip]
    if o.get('start_ip'):
        argv += ['--start-ip', str(o['start_ip'])]
    if o.get('deaggregate'):
        argv.append('--deaggregate-networks')
    for n in o['neighbors']:
        argv += ['--neighbor', n]
    if o['no_ack']:
        argv.append('--no-ack')
    if o['disable']:
        argv += ['--disable', DISABLE_PATH]
    if o['dynamic']:
        argv.append('--dynamic-ip-setup')
    if o['no_ip_setup']:
        argv.append('--no-ip-setup')
    if o['execute']:
        argv += ['--execute', 'verif-any', '--up-execute', 'verif-up', '--down-execute', 'verif-down', '--disabled-execute', 'verif-disabled']
    return argv


# ---------------------------------------------------------------------------- running the real loop


class Shim:
    """a module look-alike: the listed names are ours, everything else is the real module's"""

    def __init__(self, real, **over):
        self.__dict__['_real'] = real
        self.__dict__.update(over)

    def __getattr__(self, name):
        return getattr(self.__dict__['_real'], name)


class Run:
    def __init__(self, script: list, end: dict) -> None:
        self.script = script
        self.T = len(script)
        self.end = end
        self.step = 0
        self.exiting = False
        self.delivered = None  # where the end of the run was delivered: 'sleep' | 'check' | 'ack'
        self.handler = None
        self.lines: list[tuple] = []  # (step | 'exit', text)
        self.pending = ''
        self.ack_reads = 0
        self.acks_in_step = 0
        self.sleeps: list[float] = []
        self.executed: list[tuple] = []
        self.ip_calls: list[str] = []
        self.checks = 0
        self.calls = 0

    # -- budget: loop() must come to an end
    def tick(self) -> None:
        self.calls += 1
        if self.calls > 2000:
            raise RuntimeError('harness: healthcheck.loop() keeps running after the end of the script')

    # -- stdout / stdin
    def write(self, text: str) -> int:
        self.pending += text
        while '\n' in self.pending:
            line, self.pending = self.pending.split('\n', 1)
            self.lines.append(('exit' if self.exiting else self.step, line))
        return len(text)

    def flush(self) -> None:
        pass

    def isatty(self) -> bool:
        return False

    def readline(self) -> str:
        self.tick()
        self.ack_reads += 1
        mine = self.acks_in_step
        self.acks_in_step += 1
        e = self.end
        if e['kind'] == 'sigterm' and e.get('where') == 'ack' and not self.exiting and self.step == self.T - 1 and mine == e.get('ack_index', 0):
            self.finish('ack')
        return 'done\n'

    # -- the end of the run
    def finish(self, where: str) -> None:
        self.exiting = True
        self.delivered = where
        if self.end['kind'] == 'sigterm':
            if self.handler is None:
                raise Violation('exit:no-sigterm-handler', 'loop() did not install a SIGTERM handler')
            self.handler(15, None)
            raise Violation('exit:sigterm-handler-returned', 'the SIGTERM handler returned instead of leaving')
        raise KeyboardInterrupt

    # -- collaborators
    def sleep(self, seconds: float) -> None:
        self.tick()
        self.sleeps.append(seconds)
        self.step += 1
        self.acks_in_step = 0
        if self.step >= self.T:
            if self.end['kind'] == 'sigterm' and self.end.get('where') == 'check' and self.step == self.T:
                return  # delivered inside the next check command
            self.finish('sleep')

    def exists(self, path: str) -> bool:
        import os

        if path != DISABLE_PATH:
            return os.path.exists(path)
        self.tick()
        if self.step >= self.T:
            return False
        return bool(self.script[self.step][1])

    def check(self, cmd, timeout) -> bool:
        self.tick()
        if self.step >= self.T:
            if self.end['kind'] != 'sigterm':
                raise RuntimeError('harness: check command run after the end of the script')
            self.finish('check')
        self.checks += 1
        return bool(self.script[self.step][0])

    def signal(self, signum, handler):
        import signal

        if signum == signal.SIGTERM:
            self.handler = handler
        return None

    def call(self, cmd, **kw) -> int:
        self.executed.append((self.step, cmd, (kw.get('env') or {}).get('STATE')))
        return 0

    def forbidden(self, *a, **kw):
        raise RuntimeError('harness: healthcheck tried to start a process')

    def setup_ips(self, *a, **kw) -> None:
        self.ip_calls.append('setup')

    def remove_ips(self, *a, **kw) -> None:
        self.ip_calls.append('remove')


def parse_options(argv: list[str]):
    from exabgp.application import healthcheck as hc

    saved = real_sys.argv
    real_sys.argv = ['healthcheck'] + argv
    try:
        return hc.parse()
    except SystemExit as exc:
        raise RuntimeError(f'harness: argv refused by healthcheck.parse(): {argv} ({exc.code})') from None
    finally:
        real_sys.argv = saved


class _Carry(BaseException):
    """an exception of ours crossing main()'s `except Exception` (which would turn it into exit status 1)"""

    def __init__(self, exc: Exception) -> None:
        BaseException.__init__(self, repr(exc))
        self.exc = exc


def _carried(fn):
    def wrapper(*a, **kw):
        try:
            return fn(*a, **kw)
        except Exception as exc:  # noqa: BLE001 - Violation / harness RuntimeError raised by the scripted collaborators
            raise _Carry(exc) from None

    return wrapper


def run_main(argv: list[str], run: Run) -> tuple[str, object]:
    """the helper's own entry point main() - parse(), the --deaggregate-networks / --start-ip handling, loop() - with the
    collaborators replaced; returns (how it ended, the options loop() was given)"""
    import signal
    import subprocess
    import time

    from exabgp.application import healthcheck as hc

    names = ('sys', 'time', 'os', 'signal', 'subprocess', 'check', 'setup_ips', 'remove_ips', 'setup_logging', 'drop_privileges', 'system_ips', 'loop')
    saved = {n: getattr(hc, n) for n in names}
    log_state = (hc.logger.propagate, hc.logger.level, list(hc.logger.handlers), hc.logger.disabled)
    hc.logger.propagate = False
    hc.logger.handlers = [logging.NullHandler()]
    hc.logger.setLevel(logging.CRITICAL)
    stdio = Shim(object(), write=_carried(run.write), flush=run.flush, isatty=run.isatty, readline=_carried(run.readline))
    hc.sys = Shim(real_sys, stdout=stdio, stdin=stdio)
    hc.time = Shim(time, sleep=_carried(run.sleep))
    hc.os = Shim(os, path=Shim(os.path, exists=_carried(run.exists)))
    hc.signal = Shim(signal, signal=run.signal, alarm=lambda *a: 0)
    hc.subprocess = Shim(subprocess, call=run.call, Popen=_carried(run.forbidden), check_call=_carried(run.forbidden))
    hc.check = _carried(run.check)
    hc.setup_ips = run.setup_ips
    hc.remove_ips = run.remove_ips
    hc.setup_logging = lambda *a, **kw: None
    hc.drop_privileges = lambda *a, **kw: None
    hc.system_ips = _carried(run.forbidden)
    seen: dict = {}
    real_loop = saved['loop']

    def loop(options):
        seen['options'] = options
        seen['ips'] = [str(i) for i in options.ips]
        return real_loop(options)

    hc.loop = loop
    saved_argv = real_sys.argv
    real_sys.argv = ['healthcheck'] + argv
    try:
        hc.main()
        return 'return', seen
    except SystemExit as exc:
        return f'exit:{exc.code}', seen
    except _Carry as carry:
        raise carry.exc from None
    finally:
        real_sys.argv = saved_argv
        for n, v in saved.items():
            setattr(hc, n, v)
        hc.logger.propagate, level, handlers, hc.logger.disabled = log_state
        hc.logger.setLevel(level)
        hc.logger.handlers = handlers


# ---------------------------------------------------------------------------- the daemon side


class _Processes:
    def __init__(self) -> None:
        self.log: list[tuple] = []

    def get_sync(self, service: str) -> bool:
        return False

    async def answer_done(self, service: str, *a) -> None:
        self.log.append(('done',))

    async def answer_error(self, service: str, *a) -> None:
        self.log.append(('error',) + tuple(str(x) for x in a))

    def answer_error_sync(self, service: str, *a) -> None:
        self.log.append(('error-sync',) + tuple(str(x) for x in a))

    def answer_done_sync(self, service: str, *a) -> None:
        self.log.append(('done',))


class _Asynchronous:
    def __init__(self) -> None:
        self.scheduled: list = []

    def schedule(self, service: str, command: str, coro) -> None:
        self.scheduled.append(coro)


class _Configuration:
    def __init__(self) -> None:
        self.log: list[tuple] = []

    def announce_route(self, peers, route) -> bool:
        self.log.append(('announce', list(peers), route))
        return True

    def withdraw_route(self, peers, route) -> bool:
        self.log.append(('withdraw', list(peers), route))
        return True


class RecordingReactor:
    """what the command handlers touch of a Reactor; peers are the names real Neighbor objects give themselves"""

    def __init__(self, names: list[str]) -> None:
        self.names = names
        self._peers: dict = {}
        self.processes = _Processes()
        self.asynchronous = _Asynchronous()
        self.configuration = _Configuration()

    def peers(self, service: str = '') -> list[str]:
        return list(self.names)


_PEER_NAMES: dict[str, str] = {}


def peer_names() -> dict[str, str]:
    """address -> peer name, from a real configuration holding the five neighbors"""
    if not _PEER_NAMES:
        text = ''.join(exa.neighbor_text(peer_ip=ip, local_ip='2001:db8::1' if ':' in ip else '127.0.0.1') for ip in PEERS)
        conf = exa.configuration_from_text(text)
        for neighbor in conf.neighbors.values():
            _PEER_NAMES[str(neighbor.session.peer_address)] = neighbor.name()
        if sorted(_PEER_NAMES) != sorted(PEERS):
            raise RuntimeError(f'harness: peers {sorted(_PEER_NAMES)}')
    return _PEER_NAMES


def _members(attr) -> list[str]:
    return [t for t in str(attr).split() if t not in ('[', ']', '(', ')')]


SEVERAL = re.compile(r'^peer (\S+)((?:, peer \S+)+) (announce|withdraw) (.*)$')


def respelled(line: str) -> str | None:
    """`peer A, peer B <rest>` in the bracket spelling the dispatcher documents: `peer [ A , B ] <rest>`"""
    m = SEVERAL.match(line)
    if m is None:
        return None
    addresses = [m.group(1)] + [part.split()[-1] for part in m.group(2).split(',') if part.strip()]
    return f'peer [ {" , ".join(addresses)} ] {m.group(3)} {m.group(4)}'


def process(line: str):
    """give one line to API.process the way Processes does and run what it schedules"""
    from exabgp.environment import getenv
    from exabgp.reactor.api import API

    reactor = RecordingReactor(list(peer_names().values()))
    api = API(reactor)
    env = getenv()
    saved_version = env.api.version
    env.api.version = 6
    try:
        try:
            api.process(reactor, 'healthcheck', line)
        except Exception as exc:  # noqa: BLE001
            raise Violation(exception_signature('command:process', exc), f'{exc!r} on "{line}"') from exc
    finally:
        env.api.version = saved_version
    for coro in reactor.asynchronous.scheduled:
        try:
            for _ in range(1000):
                coro.send(None)
            raise RuntimeError('harness: a command callback does not finish')
        except StopIteration:
            pass
    return reactor


def daemon_view(line: str, several: bool) -> dict:
    """the route the daemon hands to the RIB for this line, described field by field.

    A refused multi-neighbor selector is kept as `deferred` violation and the line is read again in the bracket spelling,
    so that the rest of the case is still judged."""
    from exabgp.reactor.api.dispatch import NoMatchingPeers, UnknownCommand, dispatch_v4, dispatch_v6

    names = peer_names()
    written = line
    reactor = process(line)
    answers = reactor.processes.log
    tag = ':several-neighbors' if several else ''
    deferred = None
    if any(a[0] == 'error-sync' for a in answers):
        try:
            dispatch_v6(line, reactor, 'healthcheck')
            why = 'handler'
        except (UnknownCommand, NoMatchingPeers) as exc:
            why = f'{type(exc).__name__}({exc})'
        deferred = Violation(f'command:dispatch-refused{tag}', f'"{written}" is answered "error" by the daemon: {why}')
        line = respelled(line) if several else None
        if line is None:
            raise deferred
        reactor = process(line)
        answers = reactor.processes.log
        if any(a[0] == 'error-sync' for a in answers):
            raise deferred
    if any(a[0] == 'error' for a in answers):
        raise Violation(f'command:route-refused:{"announce" if " announce " in line else "withdraw"}', f'"{written}": {answers}')
    if answers != [('done',)]:
        raise Violation('command:no-answer', f'"{written}": answers {answers}')
    if len(reactor.configuration.log) != 1:
        raise Violation('command:route-count', f'"{written}" gives {len(reactor.configuration.log)} routes')
    # the legacy (API version 4) dispatcher must read the line the same way
    try:
        h4, p4, r4 = dispatch_v4(line, reactor, 'healthcheck')
        h6, p6, r6 = dispatch_v6(line, reactor, 'healthcheck')
    except (UnknownCommand, NoMatchingPeers) as exc:
        raise Violation(f'command:dispatch-v4-refused{tag}', f'"{written}": {type(exc).__name__}({exc})') from None
    if (h4, p4, r4) != (h6, p6, r6):
        raise Violation('command:v4-v6-differ', f'"{written}": {h4.__name__} {p4} "{r4}" vs {h6.__name__} {p6} "{r6}"')

    action, peers, route = reactor.configuration.log[0]
    if action == 'announce':
        from exabgp.reactor.api.command.announce import validate_announce

        problem = validate_announce(route)
        if problem:
            raise Violation('command:route-invalid', f'"{line}": {problem}')
    back = {v: k for k, v in names.items()}
    attrs = route.attributes
    nexthop = 'self' if getattr(route.nexthop, 'SELF', False) else str(route.nexthop)
    path_info = str(route.nlri.path_info).split()
    return {
        'deferred': deferred,
        'action': action,
        'peers': sorted(back[p] for p in peers),
        'prefix': str(ipaddress.ip_network(route.nlri.cidr.prefix())),
        'path_id': path_info[-1] if path_info else None,
        'next_hop': nexthop,
        'med': int(str(attrs[4])) if 4 in attrs else None,
        'local_preference': int(str(attrs[5])) if 5 in attrs else None,
        'community': sorted(_members(attrs[8])) if 8 in attrs else None,
        'extended_community': sorted(_members(attrs[16])) if 16 in attrs else None,
        'large_community': sorted(_members(attrs[32])) if 32 in attrs else None,
        'as_path': [int(a) for a in _members(attrs[2])] if 2 in attrs else None,
        'other': sorted(int(c) for c in attrs if int(c) not in (2, 3, 4, 5, 8, 16, 32)),
    }


# ---------------------------------------------------------------------------- what each state is configured to say

UP, DOWN, DISABLED, EXIT = 'UP', 'DOWN', 'DISABLED', 'EXIT'
DEFAULT_METRIC = {UP: 100, DOWN: 1000, DISABLED: 500}


def dotted(n: int) -> str:
    return '.'.join(str((n >> s) & 0xFF) for s in (24, 16, 8, 0))


def expected_views(o: dict, state: str, index: int) -> list[dict]:
    """acceptable daemon-side views of the line for the index-th address in `state` (more than one where the statement leaves room)"""
    ip = str(ipaddress.ip_network(o['ips'][index]))
    if not o['neighbors'] or '*' in o['neighbors']:
        peers = sorted(PEERS)
    else:
        peers = sorted(str(ipaddress.ip_address(n)) for n in o['neighbors'])
    next_hop = 'self' if o['next_hop'] is None else str(ipaddress.ip_address(o['next_hop']))
    if o['path_id'] is None:
        path_ids = [None]
    elif o['path_id'] == 0:
        path_ids = [None, '0.0.0.0']
    else:
        path_ids = [dotted(o['path_id'])]
    withdraw = state == EXIT or (o['withdraw_on_down'] and state != UP)
    out = []
    for path_id in path_ids:
        base = {'peers': peers, 'prefix': ip, 'path_id': path_id, 'next_hop': next_hop, 'other': []}
        if withdraw:
            base.update(action='withdraw', med=None, local_preference=None, community=None, extended_community=None, large_community=None, as_path=None)
            out.append(base)
            continue
        metric = o[f'{state.lower()}_metric']
        if metric is None:
            metric = DEFAULT_METRIC[state]
        as_path = o[f'{state.lower()}_as_path']
        if as_path is None:
            as_path = o['as_path']
        base.update(
            action='announce',
            med=metric + index * o['increase'],
            local_preference=o['local_preference'],
            extended_community=sorted(o['extended_community']) if o['extended_community'] else None,
            large_community=sorted(o['large_community']) if o['large_community'] else None,
            as_path=list(as_path) if as_path else None,
        )
        if state == UP:
            communities = [o['community']]
        elif state == DISABLED:
            communities = [o['disabled_community'] or o['community']]
        else:
            communities = [o['community'], o['disabled_community'] or o['community']]
        for c in communities:
            v = dict(base)
            v['community'] = sorted(c) if c else None
            if v not in out:
                out.append(v)
    return out


FIELDS = ['action', 'prefix', 'med', 'next_hop', 'as_path', 'community', 'extended_community', 'large_community', 'local_preference', 'path_id', 'peers', 'other']


def mismatch(view: dict, wanted: list[dict]) -> tuple[int, str, dict]:
    """(number of differing fields, first differing field, closest acceptable view); 0 differing fields = match"""
    best = None
    for w in wanted:
        bad = [f for f in FIELDS if view[f] != w[f]]
        if best is None or len(bad) < best[0]:
            best = (len(bad), bad[0] if bad else '', w)
    return best


# ---------------------------------------------------------------------------- the check


def check(case: dict) -> dict:
    o, script, end = case['options'], case['script'], case['end']
    if not script:
        raise RuntimeError('harness: empty script')
    script = [[bool(r), bool(d) and o['disable']] for r, d in script]
    n_ips = len(o['ips'])
    rise, fall = o['rise'], o['fall']
    several = len(o['neighbors']) > 1 and '*' not in o['neighbors']
    classes = [f'end:{end["kind"]}' + (f':{end["where"]}' if end['kind'] == 'sigterm' else ''), f'neighbors:{"several" if several else ("star" if "*" in o["neighbors"] else len(o["neighbors"]))}']

    argv = argv_for(o, end)
    options = parse_options(argv)
    if [str(i) for i in options.ips] != [str(ipaddress.ip_network(i)) for i in given_ips(o)] or options.rise != rise or options.fall != fall:
        raise RuntimeError('harness: parse() did not give back the drawn options')
    # from here on `ips` is the list the helper is asked to announce, in its order
    wanted = announced_ips(o)
    o = dict(o, ips=wanted)
    n_ips = len(wanted)
    if case['options'].get('start_ip'):
        classes.append('start-ip')
        if case['options']['start_ip'] % n_ips:
            classes.append('start-ip:list-rotated')
    if case['options'].get('deaggregate'):
        classes.append('deaggregate-networks')
    run = Run(script, end)
    try:
        ended, seen = run_main(argv, run)
        if 'ips' not in seen:
            raise Violation('main:loop-not-reached', f'main() ended with {ended} before the loop for {argv}')
        if seen['ips'] != wanted:
            raise Violation('main:address-list', f'the loop was given {seen["ips"]}, the command line asks for {wanted} ({argv})')
    except Violation:
        raise
    except KeyboardInterrupt:
        raise Violation('exit:interrupt-escapes', 'KeyboardInterrupt raised during the sleep leaves loop()') from None
    if run.pending:
        raise Violation('command:unterminated-line', repr(run.pending))

    # ---- fold the lines into groups per step, and the exit group
    # sleep() closes a step: a run that ended inside a step (ack read, or loop() leaving by itself) has one more step than sleeps
    steps_run = run.step if run.delivered in ('sleep', 'check') else run.step + 1
    if steps_run > len(script):
        raise RuntimeError(f'harness: {steps_run} steps for a script of {len(script)}')
    groups: list[list[str]] = [[] for _ in range(steps_run)]
    exit_lines: list[str] = []
    for tag, text in run.lines:
        if tag == 'exit':
            exit_lines.append(text)
        elif tag < steps_run:
            groups[tag].append(text)
        else:
            raise Violation('hysteresis:lines-after-the-script', f'step {tag}: {text}')

    # ---- (2) every line is a command the daemon accepts, with the values configured for one of the states
    views: dict[str, dict] = {}

    deferred: list[Violation] = []

    def view_of(line: str) -> dict:
        if line not in views:
            views[line] = daemon_view(line, several)
            if views[line]['deferred'] is not None:
                deferred.append(views[line]['deferred'])
        return views[line]

    def states_of(group: list[str], allowed: tuple, where: str) -> set:
        """the states whose configured rendering this (possibly cut short) group is"""
        if len(group) > n_ips:
            raise Violation('command:group-size', f'{where}: {len(group)} lines for {n_ips} addresses: {group}')
        vs = [view_of(line) for line in group]
        found = set()
        closest = None
        for state in allowed:
            total, first, firstw = 0, '', None
            for i, v in enumerate(vs):
                n, f, w = mismatch(v, expected_views(o, state, i))
                if n and not first:
                    first, firstw = f'{f}', (i, v, w)
                total += n
            if total == 0:
                found.add(state)
            elif closest is None or total < closest[0]:
                closest = (total, first, state, firstw)
        if not found:
            total, field, state, (i, v, w) = closest
            raise Violation(
                f'values:{field}' + (':several-neighbors' if several and field == 'peers' else ''),
                f'{where}: line {i} "{group[i]}" is no state\'s announcement; closest is {state}: {field} is {v[field]!r}, configured {w[field]!r}',
            )
        return found

    cut_short = None  # the step whose group SIGTERM interrupted
    announced: list[frozenset | None] = []  # after each step: states the standing announcement may be (None = nothing said yet)
    content: list[tuple | None] = []
    current, current_text = None, None
    for t, group in enumerate(groups):
        if group:
            partial = len(group) < n_ips
            if partial:
                if not (run.delivered == 'ack' and t == steps_run - 1):
                    raise Violation('command:group-size', f'step {t}: {len(group)} lines for {n_ips} addresses: {group}')
                cut_short = t
                states_of(group, (UP, DOWN, DISABLED), f'step {t}')
            else:
                current = frozenset(states_of(group, (UP, DOWN, DISABLED), f'step {t}'))
                current_text = tuple(group)
        announced.append(current)
        content.append(current_text)

    # ---- (1) hysteresis
    def tail(t: int, n: int) -> list[bool] | None:
        """the last n results of steps <= t in which the check ran (disable file absent)"""
        got = [script[i][0] for i in range(t + 1) if not script[i][1]]
        return got[-n:] if len(got) >= n else None

    def may_be(state: str, t: int) -> bool:
        r, d = script[t]
        if state == DISABLED:
            return d
        if d:
            return False
        if state == UP:
            last = tail(t, max(rise, 1))
            return last is not None and all(last)
        last = tail(t, max(fall, 1))
        return last is not None and not any(last)

    changes = 0
    for t in range(steps_run):
        if cut_short == t:
            continue
        before_text = content[t - 1] if t else None
        before = announced[t - 1] if t else None
        r, d = script[t]
        if content[t] != before_text:
            if before_text is not None:
                changes += 1
            if not any(may_be(s, t) for s in announced[t]):
                names = '/'.join(sorted(announced[t]))
                if UP in announced[t] and not d and r:
                    sig = 'hysteresis:up-before-rise'
                elif DOWN in announced[t] and not d and not r:
                    sig = 'hysteresis:down-before-fall'
                elif announced[t] == frozenset([DISABLED]):
                    sig = 'hysteresis:disabled-without-file'
                else:
                    sig = 'hysteresis:unexplained-switch'
                # with rise, fall > 1 the first result of a run is "a single contrary result": same root cause, said in the message
                single = before is not None and rise > 1 and fall > 1 and not d and (t == 0 or script[t - 1][1] or script[t - 1][0] != r)
                note = ' on a single contrary result' if single else ''
                raise Violation(sig, f'step {t} (result {r}, disabled {d}): announcement becomes {names}{note} with rise={rise} fall={fall}; script {script[: t + 1]}')
        # the disable file wins at once
        if d and (announced[t] is None or DISABLED not in announced[t]):
            raise Violation('hysteresis:disable-file-ignored', f'step {t}: disable file present, announcement is {sorted(announced[t] or [])}')
        # not later than rise / fall consecutive results
        if not d:
            n = rise if r else fall
            window = range(t - n + 1, t + 1)
            if window[0] >= 0 and all(script[i] == [r, False] for i in window) and (window[0] == 0 or not script[window[0] - 1][1]):
                want = UP if r else DOWN
                if announced[t] is None or want not in announced[t]:
                    raise Violation(
                        f'hysteresis:{"up" if r else "down"}-late',
                        f'step {t}: {n} consecutive {"successes" if r else "failures"} with {"rise" if r else "fall"}={n} and the announcement is {sorted(announced[t] or ["nothing"])}; script {script[: t + 1]}',
                    )

    # ---- exit
    if end['kind'] == 'interval0' and not run.delivered:
        if ended != 'return':
            raise Violation('exit:interval0', f'loop() ended with {ended}')
        classes.append('exit:left-without-withdraw' if not exit_lines else 'exit:withdraw')
        if steps_run and announced[-1] is None:
            raise Violation('exit:interval0-before-announcing', f'left after {steps_run} steps without an announcement')
    else:
        if end['kind'] == 'sigterm':
            if ended != 'exit:0':
                raise Violation('exit:sigterm-status', f'loop() ended with {ended}')
        elif ended != 'return':
            raise Violation('exit:interrupt-status', f'loop() ended with {ended}')
        if len(exit_lines) != n_ips:
            got = [view_of(line)['prefix'] for line in exit_lines]
            raise Violation('exit:not-every-address-withdrawn', f'{len(exit_lines)} lines on exit for {n_ips} addresses: withdrawn {got} of {o["ips"]}')
        states_of(exit_lines, (EXIT,), 'exit')
        classes.append('exit:withdraw')

    # ---- classes and non-triviality
    flap = False
    t = 0
    while t < steps_run:
        r, d = script[t]
        u = t
        while u + 1 < steps_run and script[u + 1] == script[t]:
            u += 1
        length = u - t + 1
        if not d and t > 0 and u + 1 < steps_run and not script[t - 1][1] and not script[u + 1][1]:
            bound = rise if r else fall
            before = announced[t - 1]
            contrary = before is not None and ((r and DOWN in before and UP not in before) or (not r and UP in before and DOWN not in before))
            if bound > 1 and length < bound and contrary and content[u] == content[t - 1]:
                flap = True
        t = u + 1
    said = {s for a in announced if a for s in a} if announced else set()
    for s in sorted({'+'.join(sorted(a)) for a in announced if a}):
        classes.append(f'announced:{s}')
    if not any(announced):
        classes.append('announced:nothing')
    classes.append(f'changes:{min(changes, 3)}{"+" if changes >= 3 else ""}')
    if flap:
        classes.append('flap-absorbed')
    if o['withdraw_on_down']:
        classes.append('withdraw-on-down')
    if o['debounce']:
        classes.append('debounce')
    if any(d for _, d in script[:steps_run]):
        classes.append('disable-file-seen')
    if run.delivered == 'ack':
        classes.append('sigterm-during-ack-read')
    if cut_short is not None:
        classes.append('sigterm-inside-a-group')
    if rise > 1 and fall > 1:
        classes.append('rise-and-fall>1')
    if len({ipaddress.ip_network(i).version for i in o['ips']}) == 2:
        classes.append('ips:v4+v6')
    classes.append(f'ips:{n_ips}')
    if run.executed:
        classes.append('execute-hooks-ran')
    if 'setup' in run.ip_calls or 'remove' in run.ip_calls:
        classes.append('ip-setup-calls')
    if deferred:
        raise deferred[0]
    nontrivial = changes >= 2 and flap
    sample = {'argv': argv_for(o, end), 'script': ''.join(('d' if d else ('S' if r else 'F')) for r, d in script[:steps_run]), 'said': sorted(said), 'first': run.lines[0][1] if run.lines else None}
    return {'nontrivial': nontrivial, 'classes': classes, 'sample': sample}


ENGINES = [Engine('runs', cases, check, quick=1000, thorough=30000, batch=200)]
