"""C19 - decoding does not depend on what was decoded before

Differential against a fresh process (vlib.forkiso): a template process that has imported exabgp and brought up three
sessions with different negotiated parameters, and has never decoded a message, is forked
  * once per distinct (session, type, bytes): the message decoded alone -> the reference, memoised;
  * once per case: the whole sequence decoded in one process -> the result per message, each rendering repeated at
    once and again after every later message was processed.
This process never decodes anything itself.

Signatures: 'differs:<field>:<relation>' - message i decoded in the sequence is not what it is alone; <field> is the first of
outcome, routes, attributes, json6, json4, str, rib that differs and <relation> says where the message stands with respect
to what was decoded before it (new-attr-block, attr-block-seen-under-same-parameters, no-attributes, open, ...).  When the
same attribute bytes were seen earlier under other session parameters the field is left out
('differs:update:attr-block-seen-under-other-parameters'): whichever field shows it, the suspect is one.
'mutated-later:<field>:<kind>' - the rendering of a message changed after later messages were processed;
'render-not-repeatable:<field>:<kind>' - it changes when repeated at once (no later message involved).
Every message of a case is compared; of several signatures the one raised is the first that does not involve a block seen
under other parameters.

VERIF_C19_KNOWN (sensitivity runs only, never the registered command): comma separated fnmatch patterns of signatures that are
counted as classes 'tolerated:<signature>' instead of raised, so that a mutation can be seen behind a diagnosed finding.
"""

from __future__ import annotations

import fnmatch
import os

from vlib import c19_gen as gen
from vlib.c19_decode import NOTIFICATION, OPEN, PARAMETERS, SESSIONS, UPDATE
from vlib.forkiso import ForkServer
from vlib.runner import Engine, Violation

PROPERTY = 'C19'
RULE = (
    'sequences of 2-30 [session, type, body] over 3 sessions with different negotiated parameters (A: asn4, no ADD-PATH, ipv4+ipv6 unicast; '
    'B: 2-byte AS, ADD-PATH ipv4 unicast, ipv4 unicast+labeled; C: asn4, ADD-PATH ipv6 unicast, + ipv4 vpn, `capability aigp disable`), assembled from motifs biased to repeat: '
    'the same attribute block / whole UPDATE on two sessions, one byte changed, with and without MP attributes, End-of-RIB runs, a treat-as-withdraw '
    'class block then the same block valid, AS_PATH+AS4_PATH on the 2-byte then a 4-byte session, OPENs from one capability catalogue, NOTIFICATIONs, '
    'KEEPALIVE/ROUTE-REFRESH, an earlier message again at distance >= 2, NLRI bytes valid with and without a path-id; attribute blocks whose AS_PATH '
    'is well-formed under both ASN widths are built on purpose. Non-trivial = the same attribute bytes under two different negotiated parameter sets, '
    'or a repeat (message or attribute block) at distance >= 2'
)
ASSUMPTIONS = [
    'reference = the same bytes decoded alone in a fork of a template process that imported exabgp, negotiated the three sessions (decoding the three peer OPENs) and never decoded anything else',
    'compared per message: decode outcome (ok / NOTIFICATION code/subcode / exception type and place), routes (NLRI text, JSON, index, next hop), attributes (class, ID, flag, str, json, bytes), JSON v6 and v4 events, text event + str(), Adj-RIB-In handler outcome',
    'masked as legitimately varying: time, host, pid, ppid and the per-neighbor event counter of the JSON header',
    'Adj-RIB-In content is per-session state that depends on history by design: not compared',
    'whether a message should have been accepted at all is not judged here (C03/C08), only that the answer is the same',
]

QUICK_SHARDS = 4
FIELDS = ['outcome', 'routes', 'attributes', 'json6', 'json4', 'str', 'rib']
RENDERED = ['routes', 'attributes', 'json6', 'json4', 'str']
KIND = {1: 'open', 2: 'update', 3: 'notification', 4: 'keepalive', 5: 'route-refresh'}

_SERVER: list = []
_FRESH: dict = {}
_KNOWN = [p.strip() for p in os.environ.get('VERIF_C19_KNOWN', '').split(',') if p.strip()]


def server() -> ForkServer:
    if not _SERVER:
        _SERVER.append(ForkServer('vlib.c19_decode'))
    return _SERVER[0]


def _short(value: object, limit: int = 360) -> str:
    text = value if isinstance(value, str) else repr(value)
    return text if len(text) <= limit else text[: limit // 2] + ' ... ' + text[-limit // 2 :]


def _first_difference(a: object, b: object, la: str = 'alone', lb: str = 'in sequence') -> str:
    """the differing part of two renderings (what the finding report needs), not the whole event"""
    if isinstance(a, str) and isinstance(b, str):
        n = 0
        while n < min(len(a), len(b)) and a[n] == b[n]:
            n += 1
        start = max(0, n - 60)
        return f'{la} ...{a[start : n + 120]!r} {lb} ...{b[start : n + 120]!r}'
    if isinstance(a, list) and isinstance(b, list):
        for x, y in zip(a, b):
            if x != y:
                return f'{la} {_short(x)} {lb} {_short(y)}'
        return f'{la} {len(a)} entries, {lb} {len(b)} entries: {_short(a[len(b) :] or b[len(a) :])}'
    return f'{la} {_short(a)} {lb} {_short(b)}'


def analyse(messages: list) -> dict:
    """byte-level facts about the sequence: what repeats where (classes, non-trivial rule, signature context)"""
    info: dict = {'blocks': [], 'classes': set()}
    by_block: dict = {}
    by_message: dict = {}
    far = cross = cross_asn4 = False
    for n, (sidx, mtype, hexbody) in enumerate(messages):
        block = None
        if mtype == UPDATE:
            parts = gen.split_update(bytes.fromhex(hexbody))
            if parts is not None and parts[1]:
                block = parts[1]
        info['blocks'].append(block)
        if block is not None:
            for m, s in by_block.get(block, []):
                if s != sidx:
                    cross = True
                    if SESSIONS[s]['asn4'] != SESSIONS[sidx]['asn4']:
                        cross_asn4 = True
                        if gen.has_dual_path(block):
                            info['classes'].add('dual-reading-block-on-both-as-widths')
                if n - m >= 2:
                    far = True
                    info['classes'].add('attr-block-repeat-distance>=2')
                elif n - m == 1:
                    info['classes'].add('attr-block-repeat-adjacent')
            by_block.setdefault(block, []).append((n, sidx))
            if gen.has_dual_path(block):
                info['classes'].add('dual-reading-block')
        for m in by_message.get((mtype, hexbody), []):
            if n - m >= 2:
                far = True
                info['classes'].add('message-repeat-distance>=2')
        by_message.setdefault((mtype, hexbody), []).append(n)
    blocks = [b for b in by_block]
    stripped = {}
    for b in blocks:
        w = gen.without_mp(b)
        if w is not None and w != b and w:
            stripped[w] = b
    if any(w in by_block for w in stripped):
        info['classes'].add('block-with-and-without-mp')
    if any(gen.one_byte_apart(a, b) for x, a in enumerate(blocks) for b in blocks[x + 1 :]):
        info['classes'].add('blocks-one-byte-apart')
    eor_run = 0
    for (sidx, mtype, hexbody), block in zip(messages, info['blocks']):
        is_eor = mtype == UPDATE and (hexbody == '00000000' or (block is not None and len(block) <= 7 and block[1:2] == b'\x0f'))
        eor_run = eor_run + 1 if is_eor else 0
        if eor_run >= 2:
            info['classes'].add('eor-run')
    if cross:
        info['classes'].add('cross-session-identical-block')
    if cross_asn4:
        info['classes'].add('cross-session-identical-block:as-width-differs')
    if len({m[0] for m in messages}) >= 2:
        info['classes'].add('sessions>=2')
    for t in {m[1] for m in messages}:
        info['classes'].add(f'has-{KIND.get(t, t)}')
    info['nontrivial'] = cross or far
    return info


def relation(messages: list, blocks: list, n: int) -> tuple[str, str]:
    """where message n stands with respect to what was decoded before it (names the root cause in the signature)"""
    sidx, mtype, _ = messages[n]
    if mtype != UPDATE:
        return KIND.get(mtype, str(mtype)), ''
    block = blocks[n]
    if block is None:
        return 'update:no-attributes', ''
    earlier = [SESSIONS[messages[m][0]] for m in range(n) if blocks[m] == block]
    if not earlier:
        return 'update:new-attr-block', ''
    s = SESSIONS[sidx]
    differing = sorted({k for p in earlier for k in PARAMETERS if p[k] != s[k]})
    if differing:
        return 'update:attr-block-seen-under-other-parameters', f' (same attribute bytes seen earlier on a session differing in {", ".join(differing)})'
    return 'update:attr-block-seen-under-same-parameters', ''


def check(case: dict) -> dict:
    messages = [list(m) for m in case['messages']]
    keys = [(m[0], m[1], m[2]) for m in messages]
    fs = server()
    if len(_FRESH) > 40000:
        _FRESH.clear()  # bounded memory; what this case needs is decoded again below
    need = [k for k in dict.fromkeys(keys) if k not in _FRESH]
    jobs = [{'mode': 'single', 'message': list(k)} for k in need] + [{'mode': 'sequence', 'messages': messages}]
    retries = fs.retries
    answers = fs.run(jobs)
    for k, result in zip(need, answers):
        _FRESH[k] = result
    seq = answers[-1]

    info = analyse(messages)
    classes = set(info['classes'])
    classes.update(f'motif:{m}' for m in case.get('motifs', []))
    if fs.retries != retries:
        classes.add('forkiso:batch-run-again-after-a-lost-fork')
    found: list = []  # (priority, position, signature, message)

    for n, key in enumerate(keys):
        alone = _FRESH[key]
        here = seq['first'][n]
        classes.add('outcome:' + alone['outcome'].split(' ')[0])
        where, why = relation(messages, info['blocks'], n)
        name = SESSIONS[key[0]]['name']
        for field in FIELDS:
            if alone[field] != here[field]:
                before = f'{SESSIONS[messages[n - 1][0]]["name"]}:{KIND.get(messages[n - 1][1])}:{messages[n - 1][2]}' if n else 'nothing'
                found.append(
                    (
                        1 if 'other-parameters' in where else 0,
                        n,
                        # the same bytes under other parameters: whichever field shows it first, the suspect is one (a cache keyed by bytes)
                        f'differs:{where}' if 'other-parameters' in where else f'differs:{field}:{where}',
                        f'message {n} of {len(keys)} on session {name} ({KIND.get(key[1])} {key[2]}), previous message {before}{why}: {field}: {_first_difference(alone[field], here[field])}',
                    )
                )
                break
        again, later = seq['again'][n], seq['later'][n]
        if again is None:
            continue
        for field in RENDERED:
            if again[field] != here[field]:
                found.append((0, n, f'render-not-repeatable:{field}:{KIND.get(key[1])}', f'message {n} on session {name} ({key[2]}) rendered twice in a row: {_first_difference(here[field], again[field], 'first', 'second')}'))
                break
            if later[field] != here[field]:
                found.append(
                    (
                        1 if 'other-parameters' in where else 0,
                        n,
                        f'mutated-later:{field}:{KIND.get(key[1])}',
                        f'message {n} of {len(keys)} on session {name} ({key[2]}) rendered again after messages {n + 1}..{len(keys) - 1} were processed: {_first_difference(here[field], later[field], 'at first', 'afterwards')}',
                    )
                )
                break

    raised = None
    for priority, n, signature, message in sorted(found, key=lambda f: (f[0], f[1])):
        if any(fnmatch.fnmatchcase(signature, p) for p in _KNOWN):
            classes.add(f'tolerated:{signature}')
            continue
        if raised is None:
            raised = (signature, message)
    if raised is not None:
        raise Violation(*raised)
    return {'nontrivial': info['nontrivial'], 'classes': sorted(classes), 'sample': {'messages': [[SESSIONS[m[0]]['name'], KIND.get(m[1]), m[2][:40]] for m in messages[:6]], 'motifs': case.get('motifs')}}


def extra_coverage(merged) -> dict:
    return {'fresh_process': 'every reference decode ran alone in its own fork of a never-decoding template process (vlib/forkiso.py)'}


def _flow(afi: int) -> str:
    from vlib.refwire import build

    attrs = build.attribute(0x40, 1, b'\x00') + build.attribute(0x40, 2, b'') + build.attribute(0x40, 5, b'\x00\x00\x00\x64')
    return build.update_body(b'', attrs + build.attribute(0x80, 14, bytes([0, afi, 133, 0, 0]) + bytes.fromhex('05038106' + '0b812e')), b'').hex()


def _labelled(session: int, safi: int, label: int) -> list:
    from vlib.c19_decode import SESSIONS as _S
    from vlib.refwire import build

    rd = bytes.fromhex('0000fde800000001') if safi == 128 else b''
    hop = (bytes(8) if safi == 128 else b'') + bytes([10, 0, 0, 9])
    nlri = bytes([24 + 8 * len(rd) + 24]) + ((label << 4) | 1).to_bytes(3, 'big') + rd + bytes([10, 1, 1])
    attrs = build.attribute(0x40, 1, b'\x00') + build.attribute(0x40, 2, build.aspath([(2, [_S[session]['peer_as']])], _S[session]['asn4'])) + build.attribute(0x40, 5, b'\x00\x00\x00\x64')
    mp = build.attribute(0x80, 14, bytes([0, 1, safi, len(hop)]) + hop + b'\x00' + nlri)
    return [session, UPDATE, build.update_body(b'', attrs + mp, b'').hex()]


def fixed_cases() -> list:
    """the smallest dual-reading pair in both orders, the same with something in between, and the two route-refresh codes"""
    from vlib.refwire import build

    block = build.attribute(0x40, 1, b'\x00') + build.attribute(0x40, 2, bytes.fromhex('02020001000202010003')) + build.attribute(0x40, 3, bytes([10, 0, 0, 1]))
    plain = build.update_body(b'', block, bytes([24, 10, 0, 1])).hex()  # valid for A (no path-id)
    with_id = build.update_body(b'', block, bytes([0, 0, 0, 1, 24, 10, 0, 1])).hex()  # valid for B (path-id)
    aigp = build.update_body(
        b'',
        build.attribute(0x40, 1, b'\x00') + build.attribute(0x40, 2, b'') + build.attribute(0x40, 3, bytes([10, 0, 0, 1])) + build.attribute(0x40, 5, bytes([0, 0, 0, 100])) + build.attribute(0x80, 26, b'\x01\x00\x0b' + bytes(7) + b'\x0a'),
        bytes([24, 10, 0, 1]),
    ).hex()  # valid for A and C (both 4-byte AS, no path-id): A accepts AIGP, C is configured not to
    open_rfc = build.open_with_caps(65001, 90, 0x0A000002, [build.cap_mp(1, 1), build.cap_refresh()]).hex()
    open_cisco = build.open_with_caps(65001, 90, 0x0A000002, [build.cap_mp(1, 1), build.capability(128, b'')]).hex()
    return [
        {'messages': [[1, UPDATE, with_id], [0, UPDATE, plain]], 'motifs': ['fixed:2-byte-then-4-byte']},
        {'messages': [[0, UPDATE, plain], [1, UPDATE, with_id]], 'motifs': ['fixed:4-byte-then-2-byte']},
        {'messages': [[1, UPDATE, with_id], [1, UPDATE, '00000000'], [0, UPDATE, plain], [1, UPDATE, with_id]], 'motifs': ['fixed:end-of-rib-between']},
        {'messages': [[0, OPEN, open_rfc], [2, OPEN, open_cisco], [0, NOTIFICATION, '0602']], 'motifs': ['fixed:route-refresh-codes']},
        {'messages': [[0, UPDATE, aigp], [2, UPDATE, aigp]], 'motifs': ['fixed:aigp-accepted-then-not']},
        {'messages': [[2, UPDATE, aigp], [0, UPDATE, aigp]], 'motifs': ['fixed:aigp-refused-then-accepted']},
        # a cacheable block, then the same malformed block (COMMUNITIES of three octets: treat-as-withdraw) twice, and a refused one twice
        {'messages': [[0, UPDATE, plain], [0, UPDATE, build.update_body(b'', block + build.attribute(0xC0, 8, b'\x00\x01\x02'), bytes([24, 10, 0, 3])).hex()], [0, UPDATE, build.update_body(b'', block + build.attribute(0xC0, 8, b'\x00\x01\x02'), bytes([24, 10, 0, 3])).hex()]], 'motifs': ['fixed:good-then-malformed-twice']},
        {'messages': [[0, UPDATE, plain], [0, UPDATE, build.update_body(b'', block + build.attribute(0x40, 1, b'\x00'), bytes([24, 10, 0, 3])).hex()], [0, UPDATE, build.update_body(b'', block + build.attribute(0x40, 1, b'\x00'), bytes([24, 10, 0, 3])).hex()]], 'motifs': ['fixed:good-then-refused-twice']},
        # one FlowSpec rule (protocol / next-header =tcp, dscp / traffic-class =46) announced for IPv4 then IPv6 on the flow session, and back
        {'messages': [[3, UPDATE, _flow(1)], [3, UPDATE, _flow(2)], [3, UPDATE, _flow(1)]], 'motifs': ['fixed:flow-v4-v6-v4']},
        {'messages': [[3, UPDATE, _flow(2)], [3, UPDATE, _flow(1)]], 'motifs': ['fixed:flow-v6-v4']},
        # one attribute block, first with withdrawn routes beside the announce, then without, and the other way round
        {'messages': [[0, UPDATE, build.update_body(bytes([24, 10, 0, 2]), block, bytes([24, 10, 0, 1])).hex()], [0, UPDATE, plain]], 'motifs': ['fixed:withdrawn-then-not']},
        {'messages': [[0, UPDATE, plain], [0, UPDATE, build.update_body(bytes([24, 10, 0, 2]), block, bytes([24, 10, 0, 1])).hex()]], 'motifs': ['fixed:not-then-withdrawn']},
        # one neighbor, two establishments with different negotiation results (A: ipv4 + ipv6 unicast, E: ipv4 unicast only)
        {'messages': [[0, UPDATE, plain], [4, UPDATE, plain], [0, UPDATE, plain]], 'motifs': ['fixed:same-neighbor-renegotiated']},
        {'messages': [[4, UPDATE, plain], [0, UPDATE, plain]], 'motifs': ['fixed:same-neighbor-renegotiated-reversed']},
        # a labelled route and a VPN route, each announced again with another label (sessions B and C)
        {'messages': [_labelled(1, 4, 100), _labelled(1, 4, 200), _labelled(1, 4, 100)], 'motifs': ['fixed:labelled-route-another-label']},
        {'messages': [_labelled(2, 128, 300), _labelled(2, 128, 301)], 'motifs': ['fixed:vpn-route-another-label']},
    ]


# the quick tier is bounded by the number of cases (30 per shard), not by the clock: what it explores must not depend on the load of the machine
ENGINES = [Engine('sequences', gen.sequences, check, quick=30, thorough=2000, batch=15, fixed_cases=fixed_cases, quick_s=240.0, thorough_s=900.0)]
