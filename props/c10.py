"""C10 - every protocol error is answered with the right NOTIFICATION, once"""

from __future__ import annotations

from hypothesis import strategies as st

from vlib import netharness as nh
from vlib import scenario as sc
from vlib import vloop
from vlib.refwire import codec
from vlib.runner import Engine, Violation

PROPERTY = 'C10'
RULE = (
    'fault class x session state grid (enumerated completely in every tier) plus Hypothesis-generated valid pre-histories before the fault: '
    'header faults (marker, length < 19, > max, per-type length, unknown type), OPEN faults (version, AS, router-id, hold time, auth parameter, truncated capability; under local hold times 30, 0, 3, 180), OPERATIONAL messages, '
    'UPDATE framing and attribute faults of each RFC 7606 class, messages unexpected for the state (KEEPALIVE/UPDATE/REFRESH before OPEN, OPEN twice, UPDATE in OPENCONFIRM, OPEN when established), '
    'ROUTE-REFRESH with an unknown subtype, API teardown code n, received NOTIFICATION (well-formed and truncated); states OPENSENT, OPENCONFIRM, ESTABLISHED idle and mid-batch. '
    'Oracle: bytes on the transport from the injection to the close. Non-trivial = the session had reached the target state when the fault was injected'
)
ASSUMPTIONS = [
    'the (code, subcode) sets per fault class come from RFC 4271 section 6, RFC 6608, RFC 7313 and RFC 7606 (EXPECT below); where the RFCs leave a choice the set holds every allowed answer',
    'for RFC 7606 treat-as-withdraw / discard classes "no NOTIFICATION and the session stays up" is accepted as well as the RFC 4271 3/x answer',
    'schedules are those the harness can express; transport = socketpair; virtual clock',
]

STATES = ['OPENSENT', 'OPENCONFIRM', 'ESTABLISHED', 'ESTABLISHED-BATCH']

NONE_AND_UP = 'no-notification-session-stays-up'
NONE_AND_CLOSE = 'no-notification-close'


def expectations() -> list:
    """[(fault op, state, expected set)]"""
    grid = []
    for name, exp in sc.HEADER_FAULTS.items():
        for s in STATES:
            e = set(exp)
            if name == 'refresh-length':
                e |= {(7, 1)}
            grid.append((['fault', name], s, e))
    for name, exp in sc.OPEN_FAULTS.items():
        grid.append((['open', name], 'OPENSENT', set(exp)))
    for name, exp in sc.UPDATE_FAULTS.items():
        for s in ('ESTABLISHED', 'ESTABLISHED-BATCH'):
            grid.append((['fault', name], s, set(exp)))
    for name, exp in sc.UPDATE_SOFT_FAULTS.items():
        for s in ('ESTABLISHED', 'ESTABLISHED-BATCH'):
            grid.append((['fault', name], s, set(exp) | {NONE_AND_UP}))
    # unexpected for the state (RFC 6608)
    for op in (['ka'], ['update'], ['refresh'], ['eor']):
        grid.append((op, 'OPENSENT', {(5, 1)}))
    for op in (['update'], ['refresh'], ['open', 'valid'], ['eor']):
        grid.append((op, 'OPENCONFIRM', {(5, 2)}))
    for s in ('ESTABLISHED', 'ESTABLISHED-BATCH'):
        grid.append((['open', 'valid'], s, {(5, 3)}))
        grid.append((['fault', 'refresh-bad-subtype'], s, {NONE_AND_UP}))
        for code in (2, 3, 4, 6):
            grid.append((['teardown', code], s, {(6, code)}))
    # timers: nothing, or only part of a message, arrives and the timer ends the session (OPEN wait 5/1, hold timer 4/0)
    grid.append((['wait', 0.0], 'OPENSENT', {(5, 1), (4, 0)}))
    for n in (1, 10, 19, 30):
        grid.append((['partial', 'open', n], 'OPENSENT', {(5, 1), (4, 0)}))
    for kind, n in (('keepalive', 10), ('update', 19), ('update', 30)):
        grid.append((['partial', kind, n], 'ESTABLISHED', {(4, 0)}))
    # OPERATIONAL (type 6, draft-ietf-idr-operational-message; the capability is not negotiated here): a message type exabgp knows.
    # Ignoring it, refusing the type (1/3) or the FSM error of the state are all defensible; closing without a word is not
    for body in ('', '00010009000100010a00000041', 'ffff0000'):
        raw = (codec.MARKER + (19 + len(body) // 2).to_bytes(2, 'big') + b'\x06' + bytes.fromhex(body)).hex()
        grid.append((['raw', raw], 'OPENSENT', {(5, 1), (1, 3), (5, 0), (1, 2)}))
        grid.append((['raw', raw], 'OPENCONFIRM', {(5, 2), (1, 3), (5, 0), (1, 2)}))
        for s in ('ESTABLISHED', 'ESTABLISHED-BATCH'):
            grid.append((['raw', raw], s, {(1, 3), (5, 3), (5, 0), (1, 2), NONE_AND_UP}))
    # a received NOTIFICATION is never answered
    for s in STATES:
        grid.append((['notif', 6, 2], s, {NONE_AND_CLOSE}))
        grid.append((['notif', 3, 1], s, {NONE_AND_CLOSE}))
        grid.append((['raw', (codec.MARKER + b'\x00\x15\x03' + b'\x06\x04').hex()], s, {NONE_AND_CLOSE}))
    return grid


GRID = expectations()
_EXPECTED = {(repr(list(f)), s): e for f, s, e in GRID}


# who consumes the received UPDATEs decides how much of them exabgp decodes (Protocol.read_message): the default neighbor of the grid
# hands parsed updates to a process and keeps an Adj-RIB-In; this one keeps no Adj-RIB-In and its process asks for parsed messages
# but not for updates. An error in an UPDATE is an error all the same
WATCHER = {'extra': 'adj-rib-in false;', 'api_receive': ['parsed', 'notification', 'open']}


def fixed_cases() -> list:
    out = [{'fault': f, 'state': s, 'pre': [], 'grid': i} for i, (f, s, _) in enumerate(GRID)]
    # the error arrives while exabgp's send buffer is full (a large batch, a peer that stopped reading): the NOTIFICATION is
    # written all the same once the peer reads again
    out += [{'fault': f, 'state': s, 'pre': [], 'grid': i, 'blocked': True} for i, (f, s, _) in enumerate(GRID) if s == 'ESTABLISHED-BATCH' and f[0] in ('fault', 'open', 'teardown') and NONE_AND_UP not in _EXPECTED[(repr(list(f)), s)]][:12]
    out += [{'fault': f, 'state': s, 'pre': [], 'grid': i, 'neighbor': 'watcher'} for i, (f, s, _) in enumerate(GRID) if s == 'ESTABLISHED' and f[0] == 'fault' and (f[1] in sc.UPDATE_FAULTS or f[1] in sc.UPDATE_SOFT_FAULTS)]
    # the OPEN faults once more under a local hold time of 0 (legal: no keepalives) - what is refused must not depend on it
    out += [{'fault': f, 'state': s, 'pre': [], 'grid': i, 'local_hold': 0} for i, (f, s, _) in enumerate(GRID) if f[0] == 'open' and s == 'OPENSENT']
    return out


PRE_OPS = [['ka'], ['update'], ['eor'], ['refresh'], ['wait', 0.05], ['wait', 0.5], ['wait', 2.0], ['ka'], ['update']]


@st.composite
def cases(draw):
    i = draw(st.integers(0, len(GRID) - 1))
    f, s, _ = GRID[i]
    pre = draw(st.lists(st.sampled_from(PRE_OPS), max_size=6)) if s.startswith('ESTABLISHED') else draw(st.lists(st.sampled_from([['wait', 0.05], ['wait', 0.5], ['wait', 2.0]]), max_size=2))
    case = {'fault': f, 'state': s, 'pre': [list(p) for p in pre], 'grid': i, 'split': draw(st.sampled_from([0, 0, 1, 7, 19]))}
    if f[0] == 'open' and s == 'OPENSENT':
        case['local_hold'] = draw(st.sampled_from([30, 0, 3, 180]))
    if s.startswith('ESTABLISHED') and f[0] == 'fault' and draw(st.integers(0, 3)) == 0:
        case['neighbor'] = 'watcher'
    return case


def check(case: dict) -> dict:
    # looked up by (fault, state), not by position: a stored case keeps its meaning when rows are added to the grid
    expected = _EXPECTED.get((repr(list(case['fault'])), case['state']))
    if expected is None:
        raise RuntimeError(f'harness: no grid row for {case["fault"]} @ {case["state"]}')
    state = case['state']
    res: dict = {}

    async def main(loop):
        routes = [f'route 40.{i // 250}.{i % 250}.0/24 next-hop 1.2.3.4 med {i % 7}' for i in range(400)] if state == 'ESTABLISHED-BATCH' else ['route 40.0.0.0/24 next-hop 1.2.3.4']
        watcher = WATCHER if case.get('neighbor') == 'watcher' else {}
        text = sc.config(hold=case.get('local_hold', 30), routes=routes, extra=watcher.get('extra', ''), api_receive=watcher.get('api_receive'))
        with nh.Harness(loop, config_text=text, env={'bgp.openwait': 12}) as hn:
            if not hn.reload_ok:
                raise RuntimeError(f'configuration refused: {hn.reactor.configuration.error}')
            runner = sc.Runner(hn)
            hn.small_buffers = bool(case.get('blocked'))
            hn.start()
            await hn.sleep(0.2)
            r = runner.alive()
            if r is None:
                raise RuntimeError('no transport')
            reached = False
            if state == 'OPENSENT':
                reached = await r.wait_message(codec.OPEN, 1, 5.0)
            elif state == 'OPENCONFIRM':
                if await r.wait_message(codec.OPEN, 1, 5.0):
                    await r.send_msg(codec.OPEN, sc.open_body('valid'))
                    reached = await r.wait_message(codec.KEEPALIVE, 1, 5.0)
            else:
                reached = await nh.establish(r, sc.open_body('valid'), timeout=5.0)
                if state == 'ESTABLISHED':
                    await hn.sleep(0.5)
            fsm_before = hn.peer(0).fsm.name()
            if case.get('blocked'):
                # the remote stops reading in the middle of the batch: a moment later exabgp's writes do not go through any more
                r.paused = True
                await hn.sleep(0.5)
            await runner.run(case['pre'])
            peer = hn.peer(0)
            res['reached'] = reached and r.closed_at is None
            res['fsm_at_injection'] = peer.fsm.name()
            n_before = len(r.messages)
            t_inject = loop.time()
            split = case.get('split', 0)
            if case['fault'][0] in ('partial', 'wait') and state == 'ESTABLISHED':
                # keep our side of the session alive is NOT wanted here: the remote falls silent after the fragment
                await runner.run([case['fault']])
            elif split and case['fault'][0] in ('fault', 'raw'):
                data = sc.fault_bytes(case['fault'][1]) if case['fault'][0] == 'fault' else bytes.fromhex(case['fault'][1])
                await r.send(data[:split])
                await hn.sleep(0.02)
                await r.send(data[split:])
            else:
                await runner.run([case['fault']])
            timer_case = case['fault'][0] in ('partial', 'wait')
            if case.get('blocked'):
                await hn.sleep(1.0)
                r.paused = False
            await r.wait_for(lambda: r.closed_at is not None, timeout=45.0 if timer_case else 6.0)
            await hn.sleep(0.2)
            res['after'] = [(t, ty, body) for t, ty, body in r.messages[n_before:]]
            res['closed_at'] = r.closed_at
            res['t_inject'] = t_inject
            res['fsm_end'] = hn.peer(0).fsm.name() if hn.reactor._peers else None
            res['same_transport_up'] = r.closed_at is None and r.connection.io is not None
            res['fsm_before'] = fsm_before

    try:
        vloop.run(main)
    except vloop.Deadlock as exc:
        raise Violation('reactor:stalls', str(exc)) from None

    label = f'{case["fault"][0]}:{case["fault"][1] if len(case["fault"]) > 1 else ""}@{state}'
    if not res['reached']:
        return {'nontrivial': False, 'classes': ['state-not-reached:' + state]}
    after = res['after']
    notes = [(i, codec.decode_notification(b)[:2]) for i, (_, ty, b) in enumerate(after) if ty == 3]
    fault_kind = case['fault'][0] + (':' + str(case['fault'][1]) if len(case['fault']) > 1 and case['fault'][0] != 'raw' else '')
    if len(notes) > 1:
        raise Violation(f'notification:sent-{len(notes)}-times', f'{label}: {[n for _, n in notes]}')
    if notes and notes[0][0] != len(after) - 1:
        trailing = [ty for _, ty, _ in after[notes[0][0] + 1 :]]
        raise Violation('notification:not-last-message', f'{label}: message types {trailing} written after the NOTIFICATION')
    if NONE_AND_CLOSE in expected:
        if notes:
            raise Violation('notification:answered-a-notification', f'{label}: replied {notes[0][1]}')
        if res['closed_at'] is None:
            raise Violation('notification:session-not-closed-after-notification-received', label)
        return {'nontrivial': True, 'classes': [f'state:{state}', 'received-notification']}
    if not notes:
        if NONE_AND_UP in expected and res['same_transport_up']:
            return {'nontrivial': True, 'classes': [f'state:{state}', 'tolerated-error', fault_kind]}
        if res['closed_at'] is not None:
            raise Violation(f'notification:closed-without-notification:{fault_kind}@{state}', f'{label}: transport closed, no NOTIFICATION; expected {sorted(map(str, expected))}')
        raise Violation(f'notification:error-ignored:{fault_kind}@{state}', f'{label}: no NOTIFICATION and the session continues; expected {sorted(map(str, expected))}')
    got = notes[0][1]
    if got not in expected:
        raise Violation(f'notification:wrong-code:{got[0]}/{got[1]}-for-{fault_kind}@{state}', f'{label}: expected one of {sorted(map(str, expected))}')
    if res['closed_at'] is None:
        raise Violation('notification:connection-left-open', label)
    classes = [f'state:{state}', f'answer:{got[0]}/{got[1]}', fault_kind]
    if case['pre']:
        classes.append('with-pre-history')
    if case.get('split'):
        classes.append('fault-split-over-two-writes')
    if 'local_hold' in case:
        classes.append(f'local-hold-time:{case["local_hold"]}')
    if case.get('neighbor'):
        classes.append(f'neighbor:{case["neighbor"]}')
    if case.get('blocked'):
        classes.append('send-buffer-full-when-the-error-arrives')
    return {'nontrivial': True, 'classes': classes}


ENGINES = [Engine('faults', cases, check, quick=120, thorough=6000, batch=100, fixed_cases=fixed_cases, thorough_s=1200.0)]


# ---------------------------------------------------------------------------- connection collision (RFC 4271 6.8, RFC 4486: Cease 6/7)
#
# A second TCP connection from the configured peer reaches the real Listener while a first one is in OPENSENT, OPENCONFIRM or
# ESTABLISHED.  Whichever connection exabgp gives up is a session it ends because of something it received: the last thing it
# writes there is one Cease NOTIFICATION (6/x), and the connection it keeps sees no NOTIFICATION at all.

COLLISION_STATES = ['ESTABLISHED', 'OPENCONFIRM-peer-id-lower', 'OPENCONFIRM-peer-id-higher', 'OPENSENT']


def collision_fixed() -> list:
    return [{'state': s, 'proactive_open': po, 'pre': []} for s in COLLISION_STATES for po in (False, True)]


@st.composite
def collision_cases(draw):
    state = draw(st.sampled_from(COLLISION_STATES))
    pre = draw(st.lists(st.sampled_from(PRE_OPS), max_size=4)) if state == 'ESTABLISHED' else []
    return {'state': state, 'proactive_open': draw(st.booleans()), 'pre': [list(p) for p in pre], 'gap': draw(st.sampled_from([0.0, 0.05, 0.3, 1.0]))}


def check_collision(case: dict) -> dict:
    state = case['state']
    res: dict = {}

    async def main(loop):
        text = sc.config(hold=30, routes=['route 40.0.0.0/24 next-hop 1.2.3.4'])
        with nh.Harness(loop, config_text=text, env={'bgp.openwait': 12}) as hn:
            if not hn.reload_ok:
                raise RuntimeError(f'configuration refused: {hn.reactor.configuration.error}')
            runner = sc.Runner(hn)
            hn.start()
            await hn.sleep(0.2)
            first = runner.alive()
            if first is None:
                raise RuntimeError('no transport')
            variant = 'rid-low' if state == 'OPENCONFIRM-peer-id-lower' else 'valid'
            reached = await first.wait_message(codec.OPEN, 1, 5.0)
            if state.startswith('OPENCONFIRM') and reached:
                await first.send_msg(codec.OPEN, sc.open_body(variant))
                reached = await first.wait_message(codec.KEEPALIVE, 1, 5.0)
            elif state == 'ESTABLISHED':
                reached = await nh.establish(first, sc.open_body('valid'), timeout=5.0)
                await hn.sleep(0.5)
                await runner.run(case['pre'])
            res['reached'] = bool(reached) and first.closed_at is None
            res['fsm'] = hn.peer(0).fsm.name()
            await hn.sleep(case.get('gap', 0.0))
            n_first = len(first.messages)
            peer_ip = str(hn.peer(0).neighbor.session.peer_address)
            second = hn.connect_from(peer_ip)
            if case['proactive_open']:
                await second.send_msg(codec.OPEN, sc.open_body(variant))
            await hn.sleep(3.0)
            res['first'] = {'after': [(ty, b) for _, ty, b in first.messages[n_first:]], 'closed': first.closed_at is not None}
            res['second'] = {'after': [(ty, b) for _, ty, b in second.messages], 'closed': second.closed_at is not None}

    try:
        vloop.run(main)
    except vloop.Deadlock as exc:
        raise Violation('reactor:stalls', str(exc)) from None
    if not res.get('reached'):
        return {'nontrivial': False, 'classes': ['collision:state-not-reached:' + state]}
    first, second = res['first'], res['second']
    if first['closed'] and second['closed']:
        given_up = [('first', first), ('second', second)]
        kept = []
    elif first['closed']:
        given_up, kept = [('first', first)], [('second', second)]
    elif second['closed']:
        given_up, kept = [('second', second)], [('first', first)]
    else:
        raise Violation(f'collision:both-connections-kept@{state}', f'two connections from one peer are open 3 s after the second arrived (fsm {res["fsm"]})')
    for name, conn in kept:
        if any(ty == 3 for ty, _ in conn['after']):
            raise Violation(f'collision:notification-on-the-kept-connection@{state}', f'{name}: {[(ty, b.hex()[:8]) for ty, b in conn["after"]]}')
    for name, conn in given_up:
        notes = [codec.decode_notification(b)[:2] for ty, b in conn['after'] if ty == 3]
        # refused: the second connection is turned away, the first is kept; dropped: the first is given up for the second;
        # accepted: the second was taken in place of the first and is closed all the same
        which = 'dropped' if name == 'first' else ('accepted' if first['closed'] else 'refused')
        if not notes:
            raise Violation(f'collision:{which}-connection-closed-without-notification', f'{state}: the {name} connection was closed with {[ty for ty, _ in conn["after"]]} written, no Cease')
        if len(notes) > 1:
            raise Violation(f'collision:notification-sent-{len(notes)}-times', f'{state}: {notes}')
        if conn['after'][-1][0] != 3:
            raise Violation('collision:notification-not-last-message', f'{state}: {[ty for ty, _ in conn["after"]]}')
        if notes[0][0] != 6:
            raise Violation(f'collision:wrong-code:{notes[0][0]}/{notes[0][1]}', f'{state}: expected Cease 6/x on the {name} connection')
    classes = ['collision', f'collision:{state}', 'collision:gave-up-' + '+'.join(n for n, _ in given_up)]
    if case['proactive_open']:
        classes.append('collision:second-connection-sends-open-at-once')
    return {'nontrivial': True, 'classes': classes}


ENGINES.append(Engine('collision', collision_cases, check_collision, quick=20, thorough=1500, batch=20, fixed_cases=collision_fixed, thorough_s=600.0))
