"""C07 - negotiated session parameters are the RFC function of the two OPENs"""

from __future__ import annotations

import struct

from hypothesis import strategies as st

from vlib import exa
from vlib.refwire import build, codec
from vlib.runner import Engine, Violation, guard

PROPERTY = 'C07'
RULE = (
    'neighbor configuration drawn as config text (families, asn4, add-path mode+families, extended next hop, route-refresh, '
    'extended-message, hold-time, 2/4-byte local AS, graceful-restart, host/domain names up to 255 bytes) x peer OPEN built byte by byte '
    '(any subset/order/duplication of capabilities, one-per-parameter or grouped, RFC 9072 form, unknown codes, bad fixed fields); '
    'non-trivial = the two capability sets differ in >= 2 negotiable options, or the OPEN uses the RFC 9072 form, or a 4-byte AS is involved, '
    'or the peer OPEN must be refused'
)
ASSUMPTIONS = [
    'refwire (independent OPEN reader/writer) and refneg() below are trusted',
    'peer OPENs are self-consistent: the 2-byte field is the AS itself or AS_TRANS when it does not fit; one ADD-PATH entry per family',
    'with no MP capability from the peer both {} and {ipv4 unicast} & ours are accepted as family set',
    'ADD-PATH directions are compared only for negotiated families',
]

FAMILIES = {
    'ipv4 unicast': (1, 1),
    'ipv4 multicast': (1, 2),
    'ipv4 nlri-mpls': (1, 4),
    'ipv4 mpls-vpn': (1, 128),
    'ipv4 flow': (1, 133),
    'ipv6 unicast': (2, 1),
    'ipv6 nlri-mpls': (2, 4),
    'ipv6 mpls-vpn': (2, 128),
    'ipv6 flow': (2, 133),
    'l2vpn vpls': (25, 65),
    'l2vpn evpn': (25, 70),
    'ipv4 mcast-vpn': (1, 5),
    'ipv6 mcast-vpn': (2, 5),
    'ipv4 flow-vpn': (1, 134),
    'ipv6 flow-vpn': (2, 134),
    'ipv4 mup': (1, 85),
    'ipv6 mup': (2, 85),
    'ipv4 sr-policy': (1, 73),
    'ipv6 sr-policy': (2, 73),
    'bgp-ls bgp-ls': (16388, 71),
    'bgp-ls bgp-ls-vpn': (16388, 72),
}
ADDPATH_OK = [(1, 1), (2, 1), (1, 4), (2, 4), (1, 128), (2, 128), (1, 85), (2, 85)]
EXT_NH = {'ipv4 unicast ipv6': (1, 1, 2), 'ipv4 multicast ipv6': (1, 2, 2), 'ipv4 nlri-mpls ipv6': (1, 4, 2), 'ipv4 mpls-vpn ipv6': (1, 128, 2)}
ASNS = [1, 64512, 65000, 65535, 23456, 65536, 70000, 4200000000, 4294967295]
ADDPATH_MODE = {0: 'disable', 1: 'receive', 2: 'send', 3: 'send/receive'}
# codes exabgp gives no meaning to
UNKNOWN_CODES = [0x07, 0x08, 0x0A, 0x42, 0x47, 0x48, 0x4A, 0x81, 0x83, 0xC8, 0xEE]
# pre-standard (private use) codes that exabgp decodes with the class of a standard capability: they negotiate nothing
PRESTANDARD_CODES = [0x80, 0x83]


@st.composite
def ours(draw):
    fams = draw(st.one_of(st.lists(st.sampled_from(sorted(FAMILIES)), min_size=1, max_size=6, unique=True), st.lists(st.sampled_from(sorted(FAMILIES)), min_size=15, max_size=21, unique=True)))
    ap_mode = draw(st.sampled_from([0, 0, 1, 2, 3, 3]))
    ap_candidates = [f for f in fams if FAMILIES[f] in ADDPATH_OK]
    ap_fams = draw(st.lists(st.sampled_from(ap_candidates), unique=True, min_size=1)) if (ap_mode and ap_candidates and draw(st.booleans())) else None
    nh = draw(st.booleans())
    # exabgp documents that an extended next hop entry needs both the NLRI family and the next-hop AFI's family configured
    fset = [FAMILIES[f] for f in fams]
    nh_candidates = [k for k, v in EXT_NH.items() if (v[0], v[1]) in fset and (v[2], v[1]) in fset]
    nh_entries = draw(st.lists(st.sampled_from(nh_candidates), unique=True, min_size=1)) if (nh and nh_candidates) else []
    local_as = draw(st.sampled_from(ASNS))
    ibgp = draw(st.booleans())
    return {
        'families': fams,
        # a 4-byte local AS cannot be expressed without the 4-byte AS capability: such a configuration is not generated
        'asn4': draw(st.booleans()) or local_as > 65535,
        'addpath_mode': ap_mode,
        'addpath_families': ap_fams,
        'nexthop': nh,
        'nexthop_entries': nh_entries,
        'refresh': draw(st.booleans()),
        'ext_msg': draw(st.booleans()),
        'hold': draw(st.sampled_from([0, 3, 4, 30, 90, 180, 65535])),
        'local_as': local_as,
        'peer_as': local_as if ibgp else draw(st.sampled_from(ASNS)),
        'gr': draw(st.sampled_from([None, None, 0, 120, 4095])),
        'host_len': draw(st.sampled_from([0, 3, 3, 60, 200, 255])),
        'domain_len': draw(st.sampled_from([0, 5, 5, 120, 255])),
        'router_id': draw(st.sampled_from(['1.2.3.4', '10.0.0.1', '255.255.255.254'])),
        # rarely used settings: each is one capability code in our OPEN, there or not
        'multi_session': draw(st.sampled_from([False, False, False, True])),
        'operational': draw(st.sampled_from([False, False, False, True])),
        'software_version': draw(st.sampled_from([False, False, False, True])),
    }


@st.composite
def theirs(draw, our):
    """a peer OPEN: semantic description, rendered to bytes by peer_open_bytes()"""
    true_as = draw(st.sampled_from([our['peer_as']] * 40 + ASNS))
    asn4 = draw(st.booleans()) or true_as > 65535
    caps: list = []
    our_f = [FAMILIES[f] for f in our['families']]
    pool = our_f + [FAMILIES[f] for f in sorted(FAMILIES)]
    mp = draw(st.lists(st.sampled_from(our_f * 3 + pool), max_size=9))  # duplicates allowed
    for f in mp:
        caps.append(['mp', list(f)])
    if asn4:
        caps.append(['asn4', true_as])
    ap_pool = [f for f in our_f if f in ADDPATH_OK] * 3 + ADDPATH_OK + [(1, 133), (25, 70)]
    ap_entries = draw(st.lists(st.tuples(st.sampled_from(ap_pool), st.sampled_from([0, 1, 2, 3, 3, 3])), max_size=5, unique_by=lambda e: e[0]))
    if ap_entries:
        if len(ap_entries) > 1 and draw(st.booleans()):
            k = draw(st.integers(1, len(ap_entries) - 1))
            caps.append(['addpath', [[a, s, b] for (a, s), b in ap_entries[:k]]])
            caps.append(['addpath', [[a, s, b] for (a, s), b in ap_entries[k:]]])
        else:
            caps.append(['addpath', [[a, s, b] for (a, s), b in ap_entries]])
    nh_entries = draw(st.lists(st.sampled_from(sorted(EXT_NH.values()) + [(2, 1, 1)]), max_size=4, unique=True))
    if nh_entries:
        caps.append(['ext_nh', [list(e) for e in nh_entries]])
    if draw(st.booleans()):
        caps.append(['refresh'])
    if draw(st.booleans()):
        caps.append(['erefresh'])
    if draw(st.booleans()):
        caps.append(['ext_msg'])
    if draw(st.booleans()):
        caps.append(['gr', draw(st.integers(0, 15)), draw(st.integers(0, 4095)), [list(f) + [draw(st.sampled_from([0, 128]))] for f in mp[:2]]])
    if draw(st.booleans()):
        caps.append(['hostname', draw(st.text(max_size=20)).encode('utf-8').hex(), draw(st.text(max_size=20)).encode('utf-8').hex()])
    for _ in range(draw(st.integers(0, 3))):
        caps.append(['unknown', draw(st.sampled_from(UNKNOWN_CODES)), draw(st.binary(max_size=60)).hex()])
    if draw(st.integers(0, 3)) == 0:
        caps.append(['unknown', draw(st.sampled_from(PRESTANDARD_CODES)), ''])
    if our.get('multi_session') and draw(st.integers(0, 2)) > 0:
        # the draft's capability: a flags octet, then the capability codes that identify a session (we send: MULTIPROTOCOL)
        caps.append(['unknown', 0x44, draw(st.sampled_from(['0001', '0001', '00', '000141']))])
    if draw(st.integers(0, 9)) == 0:
        # push the optional parameters past 255 bytes
        for _ in range(draw(st.integers(2, 5))):
            caps.append(['unknown', draw(st.sampled_from(UNKNOWN_CODES)), draw(st.binary(min_size=100, max_size=200)).hex()])
    caps = draw(st.permutations(caps))
    fault = draw(st.sampled_from([None] * 14 + ['version', 'rid0', 'hold1', 'hold2', 'auth', 'truncate', 'same_rid']))
    return {
        'as': true_as,
        'hold': draw(st.sampled_from([0, 3, 9, 30, 90, 180, 240, 65535])),
        'router_id': draw(st.sampled_from([0x0A000002, 0x01020305, 0xFFFFFFFE, 1])),
        'caps': list(caps),
        'grouping': draw(st.sampled_from(['each', 'one'])),
        'extended': draw(st.sampled_from([None, None, None, True])),
        'fault': fault,
        'truncate_at': draw(st.integers(0, 40)),
        # total length of the optional parameters steered onto the one-octet boundary (254 / 255 in the RFC 4271 form,
        # 255 / 256 in the RFC 9072 form) with an unknown capability as filler
        'pad_to': draw(st.sampled_from([None, None, None, 253, 254, 255, 256])),
    }


@st.composite
def cases(draw):
    our = draw(ours())
    case = {'ours': our, 'theirs': draw(theirs(our))}
    if draw(st.integers(0, 2)) == 0:
        # another session of the same process received this OPEN before ours is built (daemon with several neighbors,
        # or a reconnection): what we advertise and negotiate must not depend on it
        case['earlier'] = draw(theirs(our))
    return case


def cap_bytes(c: list) -> bytes:
    kind = c[0]
    if kind == 'mp':
        return build.cap_mp(c[1][0], c[1][1])
    if kind == 'asn4':
        return build.cap_asn4(c[1])
    if kind == 'addpath':
        return build.cap_addpath([tuple(e) for e in c[1]])
    if kind == 'ext_nh':
        return build.cap_ext_nh([tuple(e) for e in c[1]])
    if kind == 'refresh':
        return build.cap_refresh()
    if kind == 'erefresh':
        return build.cap_erefresh()
    if kind == 'ext_msg':
        return build.cap_ext_msg()
    if kind == 'gr':
        return build.cap_gr(c[1], c[2], [tuple(e) for e in c[3]])
    if kind == 'hostname':
        return build.cap_hostname(bytes.fromhex(c[1]), bytes.fromhex(c[2]))
    if kind == 'unknown':
        return build.capability(c[1], bytes.fromhex(c[2]))
    raise ValueError(kind)


def peer_open_bytes(p: dict, our_router_id: int) -> bytes:
    asn2 = p['as'] if p['as'] <= 65535 else codec.AS_TRANS
    version = 4
    hold = p['hold']
    rid = p['router_id']
    fault = p['fault']
    if fault == 'version':
        version = 3
    elif fault == 'rid0':
        rid = 0
    elif fault == 'hold1':
        hold = 1
    elif fault == 'hold2':
        hold = 2
    elif fault == 'same_rid':
        rid = our_router_id
    caps = [cap_bytes(c) for c in p['caps']]
    if p['grouping'] == 'one' and sum(len(c) for c in caps) > 255 and not p['extended']:
        grouping = 'each'
    else:
        grouping = p['grouping']
    if grouping == 'one':
        params = [(2, b''.join(caps))] if caps else []
    else:
        params = [(2, c) for c in caps]
    if fault == 'auth':
        params.insert(0, (1, b'\x00\x01\x02'))
    extended = p['extended']
    if any(len(v) > 255 for _, v in params):
        extended = True
    pad_to = p.get('pad_to')
    if pad_to and fault not in ('truncate',):
        per = 3 if extended else 2  # parameter header: type + one or two length octets
        total = sum(per + len(v) for _, v in params)
        gap = pad_to - total - per - 2  # room for the value of an unknown capability (code, length, value)
        if 0 <= gap <= 255 and (extended or pad_to <= 255):
            params.append((2, bytes([0xE7, gap]) + bytes(gap)))
    body = build.open_body(version, asn2, hold, rid, params, extended)
    if fault == 'truncate':
        cut = 10 + p['truncate_at']
        if cut >= len(body):
            cut = len(body) - 1
        body = body[:cut]
    return body


def config_text(o: dict) -> str:
    cap = {
        'asn4': 'enable' if o['asn4'] else 'disable',
        'add-path': ADDPATH_MODE[o['addpath_mode']],
        'nexthop': 'enable' if o['nexthop'] else 'disable',
        'route-refresh': 'enable' if o['refresh'] else 'disable',
        'extended-message': 'enable' if o['ext_msg'] else 'disable',
        'graceful-restart': 'disable' if o['gr'] is None else str(o['gr']),
        'multi-session': 'enable' if o.get('multi_session') else 'disable',
        'operational': 'enable' if o.get('operational') else 'disable',
        'software-version': 'enable' if o.get('software_version') else 'disable',
    }
    extra = ''
    if o['host_len']:
        extra += '  host-name %s;\n' % ('h' * o['host_len'])
    if o['domain_len']:
        extra += '  domain-name %s;\n' % ('d' * o['domain_len'])
    return exa.neighbor_text(
        local_as=o['local_as'],
        peer_as=o['peer_as'],
        router_id=o['router_id'],
        hold=o['hold'],
        families=o['families'],
        capability=cap,
        addpath_families=o['addpath_families'],
        nexthop=o['nexthop_entries'] or None,
        extra=extra.rstrip('\n'),
    )


def rid_int(text: str) -> int:
    a, b, c, d = (int(x) for x in text.split('.'))
    return (a << 24) | (b << 16) | (c << 8) | d


# ---------------------------------------------------------------------------- reference negotiation


def refneg(o: dict, sem: dict, peer: dict) -> dict:
    our_f = [FAMILIES[f] for f in o['families']]
    fams = {f for f in sem['mp'] if f in our_f}
    asn4 = o['asn4'] and sem['asn4'] is not None
    asn2 = peer['as'] if peer['as'] <= 65535 else codec.AS_TRANS
    peer_as = sem['asn4'] if asn4 else asn2
    ap_f = [FAMILIES[f] for f in (o['addpath_families'] if o['addpath_families'] is not None else o['families'])]
    ap_f = [f for f in ap_f if f in ADDPATH_OK]
    send, recv = {}, {}
    for f in fams:
        mine = o['addpath_mode'] if f in ap_f else 0
        his = sem['addpath'].get(f, 0)
        send[f] = bool(mine & 2) and bool(his & 1)
        recv[f] = bool(mine & 1) and bool(his & 2)
    our_nh = [EXT_NH[e] for e in o['nexthop_entries']] if o['nexthop'] else []
    nexthop = {e for e in sem['ext_nh'] if e in our_nh}
    if o['refresh'] and sem['erefresh']:
        refresh = 'enhanced'
    elif o['refresh'] and sem['refresh']:
        refresh = 'normal'
    else:
        refresh = 'absent'
    return {
        'families': fams,
        'asn4': asn4,
        'peer_as': peer_as,
        'local_as': o['local_as'],
        'send': send,
        'recv': recv,
        'nexthop': nexthop,
        'refresh': refresh,
        'msg_size': 65535 if (o['ext_msg'] and sem['ext_msg']) else 4096,
        'hold': min(o['hold'], peer['hold']),
    }


def expected_refusal(o: dict, p: dict, sem_ok: bool) -> set | None:
    """set of acceptable (code, subcode), or None when the OPEN must be accepted"""
    fault = p['fault']
    if fault == 'version':
        return {(2, 1)}
    if fault == 'truncate':
        return {(2, 0), (1, 2), 'maybe-valid'}
    if fault == 'auth':
        return {(2, 5)}
    asn4 = o['asn4'] and any(c[0] == 'asn4' for c in p['caps'])
    asn2 = p['as'] if p['as'] <= 65535 else codec.AS_TRANS
    seen_as = p['as'] if asn4 else asn2
    if seen_as != o['peer_as']:
        return {(2, 2)}
    if fault == 'rid0':
        return {(2, 3)}
    if (fault == 'same_rid' or p['router_id'] == rid_int(o['router_id'])) and o['local_as'] == o['peer_as']:
        return {(2, 3)}
    if fault in ('hold1', 'hold2'):
        return {(2, 6)}
    return None


_BASELINE_OPEN = build.open_body(
    4, 65000, 90, 0x0A000002, [(2, build.cap_mp(1, 1) + build.cap_refresh() + build.cap_erefresh() + build.capability(0x44, b''))], False
)


def _decode_quietly(neighbor, body: bytes) -> None:
    """an OPEN of another session: only its effect on the process matters here, whatever it yields is judged elsewhere"""
    try:
        exa.Message.unpack(1, body, exa.Negotiated.make_negotiated(neighbor, exa.Direction.IN))
    except Exception:  # noqa: BLE001
        pass


def check(case: dict) -> dict:
    o, p = case['ours'], case['theirs']
    text = config_text(o)
    try:
        conf, neighbor = exa.neighbor_from_text(text)
    except exa.ConfigError as exc:
        raise Violation('config-refused', f'{exc} for {text}') from None

    classes = []
    # every case starts from the same process state: an OPEN carrying the standard codes was the last one decoded
    _decode_quietly(neighbor, _BASELINE_OPEN)
    if case.get('earlier'):
        _decode_quietly(neighbor, peer_open_bytes(case['earlier'], rid_int(o['router_id'])))
        classes.append('earlier-open-decoded')
        if any(c[0] == 'unknown' and c[1] in PRESTANDARD_CODES for c in case['earlier']['caps']):
            classes.append('earlier-open-decoded:pre-standard-code')
    # ---- (1) what we advertise, and round trip
    sent = guard('our-open', exa.our_open, neighbor)
    wire = bytes(guard('our-open-pack', sent.pack_message, exa.Negotiated.UNSET))
    if wire[:16] != codec.MARKER or struct.unpack('!H', wire[16:18])[0] != len(wire) or wire[18] != 1:
        raise Violation('our-open:header', wire[:19].hex())
    try:
        d = codec.decode_open(wire[19:])
    except codec.Malformed as exc:
        raise Violation('our-open:unparseable', f'{exc} {wire.hex()}') from None
    sem = codec.caps_semantics(d['caps'])
    optlen = len(wire) - 19 - 10
    if d['extended_params']:
        classes.append('our-open-rfc9072')
    if optlen > 255 and not d['extended_params']:
        raise Violation('our-open:classic-form-over-255', str(optlen))
    exp_asn2 = o['local_as'] if o['local_as'] <= 65535 else codec.AS_TRANS
    problems = []
    if d['version'] != 4:
        problems.append('version')
    if d['asn2'] != exp_asn2:
        problems.append(f'asn2 {d["asn2"]} != {exp_asn2}')
    if d['hold'] != o['hold']:
        problems.append(f'hold {d["hold"]} != {o["hold"]}')
    if d['router_id'] != rid_int(o['router_id']):
        problems.append('router-id')
    if sorted(sem['mp']) != sorted(FAMILIES[f] for f in o['families']):
        problems.append(f'mp {sem["mp"]}')
    if (sem['asn4'] is not None) != o['asn4'] or (o['asn4'] and sem['asn4'] != o['local_as']):
        problems.append(f'asn4 {sem["asn4"]}')
    ap_f = [FAMILIES[f] for f in (o['addpath_families'] if o['addpath_families'] is not None else o['families'])]
    exp_ap = {f: o['addpath_mode'] for f in ap_f if f in ADDPATH_OK} if o['addpath_mode'] else {}
    if {k: v for k, v in sem['addpath'].items() if v} != exp_ap:
        problems.append(f'addpath {sem["addpath"]} != {exp_ap}')
    exp_nh = sorted(EXT_NH[e] for e in o['nexthop_entries']) if o['nexthop'] else []
    if sorted(sem['ext_nh']) != exp_nh:
        problems.append(f'ext-nh {sem["ext_nh"]} != {exp_nh}')
    if sem['refresh'] != o['refresh'] or sem['erefresh'] != o['refresh']:
        problems.append('refresh')
    if sem['ext_msg'] != o['ext_msg']:
        problems.append('ext-msg')
    if (sem['gr'] is not None) != (o['gr'] is not None):
        problems.append('gr')
    if sem['gr'] is not None and o['gr']:
        if sem['gr'][1] != o['gr']:
            problems.append(f'gr time {sem["gr"][1]} != {o["gr"]}')
    if sem['malformed']:
        problems.append(f'malformed caps {sem["malformed"]}')
    if sem['hostname'] is not None:
        host, dom = sem['hostname']
        # exabgp documents a 64 byte limit on the names it sends (HOSTNAME_MAX_LEN): longer names are compared on that prefix
        if o['host_len'] and host != b'h' * min(o['host_len'], 64):
            problems.append('hostname')
        if o['domain_len'] and dom != b'd' * min(o['domain_len'], 64):
            problems.append('domainname')
    elif o['host_len']:
        problems.append('hostname capability missing')
    # the OPEN advertises EXACTLY what the configuration enables: the set of capability codes on the wire, nothing more, nothing less
    want_codes = {1}
    if o['asn4']:
        want_codes.add(65)
    if exp_ap:
        want_codes.add(69)
    if exp_nh:
        want_codes.add(5)
    if o['refresh']:
        want_codes |= {2, 70}
    if o['ext_msg']:
        want_codes.add(6)
    if o['gr'] is not None:
        want_codes.add(64)
    if o['host_len'] or sem['hostname'] is not None:  # (a domain name alone sends nothing: the capability is the host name's)
        want_codes.add(73)
    if o.get('multi_session'):
        want_codes.add(0x44)
    if o.get('operational'):
        want_codes.add(0xB9)
    if o.get('software_version'):
        want_codes.add(0x4B)
    got_codes = {code for code, _ in d['caps']}
    if got_codes != want_codes and not problems:
        problems.append(f'codes on the wire {sorted(got_codes)} for a configuration that enables {sorted(want_codes)}')
    if problems:
        raise Violation('our-open:advertises:' + problems[0].split(' ')[0], '; '.join(problems))

    try:
        back = exa.Message.unpack(1, wire[19:], exa.Negotiated.make_negotiated(neighbor, exa.Direction.IN))
        rewire = bytes(back.pack_message(exa.Negotiated.UNSET))
    except exa.Notify as exc:
        raise Violation('our-open:roundtrip-refused', f'{exc.code}/{exc.subcode} {wire.hex()}') from None
    except Exception as exc:  # noqa: BLE001
        raise Violation(f'our-open:roundtrip:{type(exc).__name__}', repr(exc)) from exc
    if rewire != wire:
        raise Violation('our-open:roundtrip-differs', f'{wire.hex()} -> {rewire.hex()}')

    # ---- (2)/(3) negotiation against the peer OPEN
    body = peer_open_bytes(p, rid_int(o['router_id']))
    refused = None
    neg = None
    try:
        neg = exa.negotiate(neighbor, body, exa.Direction.IN, sent)
        err = neg.validate(neighbor)
        if err is not None:
            refused = (err[0], err[1])
    except exa.Notify as exc:
        refused = (exc.code, exc.subcode)
    except Exception as exc:  # noqa: BLE001
        from vlib.runner import exception_signature

        raise Violation(exception_signature('peer-open', exc), f'{exc!r} on {body.hex()}') from exc

    try:
        pd = codec.decode_open(body)
        wellformed = True
    except codec.Malformed:
        pd = None
        wellformed = False
    expected = expected_refusal(o, p, wellformed)
    nontrivial = False
    if p['fault'] == 'truncate':
        classes.append('truncated')
        if wellformed:
            # the cut fell on a boundary that leaves a well-formed, different OPEN: nothing is demanded
            return {'nontrivial': False, 'classes': classes + ['truncated-but-wellformed']}
        if refused is None:
            raise Violation('refusal:truncated-accepted', body.hex())
        if refused not in expected:
            raise Violation(f'refusal:truncated-answered-{refused[0]}/{refused[1]}', body.hex())
        return {'nontrivial': True, 'classes': classes}
    if expected is not None:
        classes.append(f'refuse:{p["fault"] or "as"}')
        if refused is None:
            raise Violation(f'refusal:missing:{p["fault"] or "peer-as"}', f'expected {expected} for {body.hex()}')
        if refused not in expected:
            raise Violation(f'refusal:wrong-code:{p["fault"] or "peer-as"}', f'{refused} not in {expected}')
        return {'nontrivial': True, 'classes': classes}

    if refused is not None and o.get('multi_session') and refused in ((2, 8), (2, 9)):
        # `multi-session enable` makes the capability mandatory for the peer (ExaBGP's documented reading of the draft): a peer
        # that does not offer it, or offers another session identifier, is turned away - nothing the RFCs settle either way
        return {'nontrivial': False, 'classes': classes + ['multi-session-mandatory:peer-refused']}
    if refused is not None:
        raise Violation(f'refusal:spurious:{refused[0]}/{refused[1]}', f'valid OPEN {body.hex()} refused')

    psem = codec.caps_semantics(pd['caps'])
    if psem['malformed']:
        return {'nontrivial': False, 'classes': classes + ['peer-malformed-cap']}
    ref = refneg(o, psem, p)

    got_f = {(int(a), int(s)) for a, s in neg.families}
    allowed_f = [ref['families']]
    if not psem['mp']:
        allowed_f.append({(1, 1)} & {FAMILIES[f] for f in o['families']})
    if got_f not in allowed_f:
        raise Violation('negotiated:families', f'{sorted(got_f)} expected {sorted(ref["families"])}')
    if bool(neg.asn4) != ref['asn4']:
        raise Violation('negotiated:asn4', f'{neg.asn4} expected {ref["asn4"]}')
    if int(neg.peer_as) != ref['peer_as']:
        raise Violation('negotiated:peer_as', f'{int(neg.peer_as)} expected {ref["peer_as"]}')
    if int(neg.local_as) != ref['local_as']:
        raise Violation('negotiated:local_as', f'{int(neg.local_as)} expected {ref["local_as"]}')
    from exabgp.protocol.family import AFI, SAFI

    for f in ref['families']:
        a, s = AFI.from_int(f[0]) if hasattr(AFI, 'from_int') else AFI(f[0]), SAFI(f[1])
        if bool(neg.addpath.send(a, s)) != ref['send'][f]:
            raise Violation('negotiated:addpath-send', f'{f}: {neg.addpath.send(a, s)} expected {ref["send"][f]}')
        if bool(neg.addpath.receive(a, s)) != ref['recv'][f]:
            raise Violation('negotiated:addpath-receive', f'{f}: {neg.addpath.receive(a, s)} expected {ref["recv"][f]}')
    got_nh = {(int(a), int(s), int(n)) for a, s, n in neg.nexthop}
    if got_nh != ref['nexthop']:
        raise Violation('negotiated:nexthop', f'{sorted(got_nh)} expected {sorted(ref["nexthop"])}')
    from exabgp.bgp.message.open.capability.refresh import REFRESH

    got_r = {REFRESH.ENHANCED: 'enhanced', REFRESH.NORMAL: 'normal', REFRESH.ABSENT: 'absent'}.get(neg.refresh, str(neg.refresh))
    if got_r != ref['refresh']:
        raise Violation('negotiated:refresh', f'{got_r} expected {ref["refresh"]}')
    if neg.msg_size != ref['msg_size']:
        raise Violation('negotiated:msg_size', f'{neg.msg_size} expected {ref["msg_size"]}')
    if int(neg.holdtime) != ref['hold']:
        raise Violation('negotiated:holdtime', f'{int(neg.holdtime)} expected {ref["hold"]}')

    # non-triviality: how many negotiable options differ between the two sides
    differ = 0
    differ += set(psem['mp']) != {FAMILIES[f] for f in o['families']}
    differ += (psem['asn4'] is not None) != o['asn4']
    differ += bool(psem['addpath']) != bool(o['addpath_mode'])
    differ += bool(psem['ext_nh']) != bool(o['nexthop_entries'])
    differ += psem['ext_msg'] != o['ext_msg']
    differ += (psem['refresh'] or psem['erefresh']) != o['refresh']
    differ += p['hold'] != o['hold']
    nontrivial = differ >= 2 or pd['extended_params'] or d['extended_params'] or o['local_as'] > 65535 or p['as'] > 65535
    if pd['extended_params']:
        classes.append('peer-open-rfc9072')
    if p.get("pad_to") and len(body) > 9 and (body[9] in (253, 254, 255) or pd["extended_params"]):
        classes.append(f'peer-open-optional-parameters-length-steered:{p["pad_to"]}')
    if o['local_as'] > 65535:
        classes.append('local-as4')
    if p['as'] > 65535:
        classes.append('peer-as4')
    if any(ref['send'].values()) or any(ref['recv'].values()):
        classes.append('addpath-negotiated')
    if ref['nexthop']:
        classes.append('ext-nh-negotiated')
    classes.append('accepted')
    return {'nontrivial': bool(nontrivial), 'classes': classes}


ENGINES = [Engine('opens', cases, check, quick=600, thorough=12000, batch=300)]
