"""C03 - no peer input can crash or wedge the speaker"""

from __future__ import annotations

import json
import os
import shutil
import struct
import subprocess
import sys
import tempfile

from hypothesis import strategies as st

from vlib import c03_corpus as corpus
from vlib import c03_mutate as mut
from vlib import c03_registry as registry
from vlib import c03_target as target
from vlib.refwire import build
from vlib.refwire import strategies as ws
from vlib.runner import HERE, Engine, Violation, load_findings, sig_matches

PROPERTY = 'C03'
QUICK_SHARDS = 4
THOROUGH_SHARDS = 8

try:
    import atheris  # noqa: F401

    ATHERIS = True
except Exception:  # noqa: BLE001
    ATHERIS = False

RULE = (
    'one entry point for every engine: Message.unpack(type, body, negotiated) then everything read_message and the three API encoders '
    '(JSON v6, JSON v4, text v4) do with the result, the RIB index of every NLRI, and for an OPEN Negotiated.received()/validate(); '
    '14 negotiated parameter sets built from two OPENs (before the peer OPEN, asn4 on/off, add-path on/off, unicast/multicast/labeled/VPN, flow and flow-vpn, '
    'evpn+vpls, bgp-ls, mup+mcast-vpn+sr-policy, extended next hop, every family with 65535-byte messages). '
    'mutated: a well-formed message (refwire UPDATE for the IP families, refwire OPEN, the 150 qa messages for the exotic families, small messages) with exactly ONE '
    'structured corruption located on its TLV tree (length field +-k / zero / max / one past the enclosing end, truncation raw, repaired, or nested, '
    'emptied TLV, duplicated or deleted TLV, padded TLV, flipped or set byte; AS_PATH segment counts, prefix bit lengths, nested sub-TLVs included). '
    'valid-unusual: messages valid per the RFCs built with refwire (up to (msg_size-23)//3 unknown optional attributes, 255-AS segments, 1000+ NLRIs, '
    'exactly maximum-size messages with and without extended messages, OPEN with the maximum number of capabilities, RFC 9072 extended parameters); they must decode. '
    'sweep (enumerated): one qa message per structural shape (66 shapes: message type, MP family, route and sub-TLV types), every byte set to 0 / 0x80 / 0xff / +1 / -1 and every TLV cut to '
    'its first 1..8, half, all-but-one bytes with the enclosing lengths repaired (thorough: 10 values per byte, every cut, repaired and nested). '
    'registry (enumerated): every type code the decoders dispatch on (attribute codes and flags, BGP-LS attribute and descriptor TLVs, prefix-SID / SRv6 sub-TLVs, tunnel-encap sub-TLVs and '
    'segments, PMSI, AIGP, extended-community types, EVPN/MVPN/MUP/BGP-LS/VPLS/SR-policy/FlowSpec routes, labeled and VPN prefix lengths, capability codes, operational types) with a filler of every short length. '
    'bytes: random bytes, corpus splices, corpus messages under the wrong type or parameter set. '
    'atheris: coverage-guided libFuzzer campaign on the same entry point (fuzz/fuzz_decode.py), its findings replay through the bytes engine. '
    'Non-trivial = the outcome is a decode, or at least one attribute / capability / NLRI object was constructed before the refusal'
)
ASSUMPTIONS = [
    'a NOTIFICATION code/subcode is "defined" when it is in RFC 4271/4486/5492/6608/7313/8538/9234/9384 or one of the extensions exabgp documents (2/8-10, 7/2); subcode 0 is accepted for every code',
    'which code a malformed input gets is not checked (C08/C10)',
    f'work bound: Python call events <= {target.COST_A} + {target.COST_B} * len(body) (qa corpus fits 650 + 60 * len; at least 10x slack on both) and stack depth <= {target.DEPTH_MAX} '
    '(deepest qa message 23 frames: room for about 95 attributes of per-attribute recursion); a decode is abandoned at six times the bound; '
    'wall time is not an oracle, except a 20 CPU-second watchdog that reports a decode which makes no call at all and never returns; '
    'the enumerated engines measure calls, depth and inner objects on one case in four (sweep) or eight (registry) and the calls alone on the others; after three abandoned decodes a shard skips its remaining cases',
    'valid-unusual with repeated unknown attribute codes: RFC 7606 3.g keeps the first and discards the rest, RFC 4271 6.3 allowed 3/1; both are accepted, any other refusal is a violation',
    'an exception other than Notify inside Message.unpack would be answered 1/0 by the catch-all of read_message (signature prefix decode:), one raised while the '
    'decoded message is rendered escapes read_message (prefix render:); both break the property',
    'atheris engine: ' + ('atheris 3.1 available' if ATHERIS else 'ATHERIS NOT IMPORTABLE - only the Hypothesis engines ran'),
]

NNEG = len(target.NEG_TABLE)
IP_CODES = set(ws.IP_FAMILIES)


def session_of(neg: int) -> dict:
    spec = target.NEG_SPECS[neg]
    fams = [list(target.FAMILY_CODE[f]) for f in spec['families'] if target.FAMILY_CODE[f] in IP_CODES]
    ap = [list(target.FAMILY_CODE[f]) for f in spec['addpath']] if spec.get('received', True) else []
    return {'asn4': bool(spec['asn4']) if spec.get('received', True) else False, 'families': fams, 'addpath': ap, 'peer_as': 65001}


def addpath_for(neg: int):
    ap = {tuple(x) for x in session_of(neg)['addpath']}
    return lambda a, s: (a, s) in ap


# ---------------------------------------------------------------------------- the shared check


WATCHDOG_S = 20  # CPU seconds
_WEDGED = [0]  # decodes abandoned in this process (work budget or watchdog)


class _Stuck(BaseException):
    pass


def _alarm(_signo, _frame):
    raise _Stuck()


def guarded(msg_type: int, body: bytes, neg: int, metered: bool = True) -> tuple:
    """target.measured under a last-resort watchdog: the work bound abandons a loop that makes calls, this one a loop that makes none"""
    import signal

    previous = signal.signal(signal.SIGVTALRM, _alarm)
    signal.setitimer(signal.ITIMER_VIRTUAL, WATCHDOG_S)
    try:
        # metered = calls, stack depth and inner objects; otherwise the calls only (the work budget applies to every case)
        return target.measured(msg_type, body, target.negotiated_for(neg), light=not metered)
    except _Stuck:
        return ('violation', 'no-termination:watchdog', f'still decoding after {WATCHDOG_S} s of CPU'), target.Meter(light=True)
    finally:
        signal.setitimer(signal.ITIMER_VIRTUAL, 0)
        signal.signal(signal.SIGVTALRM, previous)


def judge(case: dict, expect_ok: bool = False, accept: tuple = ()) -> dict:
    msg_type = int(case['type'])
    neg = int(case['neg']) % NNEG
    body = bytes.fromhex(case['hex']) if 'hex' in case else case['_body']
    body = body[: target.msg_size(neg) - 19]
    metered = case.get('meter', True) is not False
    if _WEDGED[0] >= 3:
        # three decodes were already abandoned in this process (each reported): the rest is not worth a budget's worth of CPU per case
        return {'nontrivial': False, 'classes': ['skipped:decoder-already-wedged-3-times']}
    outcome, meter = guarded(msg_type, body, neg, metered)
    if outcome[0] == 'violation' and outcome[1].split(':')[0] in ('cost', 'no-termination'):
        _WEDGED[0] += 1
    classes = [f'type:{msg_type if msg_type in (1, 2, 3, 4, 5, 6) else "unknown"}', f'neg:{target.NEG_NAMES[neg]}']
    shown = body.hex() if len(body) <= 600 else f'{body[:300].hex()}...({len(body)} bytes)'
    where = f'type {msg_type} neg {neg}:{target.NEG_NAMES[neg]} body {shown}'
    if outcome[0] == 'violation':
        if target.tolerated(outcome[1]):
            return {'nontrivial': False, 'classes': classes + [f'tolerated:{outcome[1]}']}
        raise Violation(outcome[1], f'{outcome[2]} for {where}')
    bad = target.cost_violation(meter, len(body))
    if bad:
        # a first execution pays for lazy imports: measure again before believing it
        outcome, meter = guarded(msg_type, body, neg)
        bad = target.cost_violation(meter, len(body))
        if bad:
            if target.tolerated(bad[1]):
                return {'nontrivial': False, 'classes': classes + [f'tolerated:{bad[1]}']}
            raise Violation(bad[1], f'{bad[2]} for {where}')
    if outcome[0] == 'notify':
        label = f'notify:{outcome[1]}/{outcome[2]}'
        if expect_ok and (outcome[1], outcome[2]) not in accept:
            sig = f'valid-refused:{case.get("shape", "?")}:{outcome[1]}/{outcome[2]}'
            if target.tolerated(sig):
                return {'nontrivial': False, 'classes': classes + [f'tolerated:{sig}']}
            raise Violation(sig, f'a valid message was refused with {outcome[1]}/{outcome[2]}: {where}')
    else:
        label = f'ok:{outcome[1]}'
    classes.append(label)
    if meter.light:
        classes.append('calls-only')
        return {'nontrivial': outcome[0] == 'ok', 'classes': classes}
    classes.append('inner-objects:' + ('0' if meter.inner == 0 else '1-9' if meter.inner < 10 else '10-99' if meter.inner < 100 else '100+'))
    classes.append('depth:' + ('<=25' if meter.max_depth <= 25 else '<=60' if meter.max_depth <= 60 else '>60'))
    return {'nontrivial': outcome[0] == 'ok' or meter.inner >= 1, 'classes': classes, 'meter': meter, 'outcome': outcome}


def _strip(info: dict) -> dict:
    info.pop('meter', None)
    info.pop('outcome', None)
    return info


def check_bytes(case: dict) -> dict:
    info = judge(case)
    if 'op' in case:
        info['classes'].append('op:' + case['op'].split('@')[0])
        info['classes'].append('at:' + case['op'].split('@')[1])
        info['classes'].append('base:' + case.get('base', '?'))
    elif 'mode' in case:
        info['classes'].append('mode:' + case['mode'])
    return _strip(info)


# ---------------------------------------------------------------------------- base messages

_OK_NEGS: dict = {}


def ok_negs() -> dict:
    """qa message index -> negotiated sets under which it decodes (computed once per process)"""
    if not _OK_NEGS:
        for k, m in enumerate(corpus.MESSAGES):
            body = bytes.fromhex(m['hex'])
            # measured(): the work bound abandons a decoder that does not terminate (a mutated tree must not hang the strategy)
            oks = [i for i in range(NNEG) if target.measured(m['type'], body, target.negotiated_for(i))[0][0] == 'ok']
            _OK_NEGS[k] = oks or list(range(NNEG))
    return _OK_NEGS


_SHAPES: list = []


def qa_shapes() -> list:
    """the qa messages grouped by structural shape (message type, MP family, kinds of TLV present): a draw picks a shape first, so the
    131 plain IPv4 announcements do not outweigh the one MVPN or BGP-LS message"""
    if not _SHAPES:
        groups: dict = {}
        for k, m in enumerate(corpus.MESSAGES):
            body = bytes.fromhex(m['hex'])
            nodes = mut.flatten(mut.tree_for(m['type'], body))
            kinds = sorted({n['kind'] for n, _ in nodes})
            fams = sorted({body[n['cstart'] : n['cstart'] + 3].hex() for n, _ in nodes if n['kind'] in ('attribute-14', 'attribute-15')})
            # the type field of every route and sub-TLV: an MVPN type 5 route is not the same shape as a type 6 one
            typed = {'evpn-route': 1, 'mvpn-route': 1, 'mup-route': 3, 'bgpls-nlri': 2, 'tunnel-tlv': 2, 'tunnel-sub-tlv': 1, 'prefix-sid-tlv': 1, 'srv6-sub-tlv': 1,
                     'bgpls-attr-tlv': 2, 'bgpls-tlv': 2, 'capability': 1, 'segment': 1}  # fmt: skip
            types = sorted({(n['kind'], body[n['start'] : n['start'] + typed[n['kind']]].hex()) for n, _ in nodes if n['kind'] in typed})
            groups.setdefault((m['type'], tuple(fams), tuple(kinds), tuple(types)), []).append(k)
        _SHAPES.extend(groups[key] for key in sorted(groups))
    return _SHAPES


KNOWN_CAPS = [1, 2, 5, 6, 64, 65, 68, 69, 70, 71, 73, 75, 77, 128, 131]


@st.composite
def open_bodies(draw):
    """a well-formed OPEN from a peer in AS 65001 with a drawn capability list"""
    caps = []
    for _ in range(draw(st.integers(0, 8))):
        kind = draw(st.sampled_from(['mp', 'mp', 'asn4', 'addpath', 'extnh', 'refresh', 'erefresh', 'extmsg', 'gr', 'hostname', 'version', 'unknown', 'known-raw', 'multisession']))
        if kind == 'mp':
            caps.append(build.cap_mp(*draw(st.sampled_from(sorted(target.FAMILY_CODE.values()) + [(3, 1), (1, 99), (0, 0), (65535, 255)]))))
        elif kind == 'asn4':
            caps.append(build.cap_asn4(draw(st.sampled_from([65001, 65001, 0, 23456, 4200000000]))))
        elif kind == 'addpath':
            caps.append(build.cap_addpath(draw(st.lists(st.tuples(st.sampled_from([1, 2, 25, 0]), st.sampled_from([1, 4, 128, 70, 0]), st.integers(0, 4)), max_size=5))))
        elif kind == 'extnh':
            caps.append(build.cap_ext_nh(draw(st.lists(st.tuples(st.sampled_from([1, 2]), st.sampled_from([1, 4, 128]), st.sampled_from([1, 2, 3])), max_size=4))))
        elif kind == 'refresh':
            caps.append(build.cap_refresh())
        elif kind == 'erefresh':
            caps.append(build.cap_erefresh())
        elif kind == 'extmsg':
            caps.append(build.cap_ext_msg())
        elif kind == 'gr':
            caps.append(build.cap_gr(draw(st.integers(0, 15)), draw(st.integers(0, 4095)), draw(st.lists(st.tuples(st.sampled_from([1, 2, 25]), st.sampled_from([1, 4, 128, 70]), st.sampled_from([0, 0x80])), max_size=4))))
        elif kind == 'hostname':
            caps.append(build.cap_hostname(draw(st.binary(max_size=12)), draw(st.binary(max_size=12))))
        elif kind == 'version':
            v = draw(st.binary(max_size=20))
            caps.append(build.capability(75, bytes([len(v)]) + v))
        elif kind == 'multisession':
            caps.append(build.capability(draw(st.sampled_from([68, 131])), draw(st.binary(max_size=4))))
        elif kind == 'known-raw':
            caps.append(build.capability(draw(st.sampled_from(KNOWN_CAPS)), draw(st.binary(max_size=10))))
        else:
            caps.append(build.capability(draw(st.integers(0, 255)), draw(st.binary(max_size=10))))
    grouping = draw(st.sampled_from(['each', 'each', 'one']))
    extended = draw(st.sampled_from([None, None, None, True]))
    hold = draw(st.sampled_from([90, 90, 0, 3, 65535, 1]))
    rid = draw(st.sampled_from([0x0A000002, 0x0A000002, 1, 0xFFFFFFFF, 0x01020304]))
    return build.open_with_caps(65001, hold, rid, caps, grouping=grouping, extended=extended)


SMALL = [
    (4, b''),
    (5, build.route_refresh(1, 1)),
    (5, build.route_refresh(2, 1, 1)),
    (5, build.route_refresh(25, 70, 2)),
    (3, build.notification(6, 2, b'\x05hello')),
    (3, build.notification(6, 4, b'\x03abc')),
    (3, build.notification(2, 7, b'\x41\x04\x00\x00\xfd\xe9')),
    (3, build.notification(1, 2, b'\x00\x12')),
    (6, b'\x00\x01\x00\x08\x00\x01\x01hello'),  # ADM advisory
    (6, b'\x00\x02\x00\x08\x00\x01\x01hello'),  # ASM
    (6, b'\x00\x03\x00\x0b\x00\x01\x01\x0a\x00\x00\x02\x00\x00\x00\x01'),  # RPCQ
    (6, b'\x00\x04\x00\x0f\x00\x01\x01\x0a\x00\x00\x02\x00\x00\x00\x01\x00\x00\x00\x07'),  # RPCP
    (6, b'\x00\x05\x00\x0b\x00\x01\x01\x0a\x00\x00\x02\x00\x00\x00\x01'),  # APCQ
    (6, b'\x00\x08\x00\x0f\x00\x01\x01\x0a\x00\x00\x02\x00\x00\x00\x01\x00\x00\x00\x07'),  # LPCP
    (6, b'\xff\xff\x00\x0d\x00\x01\x00\x01\x01\x0a\x00\x00\x02\x00\x00\x00\x01'),  # NS
    (6, b'\x00\x09\x00\x00'),  # unregistered type
]


@st.composite
def base_messages(draw):
    """(source label, type, negotiated index, body) of a well-formed message"""
    src = draw(st.sampled_from(['refwire-update'] * 3 + ['qa'] * 8 + ['refwire-open'] * 2 + ['small']))
    if src == 'refwire-update':
        neg = draw(st.sampled_from([1, 2, 3, 3, 4, 9, 10, 11, 12, 0]))
        desc = draw(ws.updates(session_of(neg)))
        return src, 2, neg, ws.render_update(desc)
    if src == 'qa':
        k = draw(st.sampled_from(draw(st.sampled_from(qa_shapes()))))
        m = corpus.MESSAGES[k]
        neg = draw(st.sampled_from(ok_negs()[k]))
        return src, m['type'], neg, bytes.fromhex(m['hex'])
    if src == 'refwire-open':
        return src, 1, draw(st.sampled_from([0, 0, 0, 1, 10])), draw(open_bodies())
    t, body = draw(st.sampled_from(SMALL))
    return src, t, draw(st.integers(0, NNEG - 1)), body


@st.composite
def mutated_cases(draw):
    src, msg_type, neg, body = draw(base_messages())
    spec = session_of(neg)
    root = mut.tree_for(msg_type, body, spec['asn4'], addpath_for(neg))
    flat = mut.flatten(root) or [(root, [])]
    by_kind: dict = {}
    for i, (n, _chain) in enumerate(flat):
        if n['end'] > n['start'] or n['lf'] is not None:
            by_kind.setdefault(n['kind'], []).append(i)
    # a kind of TLV first, then one of its instances: the single MVPN route weighs as much as the dozen plain attributes around it
    kinds = sorted(by_kind) or ['']
    node, ancestors = flat[draw(st.sampled_from(by_kind.get(draw(st.sampled_from(kinds)), [0])))]
    ops = [o for o in mut.OPS if node['lf'] is not None or not o.startswith('len-')]
    op = draw(st.sampled_from(ops))
    a = draw(st.integers(0, 65535))
    b = draw(st.integers(0, 65535))
    out = mut.apply(body, node, ancestors, op, a, b)
    out = out[: target.msg_size(neg) - 19]
    return {'type': msg_type, 'neg': neg, 'hex': out.hex(), 'op': f'{op}@{node["kind"]}', 'base': src, 'changed': out != body}


# ---------------------------------------------------------------------------- valid but unusual

UNKNOWN_CODES = [c for c in range(41, 255) if c != 128]  # not assigned to anything exabgp (or IANA, for most) knows
MANDATORY = build.attribute(0x40, 1, b'\x00') + build.attribute(0x40, 2, b'') + build.attribute(0x40, 3, bytes([10, 0, 0, 1])) + build.attribute(0x40, 5, struct.pack('!L', 100))


def v4_prefixes(n: int, ap: bool = False) -> bytes:
    pid = struct.pack('!L', 7) if ap else b''  # ADD-PATH negotiated for IPv4 unicast: every NLRI carries a path identifier
    return b''.join(pid + bytes([24, 10 + (i >> 16) % 200, (i >> 8) & 255, i & 255]) for i in range(n))


def build_unusual(case: dict) -> tuple[int, bytes]:
    shape = case['shape']
    neg = int(case['neg'])
    room = target.msg_size(neg) - 19
    asn4 = session_of(neg)['asn4']
    n = int(case.get('n', 0))
    ap4 = addpath_for(neg)(1, 1)
    ap6 = addpath_for(neg)(2, 1)
    psize = 8 if ap4 else 4
    one = (struct.pack('!L', 1) if ap4 else b'') + bytes([24, 192, 0, 2])
    if shape in ('unknown-attrs-distinct', 'unknown-attrs-repeated'):
        flags = 0xC0 if case.get('transitive') else 0x80
        if case.get('partial') and case.get('transitive'):
            flags |= 0x20
        pool = UNKNOWN_CODES if shape.endswith('distinct') else UNKNOWN_CODES[: max(1, int(case.get('pool', 3)))]
        n = min(n, len(pool)) if shape.endswith('distinct') else n
        n = min(n, (room - 4 - len(MANDATORY) - 8) // 3)
        extra = b''.join(build.attribute(flags, pool[i % len(pool)], b'') for i in range(n))
        attrs = MANDATORY + extra if case.get('mandatory_first', True) else extra + MANDATORY
        return 2, build.update_body(b'', attrs, one)
    if shape == 'unknown-attr-long':
        value = bytes((i * 7) & 255 for i in range(min(n, room - 4 - len(MANDATORY) - 4 - 8)))
        return 2, build.update_body(b'', MANDATORY + build.attribute(0xC0, 0x63, value), one)
    if shape == 'aspath-max':
        width = 4 if asn4 else 2
        segs = []
        used = 0
        for i in range(n):
            if used + 2 + 255 * width > min(room - 60, 65000):
                break
            segs.append((2 if i % 3 != 2 else 1, [64512 + (i * 255 + j) % 1000 for j in range(255)]))
            used += 2 + 255 * width
        attrs = build.attribute(0x40, 1, b'\x00') + build.attribute(0x40, 2, build.aspath(segs, asn4)) + build.attribute(0x40, 3, bytes([10, 0, 0, 1])) + build.attribute(0x40, 5, struct.pack('!L', 100))
        return 2, build.update_body(b'', attrs, one)
    if shape == 'many-nlri':
        n = min(n, (room - 4 - len(MANDATORY)) // psize)
        return 2, build.update_body(b'', MANDATORY, v4_prefixes(n, ap4))
    if shape == 'many-withdrawn':
        n = min(n, (room - 4) // psize)
        return 2, build.update_body(v4_prefixes(n, ap4), b'', b'')
    if shape == 'many-mp-v6':
        pid6 = struct.pack('!L', 9) if ap6 else b''
        entries = b''.join(pid6 + bytes([64, 0x20, 0x01, 0x0D, 0xB8, (i >> 24) & 255, (i >> 16) & 255, (i >> 8) & 255, i & 255]) for i in range(min(n, (room - 60) // (13 if ap6 else 9))))
        if case.get('unreach'):
            attrs = build.attribute(0x80, 15, struct.pack('!HB', 2, 1) + entries)
        else:
            value = struct.pack('!HBB', 2, 1, 16) + bytes.fromhex('20010db8000000000000000000000001') + b'\x00' + entries
            attrs = build.attribute(0x40, 1, b'\x00') + build.attribute(0x40, 2, b'') + build.attribute(0x40, 5, struct.pack('!L', 100)) + build.attribute(0x80, 14, value)
        return 2, build.update_body(b'', attrs, b'')
    if shape == 'max-size':
        # exactly msg_size bytes on the wire: communities (or large / extended communities) pad the attributes, NLRIs fill the rest
        which, size = {'community': (8, 4), 'ext-community': (16, 8), 'large-community': (32, 12), 'cluster-list': (10, 4)}[case.get('pad', 'community')]
        nl = min(n, 200)
        fixed = 4 + len(MANDATORY) + psize * nl + 4 + (7 if which == 10 else 0)
        count = (room - fixed) // size
        if which == 8:
            value = b''.join(struct.pack('!HH', 64512 + i % 1000, i % 65536) for i in range(count))
        elif which == 16:
            value = b''.join(struct.pack('!BBHL', 0, 2, 64512, i) for i in range(count))
        elif which == 32:
            value = b''.join(struct.pack('!LLL', 64512, i, 1) for i in range(count))
        else:
            value = b''.join(struct.pack('!L', 0x0A000000 + i) for i in range(count))
        flags = 0x80 if which == 10 else 0xC0
        attrs = MANDATORY + (build.attribute(0x80, 9, bytes([10, 0, 0, 9])) if which == 10 else b'') + build.attribute(flags, which, value, True)
        body = build.update_body(b'', attrs, v4_prefixes(nl, ap4))
        slack = room - len(body)
        # top up to the exact size with /0../24 prefixes of the right length (1 to 4 bytes each)
        pid = struct.pack('!L', 3) if ap4 else b''
        while slack > 0:
            if not ap4:
                take = min(4, slack)
            elif 5 <= slack <= 8:
                take = slack - 4
            elif slack >= 10:
                take = 1
            else:
                break  # not reachable exactly with path identifiers: the message stays a few bytes short
            body += pid + [b'\x00', bytes([8, 11]), bytes([16, 11, 1]), bytes([24, 11, 1, 1])][take - 1]
            slack -= take + len(pid)
        return 2, body
    if shape == 'open-many-caps':
        form = case.get('form', 'one-param')
        codes = [200 + i % 40 for i in range(n)] if case.get('unknown', True) else [2, 70, 6][:1] * n
        if form == 'one-param':
            caps = [build.capability(c, b'') for c in codes][:126]  # 2 + 126 * 2 = 254 <= 255
            return 1, build.open_with_caps(65001, 90, 0x0A000002, caps, grouping='one', extended=False)
        if form == 'each-param':
            caps = [build.capability(c, b'') for c in codes][:63]  # 63 * 4 = 252
            return 1, build.open_with_caps(65001, 90, 0x0A000002, caps, grouping='each', extended=False)
        per = 5 if form == 'extended-each' else 2
        caps = [build.capability(c, b'') for c in codes][: (room - 13 - 3) // per]
        if form == 'extended-each':
            return 1, build.open_with_caps(65001, 90, 0x0A000002, caps, grouping='each', extended=True)
        # RFC 9072: one parameter may now be longer than 255 bytes
        return 1, build.open_body(4, 65001, 90, 0x0A000002, [(2, b''.join(caps))], extended=True)
    if shape == 'flow-size':
        # a FlowSpec NLRI of exactly n octets (destination prefix + port tests), in the one-octet length form below 240 and
        # the two-octet form 0xFnnn from 240 on (RFC 8955 4.1): both sides of every boundary of that field
        v6, vpn = bool(case.get('v6')), bool(case.get('vpn'))
        value = (bytes(8) if vpn else b'') + (bytes([1, 32, 0, 0x20, 0x01, 0x0D, 0xB8]) if v6 else bytes([1, 24, 10, 0, 0]))
        room = n - len(value) - 1
        two = {0: 0, 2: 1, 1: 2}[room % 3]
        three = (room - 2 * two) // 3
        ops = [bytes([0x11]) + (1000 + i).to_bytes(2, 'big') for i in range(three)] + [bytes([0x01, 10 + i]) for i in range(two)]
        ops[-1] = bytes([ops[-1][0] | 0x80]) + ops[-1][1:]
        value += bytes([5]) + b''.join(ops)
        assert len(value) == n
        nlri = (bytes([n]) if n < 240 else (0xF000 | n).to_bytes(2, 'big')) + value
        mp = bytes([0, 2 if v6 else 1, 134 if vpn else 133, 0, 0]) + nlri
        attrs = build.attribute(0x40, 1, b'\x00') + build.attribute(0x40, 2, build.aspath([(2, [65001])], True)) + build.attribute(0x80, 14, mp)
        return 2, build.update_body(b'', attrs, b'')
    if shape == 'open-param-length':
        # the optional parameters are exactly `total` octets long, in the RFC 4271 form (one length octet, 255 included)
        # or in the RFC 9072 form; an unknown capability is the filler
        total, extended, split = case['total'], case['extended'], case['split']
        per = 3 if extended else 2
        params = []
        if split:
            params.append((2, build.cap_mp(1, 1)))
            total -= per + len(build.cap_mp(1, 1))
        room, filler = total - per, b''
        while room > 0:
            take = room if room <= 257 else 200  # never leaves a remainder of one octet
            filler += build.capability(0xE7, bytes(take - 2))
            room -= take
        params.append((2, filler))
        return 1, build.open_body(4, 65001, 90, 0x0A000002, params, extended)
    if shape == 'open-big-caps':
        caps = [build.cap_mp(1, 1), build.cap_asn4(65001), build.cap_hostname(b'h' * case.get('host', 255 - 2 - 10), b'd' * 10)]
        caps.append(build.cap_addpath([(1 + i % 2, [1, 2, 4, 128][i % 4], 3) for i in range(min(n, 63))]))
        caps.append(build.cap_gr(8, 120, [(1 + i % 2, [1, 2, 4, 128][i % 4], 0x80) for i in range(min(n, 63))]))
        caps += [build.cap_mp(1 + i % 3, 1 + i % 200) for i in range(min(n, 100))]
        return 1, build.open_with_caps(65001, 90, 0x0A000002, caps, grouping=case.get('grouping', 'each'), extended=None)
    raise ValueError(shape)


@st.composite
def unusual_cases(draw):
    shape = draw(
        st.sampled_from(
            ['unknown-attrs-distinct'] * 3 + ['unknown-attrs-repeated'] * 3 + ['unknown-attr-long', 'aspath-max', 'aspath-max', 'many-nlri', 'many-nlri', 'many-withdrawn', 'many-mp-v6']
            + ['max-size'] * 3 + ['open-many-caps'] * 3 + ['open-big-caps', 'open-param-length', 'flow-size']
        )
    )  # fmt: skip
    case: dict = {'shape': shape}
    if shape == 'flow-size':
        case['neg'] = draw(st.sampled_from([5, 5, 10]))
        case['n'] = draw(st.sampled_from([20, 238, 239, 240, 241, 247, 255, 256, 257, 300, 1000, 4000]))
        case['v6'] = draw(st.booleans())
        case['vpn'] = draw(st.booleans())
        return case
    if shape == 'open-param-length':
        case['neg'] = draw(st.sampled_from([0, 1, 12]))
        case['extended'] = draw(st.booleans())
        case['total'] = draw(st.sampled_from([253, 254, 255] if not case['extended'] else [20, 254, 255, 256, 257, 300]))
        case['split'] = draw(st.booleans())
        case['n'] = 1
        return case
    if shape.startswith('open'):
        case['neg'] = draw(st.sampled_from([0, 0, 1, 12]))
        case['n'] = draw(st.sampled_from([1, 10, 60, 63, 126, 200, 1000, 1300, 2030]))
        if shape == 'open-many-caps':
            case['form'] = draw(st.sampled_from(['one-param', 'each-param', 'extended-each', 'extended-one']))
            case['unknown'] = draw(st.booleans())
        else:
            case['grouping'] = draw(st.sampled_from(['each', 'one']))
        return case
    case['neg'] = draw(st.sampled_from([1, 1, 2, 3, 10, 12, 12]))
    if shape == 'many-mp-v6':
        case['neg'] = draw(st.sampled_from([1, 2, 10, 12]))
        case['unreach'] = draw(st.booleans())
    big = target.msg_size(case['neg']) > 4096
    if shape.startswith('unknown-attrs'):
        case['n'] = draw(st.sampled_from([1, 50, 100, 150, 200, 213] if shape.endswith('distinct') else [200, 400, 800, 950, 1000, 1200, 1300, 1357] + ([5000, 20000] if big else [])))
        case['transitive'] = draw(st.booleans())
        case['partial'] = draw(st.booleans())
        case['mandatory_first'] = draw(st.booleans())
        if shape.endswith('repeated'):
            case['pool'] = draw(st.sampled_from([1, 2, 3, 100, 213]))
    elif shape == 'unknown-attr-long':
        case['n'] = draw(st.sampled_from([255, 256, 1000, 4000, 60000]))
    elif shape == 'aspath-max':
        case['n'] = draw(st.sampled_from([1, 2, 3, 7] + ([15, 60] if big else [])))
    elif shape in ('many-nlri', 'many-withdrawn', 'many-mp-v6'):
        case['n'] = draw(st.sampled_from([100, 400, 1000, 1010] + ([4000, 16000] if big else [])))
    elif shape == 'max-size':
        case['n'] = draw(st.sampled_from([0, 1, 50, 200]))
        case['pad'] = draw(st.sampled_from(['community', 'ext-community', 'large-community', 'cluster-list']))
    return case


def check_unusual(case: dict) -> dict:
    msg_type, body = build_unusual(case)
    if len(body) > target.msg_size(int(case['neg'])) - 19:
        raise RuntimeError(f'generator built an oversized message: {len(body)} for {case}')
    accept = ((3, 1),) if case['shape'] == 'unknown-attrs-repeated' else ()
    info = judge({'type': msg_type, 'neg': case['neg'], '_body': body, 'shape': case['shape']}, expect_ok=True, accept=accept)
    info['classes'].append('shape:' + case['shape'])
    size = len(body)
    info['classes'].append('size:' + ('<1k' if size < 1000 else '<4077' if size < 4077 else '=4077' if size == 4077 else '<65516' if size < 65516 else '=65516'))
    info['sample'] = dict(case, bytes=size)
    info['nontrivial'] = bool(info['nontrivial']) and size >= 200
    return _strip(info)


def unusual_fixed() -> list:
    """the cases the property statement names, in every tier"""
    out = []
    for n in (200, 1200, 1300):
        out.append({'shape': 'unknown-attrs-repeated', 'neg': 1, 'n': n, 'transitive': True, 'partial': False, 'mandatory_first': True, 'pool': 213})
    out.append({'shape': 'unknown-attrs-distinct', 'neg': 1, 'n': 213, 'transitive': False, 'partial': False, 'mandatory_first': True})
    out.append({'shape': 'unknown-attrs-repeated', 'neg': 12, 'n': 20000, 'transitive': True, 'partial': False, 'mandatory_first': True, 'pool': 213})
    out.append({'shape': 'aspath-max', 'neg': 1, 'n': 3})
    out.append({'shape': 'many-nlri', 'neg': 1, 'n': 1010})
    out.append({'shape': 'max-size', 'neg': 1, 'n': 50, 'pad': 'community'})
    out.append({'shape': 'max-size', 'neg': 12, 'n': 50, 'pad': 'large-community'})
    out.append({'shape': 'open-many-caps', 'neg': 0, 'n': 126, 'form': 'one-param', 'unknown': True})
    out.append({'shape': 'open-many-caps', 'neg': 0, 'n': 2030, 'form': 'extended-one', 'unknown': True})
    for n in (239, 240, 241, 247, 255, 256, 4000):
        for v6, vpn in ((False, False), (True, False), (False, True)):
            out.append({'shape': 'flow-size', 'neg': 5, 'n': n, 'v6': v6, 'vpn': vpn})
    for extended, totals in ((False, (253, 254, 255)), (True, (254, 255, 256, 300))):
        for total in totals:
            for split in (False, True):
                out.append({'shape': 'open-param-length', 'neg': 0, 'n': 1, 'extended': extended, 'total': total, 'split': split})
    return out


# ---------------------------------------------------------------------------- random bytes

TYPES = [1, 2, 2, 2, 3, 4, 5, 6, 7, 0, 255]


@st.composite
def bytes_cases(draw):
    mode = draw(st.sampled_from(['random', 'random-short', 'splice', 'tail', 'prefix', 'wrong-type', 'wrong-neg']))
    neg = draw(st.integers(0, NNEG - 1))
    msgs = corpus.MESSAGES
    if mode == 'random':
        return {'type': draw(st.sampled_from(TYPES)), 'neg': neg, 'hex': draw(st.binary(max_size=300)).hex(), 'mode': mode}
    if mode == 'random-short':
        return {'type': draw(st.sampled_from(TYPES)), 'neg': neg, 'hex': draw(st.binary(max_size=12)).hex(), 'mode': mode}
    k = draw(st.integers(0, len(msgs) - 1))
    a = bytes.fromhex(msgs[k]['hex'])
    if draw(st.integers(0, 3)) > 0:
        neg = draw(st.sampled_from(ok_negs()[k]))
    t = msgs[k]['type']
    if mode == 'splice':
        b = bytes.fromhex(msgs[draw(st.integers(0, len(msgs) - 1))]['hex'])
        out = a[: draw(st.integers(0, len(a)))] + b[draw(st.integers(0, len(b))) :]
    elif mode == 'tail':
        out = a + draw(st.binary(min_size=1, max_size=40))
    elif mode == 'prefix':
        out = a[: draw(st.integers(0, len(a)))] + draw(st.binary(max_size=8))
    elif mode == 'wrong-type':
        out = a
        t = draw(st.sampled_from(TYPES))
    else:
        out = a
        neg = draw(st.integers(0, NNEG - 1))
    return {'type': t, 'neg': neg, 'hex': out[: target.msg_size(neg) - 19].hex(), 'mode': mode}


# ---------------------------------------------------------------------------- single-byte sweep (enumerated)


def sweep_cases() -> list:
    """every byte of one qa message per structural shape set to 0, 1, 0x7f, 0x80, 0xff, +1, -1 (a nested length or count is one byte
    somewhere in the route or sub-TLV: this reaches each of them without knowing the layout); under the first set that decodes the original"""
    out = []
    thorough = _tier() == 'thorough'
    for group in qa_shapes():
        k = group[0]
        m = corpus.MESSAGES[k]
        body = bytes.fromhex(m['hex'])
        if len(body) > 600:
            continue
        neg = ok_negs()[k][0]
        for pos in range(len(body)):
            old = body[pos]
            values = {0, 1, 0x7F, 0x80, 0xFF, (old + 1) & 255, (old - 1) & 255, old ^ 0x80, (old * 2) & 255, old // 2} if thorough else {0, 0x80, 0xFF, (old + 1) & 255, (old - 1) & 255}
            for value in sorted(values - {old}):
                # calls, depth and inner objects on one case in four (a changed byte does not add TLVs); the calls alone on the others
                out.append({'type': m['type'], 'neg': neg, 'hex': (body[:pos] + bytes([value]) + body[pos + 1 :]).hex(), 'mode': 'sweep', 'meter': len(out) % 4 == 0})
        # every TLV cut down to its first 1, 2, 3, ... bytes with all the lengths around it repaired: each decoder sees a value too short for its type
        seen = set()
        for node, chain in mut.flatten(mut.tree_for(m['type'], body, session_of(neg)['asn4'], addpath_for(neg))):
            size = node['end'] - node['cstart']
            if node['lf'] is None or size < 2:
                continue
            keeps = range(0, size) if thorough else sorted({1, 2, 3, 4, 5, 6, 8, size // 2, size - 1} & set(range(1, size)))
            for keep in keeps:
                for op in ('truncate-repaired', 'truncate-inner') if thorough else ('truncate-repaired',):
                    cut = mut.apply(body, node, chain, op, keep, 0)
                    if cut not in seen:
                        seen.add(cut)
                        out.append({'type': m['type'], 'neg': neg, 'hex': cut.hex(), 'mode': 'sweep-' + op, 'meter': len(out) % 4 == 0})
    return out


def registry_cases() -> list:
    """every type code of every decoder registry with short values of every length (vlib/c03_registry.py); one case in eight is metered"""
    cases = registry.cases(target.NEG_INDEX, _tier() == 'thorough')
    for i, c in enumerate(cases):
        c['meter'] = i % 8 == 0
    return cases


# ---------------------------------------------------------------------------- atheris campaign

FUZZ_TARGET = os.path.join(HERE, 'fuzz', 'fuzz_decode.py')
_CAMPAIGNS: dict = {}


def run_campaign(seed: int, runs: int) -> dict:
    """one libFuzzer process on a fresh temporary corpus seeded from the qa messages; returns findings and statistics"""
    key = (seed, runs)
    if key in _CAMPAIGNS:
        return _CAMPAIGNS[key]
    work = tempfile.mkdtemp(prefix='c03-fuzz-')
    try:
        seeds = os.path.join(work, 'corpus')
        # on the unchanged tree the findings are kept next to the target; a sensitivity run on a scratch copy keeps them out of the way
        findings = os.path.join(HERE, 'fuzz', 'findings') if target.exa.REPO_SRC == '/repo/src' else os.path.join(work, 'findings')
        env = dict(os.environ)
        env.update(
            PYTHONPATH=os.pathsep.join([target.exa.REPO_SRC, HERE, os.path.join(HERE, '.deps')]),
            VERIF_REPO_SRC=target.exa.REPO_SRC,
            VERIF_C03_FINDINGS=findings,
            VERIF_C03_FUZZ_CONTINUE='1',
            PYTHONHASHSEED='0',
            exabgp_log_enable='false',
        )
        made = subprocess.run([sys.executable, FUZZ_TARGET, '--write-seeds', seeds], env=env, cwd=HERE, stdout=subprocess.PIPE, stderr=subprocess.PIPE, timeout=300)
        if made.returncode != 0:
            raise RuntimeError(f'cannot write the seed corpus: {made.stderr.decode()[-1500:]}')
        cmd = [sys.executable, FUZZ_TARGET, seeds, f'-runs={runs}', f'-seed={seed}', '-max_len=4096', '-timeout=25', f'-artifact_prefix={work}/']
        proc = subprocess.run(cmd, env=env, cwd=HERE, stdout=subprocess.PIPE, stderr=subprocess.STDOUT, timeout=max(600, runs // 100))
        text = proc.stdout.decode(errors='replace')
        found, stats = [], {}
        for line in text.splitlines():
            if line.startswith('C03-FINDING '):
                found.append(json.loads(line[len('C03-FINDING ') :]))
            elif line.startswith('C03-STATS '):
                stats = json.loads(line[len('C03-STATS ') :])
        done = f'Done {runs} runs' in text or 'DONE' in text or 'C03-ABORT' in text
        if 'libFuzzer: timeout' in text:
            # one input kept the decoder busy for 25 s: libFuzzer saved it and stopped
            for name in sorted(os.listdir(work)):
                if name.startswith('timeout-'):
                    with open(os.path.join(work, name), 'rb') as fh:
                        from fuzz.fuzz_decode import split_input

                        t, n, b = split_input(fh.read(), NNEG)
                    found.append({'signature': 'no-termination:libfuzzer-timeout', 'file': name, 'known': False, 'message': 'the decoder did not return within 25 s',
                                  'case': {'type': t, 'neg': n, 'hex': b[: target.msg_size(n) - 19].hex()}, 'noreplay': True})  # fmt: skip
            done = True
            stats = stats or {'execs': 0}
            proc = subprocess.CompletedProcess(cmd, 0)
        if proc.returncode != 0 or not done or not stats:
            raise RuntimeError(f'fuzz target ended badly (rc={proc.returncode}): {text[-2000:]}')
        result = {'findings': found, 'stats': stats}
    finally:
        shutil.rmtree(work, ignore_errors=True)
    _CAMPAIGNS[key] = result
    return result


def check_campaign(case: dict) -> dict:
    if not ATHERIS:
        return {'nontrivial': False, 'classes': ['atheris:not-importable-hypothesis-engines-only']}
    result = run_campaign(int(case['seed']), int(case['runs']))
    stats = result['stats']
    classes = ['atheris:campaign', f'atheris:execs:{stats["execs"]}']
    if stats.get('seconds'):
        classes.append(f'atheris:exec-per-s:{int(stats["execs"] / max(stats["seconds"], 0.01) // 250 * 250)}+')
    known, _fixed = load_findings(PROPERTY)
    fresh = []
    for f in result['findings']:
        sig = f['signature']
        if f.get('noreplay'):
            fresh.append(f)
            continue
        # every saved finding must replay through the bytes engine with the same root cause
        wedged = _WEDGED[0]
        _WEDGED[0] = 0  # the replay must really run, whatever this shard skipped before
        try:
            check_bytes(dict(f['case']))
            replayed = None
        except Violation as v:
            replayed = v.signature
        finally:
            _WEDGED[0] = wedged
        if sig.startswith('no-termination') and replayed and replayed.split(':')[0] in ('cost', 'no-termination'):
            # the fuzz target has only its CPU watchdog; the check names the same defect by its work bound
            sig = f['signature'] = replayed
        if replayed != sig and not target.tolerated(sig):
            classes.append('atheris:finding-does-not-replay')
            raise Violation('atheris:finding-does-not-replay', f'{sig} replays as {replayed}: {json.dumps(f["case"])}')
        if target.tolerated(sig):
            classes.append(f'tolerated:{sig}')
        elif any(sig_matches(e, sig) for e in known):
            classes.append(f'atheris:known-finding:{sig}')
        else:
            fresh.append(f)
    if fresh:
        first = fresh[0]
        others = '; '.join(f'{f["signature"]} -> {json.dumps(f["case"])}' for f in fresh[1:])
        raise Violation(first['signature'], f'{first["message"]} | replay with engine bytes: {json.dumps(first["case"])} | saved {first["file"]}' + (f' | also: {others}' if others else ''))
    return {'nontrivial': stats.get('ok', 0) > 0, 'classes': classes, 'sample': {'seed': case['seed'], 'runs': case['runs'], 'stats': {k: stats[k] for k in ('execs', 'ok', 'notify', 'violation', 'seconds') if k in stats}}}


def _shard() -> int:
    argv = sys.argv
    try:
        return int(argv[argv.index('--shard') + 1].split('/')[0])
    except (ValueError, IndexError):
        return 0


def campaign_cases(runs: int):
    # libFuzzer seeds differ by shard (Hypothesis starts every shard with the smallest example); VERIF_SEED moves them all
    base = 1000 * int(os.environ.get('VERIF_SEED', '1') or '1') + 10 * _shard()
    return lambda: st.integers(0, 7).map(lambda i: {'seed': base + i, 'runs': runs})


def _tier() -> str:
    argv = sys.argv
    return argv[argv.index('--tier') + 1] if '--tier' in argv and argv.index('--tier') + 1 < len(argv) else os.environ.get('VERIF_TIER', 'quick')


def _tier_runs() -> int:
    return 400000 if _tier() == 'thorough' else 5000


ENGINES = [
    Engine('mutated', mutated_cases, check_bytes, quick=800, thorough=40000, batch=500, quick_s=40.0, thorough_s=900.0),
    Engine('valid-unusual', unusual_cases, check_unusual, quick=20, thorough=600, batch=40, fixed_cases=unusual_fixed, quick_s=30.0, thorough_s=600.0),
    Engine('sweep', None, check_bytes, quick=0, thorough=0, fixed_cases=sweep_cases),
    Engine('registry', None, check_bytes, quick=0, thorough=0, fixed_cases=registry_cases),
    Engine('bytes', bytes_cases, check_bytes, quick=600, thorough=30000, batch=500, quick_s=25.0, thorough_s=600.0),
    # quick: 4 shards x 1 campaign x 5000 runs = 20 000 executions; thorough: 8 shards x 2 campaigns x 400 000 runs (about 5 minutes each)
    Engine('atheris', campaign_cases(_tier_runs()), check_campaign, quick=1, thorough=2, batch=1, quick_s=60.0, thorough_s=1500.0),
]


def fit_report() -> dict:
    """the fit of the work bound on the qa corpus (python -c 'from props import c03; print(c03.fit_report())')"""
    worst = {'calls_minus_60len': 0, 'depth': 0}
    for m in corpus.MESSAGES:
        body = bytes.fromhex(m['hex'])
        for i in range(NNEG):
            target.measured(m['type'], body, target.negotiated_for(i))
            _o, meter = target.measured(m['type'], body, target.negotiated_for(i))
            worst['calls_minus_60len'] = max(worst['calls_minus_60len'], meter.calls - 60 * len(body))
            worst['depth'] = max(worst['depth'], meter.max_depth)
    return worst
