"""C12 - hold and keepalive timers keep their RFC promises"""

from __future__ import annotations

from hypothesis import strategies as st

from vlib import exa, vloop
from vlib import netharness as nh
from vlib.refwire import build, codec
from vlib.runner import Engine, Inconclusive, Violation

PROPERTY = 'C12'
RULE = (
    'the real Reactor/Peer on a virtual clock; negotiated hold time H from (our hold-time, peer OPEN hold time) over {0,3,4,9,30,90,65535}; '
    'remote behaviour after establishment = drawn sequence of (gap, KEEPALIVE | UPDATE | nothing) with gaps around H and H/3, bursts and long silences; '
    'OPEN withheld for openwait +- 2 s; inbound-stream: the remote sends UPDATEs / KEEPALIVEs every 10-90 ms (no idle poll interval) for H/3+3 .. 2H seconds; long-batch: 40-150 routes with distinct attributes sent under `rate-limit` (one UPDATE per loop iteration, several H/3 long) while the remote keeps sending; write-stall: one outbound UPDATE write blocks for 1-3 H of virtual time while the remote keeps sending every H/3..H-1.5 s (the session must survive, then expire H after the remote falls silent). Oracle over virtual timestamps on the transport. Non-trivial = some gap within +-3 s of H or H/3, or H = 0, or the OPEN is withheld'
)
ASSUMPTIONS = [
    'time only advances through the virtual clock: starvation of the timers by CPU-bound work cannot be observed here; a blocked outbound write is simulated by a virtual-time wait inside Connection.writer_async',
    'granularity g = 2 s covers the documented int(time.time()) arithmetic and the 0.1 s polling of the peer loop',
    'the transport is a socketpair; the remote speaker is scripted by the harness',
]

G = 2.0
HOLDS_OURS = [0, 3, 4, 9, 30, 90]
HOLDS_PEER = [0, 3, 4, 9, 30, 90, 180, 65535]


@st.composite
def cases(draw):
    ours = draw(st.sampled_from(HOLDS_OURS))
    peer = draw(st.sampled_from(HOLDS_PEER))
    h = min(ours, peer)
    mode = draw(st.sampled_from(['long-batch', 'write-stall', 'inbound-stream', 'open-withheld', 'keepalive-withheld', 'established', 'established', 'established']))
    if mode == 'keepalive-withheld':
        return {'ours': ours, 'peer': peer, 'mode': mode, 'openwait': 5, 'delay_open': 1.0, 'steps': [], 'tail': 'silence'}
    if mode in ('write-stall', 'long-batch', 'inbound-stream') and h == 0:
        mode = 'established'
    openwait = draw(st.sampled_from([3, 5, 10]))
    steps = []
    if mode == 'established':
        base = h if h else 10
        n = draw(st.integers(0, 8))
        for _ in range(n):
            kind = draw(st.sampled_from(['keepalive', 'keepalive', 'update', 'burst']))
            gap = draw(
                st.one_of(
                    st.sampled_from([0.0, 0.05, 0.5, 1.0]),
                    st.sampled_from([base - 2, base - 1, base - 0.5, base / 3, base / 3 + 1, base / 2]).map(lambda x: max(0.0, float(x))),
                    st.floats(0, base * 0.95 if base > 1 else 1).map(lambda x: round(x, 2)),
                )
            )
            steps.append([round(gap, 2), kind])
        tail = draw(st.sampled_from(['silence', 'silence', 'stay']))
    elif mode == 'long-batch':
        # an outbound batch that takes several H/3 to send (rate-limit: one UPDATE per loop iteration): KEEPALIVEs are due in between
        return {'ours': ours, 'peer': peer, 'mode': mode, 'openwait': openwait, 'delay_open': 1.0, 'steps': [], 'tail': 'silence', 'routes': draw(st.sampled_from([40, 80, 150])), 'period': round(max(0.5, h / 3.0), 2)}
    elif mode == 'inbound-stream':
        # the remote sends back to back (a router dumping its table): the peer loop never sees an idle 100 ms, for longer than H/3
        span = min(45.0, draw(st.sampled_from([h / 3.0 + 3.0, float(h), 2.0 * h])))
        return {'ours': ours, 'peer': peer, 'mode': mode, 'openwait': openwait, 'delay_open': 1.0, 'steps': [], 'tail': 'silence', 'span': round(span, 2), 'every': draw(st.sampled_from([0.01, 0.05, 0.09])), 'what': draw(st.sampled_from(['update', 'update', 'keepalive', 'mixed']))}
    elif mode == 'write-stall':
        # one outbound UPDATE write blocks for longer than H (the remote's window is closed) while the remote keeps sending
        tail = 'silence'
        stall = draw(st.sampled_from([h + 1.0, round(h * 1.3, 1), h * 2.0, h * 3.0]))
        period = draw(st.sampled_from([h / 3.0, h / 2.0, max(0.5, h - 1.5)]))
        return {'ours': ours, 'peer': peer, 'mode': mode, 'openwait': openwait, 'delay_open': 1.0, 'steps': [], 'tail': tail, 'stall': stall, 'period': round(period, 2)}
    else:
        tail = 'silence'
    case = {'ours': ours, 'peer': peer, 'mode': mode, 'openwait': openwait, 'delay_open': draw(st.sampled_from([-2.0, -1.0, 1.0, 2.0, 30.0])), 'steps': steps, 'tail': tail}
    if mode == 'established' and draw(st.integers(0, 2)) == 0:
        # a neighbor nobody takes received routes from (adj-rib-in false, no process): its UPDATEs are framed and not parsed;
        # the remote keeps the session alive with UPDATEs only
        case['rib_in'] = False
        case['steps'] = [[g, 'update'] for g, _ in steps]
    return case


def config(case: dict) -> str:
    body = ''
    if case['mode'] == 'long-batch':
        routes = '\n'.join(f'    route 61.{i // 250}.{i % 250}.0/24 next-hop 1.2.3.4 med {i + 1};' for i in range(case['routes']))
        return exa.neighbor_text(families=['ipv4 unicast'], hold=case['ours'], capability={'asn4': 'enable', 'route-refresh': 'enable'}, extra='  rate-limit 100;', body='\n  static {\n' + routes + '\n  }')
    if case['mode'] == 'write-stall':
        body = '\n  static {\n    route 60.0.0.0/24 next-hop 1.2.3.4;\n    route 60.0.1.0/24 next-hop 1.2.3.4 med 5;\n  }'
    return exa.neighbor_text(families=['ipv4 unicast'], hold=case['ours'], capability={'asn4': 'enable', 'route-refresh': 'enable'}, body=body, extra='  adj-rib-in false;' if case.get('rib_in') is False else '')


def check(case: dict) -> dict:
    h = min(case['ours'], case['peer'])
    events: dict = {}

    async def main(loop):
        with nh.Harness(loop, config_text=config(case), env={'bgp.openwait': case['openwait']}) as hn:
            if not hn.reload_ok:
                raise RuntimeError(f'configuration refused: {hn.reactor.configuration.error}')
            hn.start()
            await hn.sleep(0.5)
            if not hn.remotes:
                raise RuntimeError('exabgp did not connect')
            r = hn.remotes[0]
            open_body = nh.open_from(65000, case['peer'], 0x0A000002, [build.cap_mp(1, 1), build.cap_asn4(65000)])
            if case['mode'] == 'open-withheld':
                t0 = r.messages[0][0] if r.messages else loop.time()
                wait = case['openwait'] + case['delay_open']
                await r.wait_for(lambda: r.closed_at is not None, timeout=max(0.0, wait))
                if r.closed_at is None:
                    await r.send_msg(codec.OPEN, open_body)
                    await hn.sleep(1.0)
                events['withheld'] = {'t0': t0, 'closed_at': r.closed_at, 'notifications': [(t, codec.decode_notification(b)[:2]) for t, _, b in r.of_type(3)], 'sent_open_at': r.sent[0][0] if r.sent else None}
                return
            if case['mode'] == 'keepalive-withheld':
                # OPENCONFIRM: both OPENs are out, the hold time is negotiated, the remote never sends its KEEPALIVE
                await r.wait_for(lambda: any(ty == 1 for _, ty, _ in r.messages), timeout=5.0)
                await r.send_msg(codec.OPEN, open_body)
                t_open = loop.time()
                hh = min(case['ours'], case['peer'])
                await r.wait_for(lambda: r.closed_at is not None, timeout=(hh if hh else 40) + 4 * G)
                events['confirm'] = {'t_open': t_open, 'closed_at': r.closed_at, 'end': loop.time(), 'notifications': [(t, codec.decode_notification(b)[:2]) for t, _, b in r.of_type(3)], 'updates': len(r.of_type(2)), 'fsm': hn.peer(0).fsm.name()}
                return
            if case['mode'] == 'write-stall':
                hn.write_stall = float(case['stall'])
            ok = await nh.establish(r, open_body)
            if not ok:
                raise RuntimeError(f'session did not establish: {[(t, ty) for t, ty, _ in r.messages]} closed={r.closed_at}')
            t_est = loop.time()
            arrivals = [t_est]  # times at which a complete message from the remote was on the wire
            for gap, kind in case['steps']:
                await hn.sleep(gap)
                if r.closed_at is not None:
                    break
                if kind == 'keepalive':
                    await r.send_msg(codec.KEEPALIVE)
                elif kind == 'update':
                    await r.send_msg(codec.UPDATE, b'\x00\x00\x00\x00')
                else:
                    for _ in range(5):
                        await r.send_msg(codec.KEEPALIVE)
                arrivals.append(loop.time())
            if case['mode'] == 'long-batch':
                # the remote keeps the session alive until the batch and its End-of-RIB are out (or 60 s), then falls silent
                while loop.time() < t_est + 60.0 and r.closed_at is None:
                    await hn.sleep(case['period'])
                    if r.closed_at is not None:
                        break
                    await r.send_msg(codec.KEEPALIVE)
                    arrivals.append(loop.time())
                    updates = [t for t, ty, _ in r.messages if ty == 2]
                    if len(updates) > case['routes'] and loop.time() - updates[-1] > 2 * case['period']:
                        break
            if case['mode'] == 'inbound-stream':
                n = 0
                while loop.time() < t_est + case['span'] and r.closed_at is None:
                    await hn.sleep(case['every'])
                    if r.closed_at is not None:
                        break
                    n += 1
                    if case['what'] == 'keepalive' or (case['what'] == 'mixed' and n % 3 == 0):
                        await r.send_msg(codec.KEEPALIVE)
                    else:
                        await r.send_msg(codec.UPDATE, b'\x00\x00\x00\x00' if n % 2 else b'\x00\x00\x00\x0e\x40\x01\x01\x00\x40\x02\x00\x40\x03\x04\x0a\x00\x00\x02\x18' + bytes([70, n % 250, (n // 250) % 250]))
                    arrivals.append(loop.time())
            if case['mode'] == 'write-stall':
                # the remote is never silent for H while the write is blocked, and for a while after it went through
                until = t_est + float(case['stall']) + 2 * h
                while loop.time() < until and r.closed_at is None:
                    await hn.sleep(case['period'])
                    if r.closed_at is not None:
                        break
                    await r.send_msg(codec.KEEPALIVE)
                    arrivals.append(loop.time())
            horizon = (h + G + 3) if h else 40.0
            if case['tail'] == 'stay' and h:
                # keep the session alive for two more periods, then fall silent
                for _ in range(6):
                    await hn.sleep(h / 3.0)
                    if r.closed_at is not None:
                        break
                    await r.send_msg(codec.KEEPALIVE)
                    arrivals.append(loop.time())
            await r.wait_for(lambda: r.closed_at is not None, timeout=horizon)
            events['run'] = {
                't_est': t_est,
                'arrivals': arrivals,
                'closed_at': r.closed_at,
                'end': loop.time(),
                'messages': [(t, ty, body) for t, ty, body in r.messages],
                'stalls': list(hn.stalls),
            }

    vloop.run(main)

    classes = [f'H:{h}', f'mode:{case["mode"]}']
    nontrivial = False
    if case['mode'] == 'open-withheld':
        ev = events['withheld']
        notes = ev['notifications']
        late = case['delay_open'] > 0
        deadline = ev['t0'] + case['openwait']
        if late:
            nontrivial = True
            if not notes:
                raise Violation('openwait:no-notification', f'OPEN withheld {case["openwait"]}+{case["delay_open"]} s, no NOTIFICATION, closed_at={ev["closed_at"]}')
            t, cs = notes[0]
            if cs != (5, 1):
                raise Violation(f'openwait:wrong-code:{cs[0]}/{cs[1]}', 'expected 5/1')
            if t > deadline + G or t < deadline - 0.01:
                raise Violation('openwait:timing', f'5/1 at {t - ev["t0"]:.2f}s for openwait {case["openwait"]}')
        else:
            if notes and notes[0][0] < deadline - 0.01 and ev['sent_open_at'] is None:
                raise Violation('openwait:early', f'{notes[0]} before openwait {case["openwait"]} elapsed')
        return {'nontrivial': nontrivial, 'classes': classes + [f'open-late:{late}']}

    if case['mode'] == 'keepalive-withheld':
        ev = events['confirm']
        notes = ev['notifications']
        if ev['updates'] or ev['fsm'] == 'ESTABLISHED':
            raise Violation('confirm:established-without-keepalive', f'fsm {ev["fsm"]}, {ev["updates"]} UPDATE(s) written')
        if h == 0:
            if any(cs == (4, 0) for _, cs in notes):
                raise Violation('hold0:hold-timer-fired', f'in OPENCONFIRM: {notes}')
            return {'nontrivial': True, 'classes': classes}
        if not notes:
            raise Violation('hold:not-fired:OPENCONFIRM', f'no KEEPALIVE from the peer for {ev["end"] - ev["t_open"]:.1f}s after the OPENs, H={h}: no NOTIFICATION, closed_at={ev["closed_at"]}')
        t, cs = notes[0]
        if cs != (4, 0):
            raise Violation(f'hold:wrong-notification:{cs[0]}/{cs[1]}', f'OPENCONFIRM silence, H={h}')
        if t - ev['t_open'] < h - 1.0:  # the timer starts with our OPEN, up to a second before the peer's arrives here
            raise Violation('hold:fired-early', f'4/0 after {t - ev["t_open"]:.2f}s in OPENCONFIRM, H={h}')
        if t - ev['t_open'] > h + G:
            raise Violation('hold:fired-late', f'4/0 {t - ev["t_open"] - h:.2f}s after the hold time ran out in OPENCONFIRM (H={h})')
        return {'nontrivial': True, 'classes': classes + ['hold-expired']}

    ev = events['run']
    msgs = ev['messages']
    notifications = [(t, codec.decode_notification(b)[:2]) for t, ty, b in msgs if ty == 3]
    keepalives = [t for t, ty, _ in msgs if ty == 4 and t >= ev['t_est'] - 1e-9]
    arrivals = ev['arrivals']
    if h == 0:
        nontrivial = True
        # (4) no periodic KEEPALIVE and no hold-timer expiry
        extra = [t for t in keepalives if t > ev['t_est'] + 0.5]
        if extra:
            raise Violation('hold0:keepalive-sent', f'{len(extra)} KEEPALIVE(s) after establishment with hold time 0, first at +{extra[0] - ev["t_est"]:.1f}s')
        if any(cs == (4, 0) for _, cs in notifications):
            raise Violation('hold0:hold-timer-fired', str(notifications))
        sent_ka = any(k in ('keepalive', 'burst') for _, k in case['steps'])
        if ev['closed_at'] is not None and not sent_ka:
            raise Violation('hold0:session-closed', f'closed at +{ev["closed_at"] - ev["t_est"]:.1f}s notifications {notifications}')
        return {'nontrivial': True, 'classes': classes}

    # (2) never 4/0 after a silence shorter than H
    for t, cs in notifications:
        if cs == (4, 0):
            before = [a for a in arrivals if a <= t]
            silence = t - max(before)
            if silence < h:
                raise Violation('hold:fired-early', f'4/0 after {silence:.2f}s of silence, H={h}')
    # (1) silence longer than H + g ends the session with 4/0
    last = max(arrivals)
    silent_for = ev['end'] - last
    gaps = [b - a for a, b in zip(arrivals, arrivals[1:])]
    long_gap = [g for g in gaps if g > h + G]
    if silent_for > h + G or long_gap:
        if not any(cs == (4, 0) for _, cs in notifications):
            if notifications:
                raise Violation(f'hold:wrong-notification:{notifications[0][1][0]}/{notifications[0][1][1]}', f'silence {silent_for:.1f}s H={h}')
            raise Violation('hold:not-fired', f'silence {silent_for:.1f}s > H={h}+{G}, session closed_at={ev["closed_at"]}')
        t40 = [t for t, cs in notifications if cs == (4, 0)][0]
        # it must come within g of the first moment the silence exceeded H
        first_violation = None
        for a, b in zip(arrivals, arrivals[1:] + [float('inf')]):
            if b - a > h:
                first_violation = a + h
                break
        if first_violation is not None and t40 > first_violation + G:
            raise Violation('hold:fired-late', f'4/0 {t40 - first_violation:.2f}s after the hold time ran out (H={h})')
    elif notifications and notifications[0][1] != (4, 0):
        cs = notifications[0][1]
        raise Violation(f'hold:spurious-notification:{cs[0]}/{cs[1]}', f'no silence above H={h}: gaps {[round(g, 2) for g in gaps]} tail {silent_for:.2f}')
    # (3) KEEPALIVE spacing while established
    end = ev['closed_at'] if ev['closed_at'] is not None else ev['end']
    t40s = [t for t, cs in notifications]
    if t40s:
        end = min(end, t40s[0])
    marks = [ev['t_est']] + [t for t in keepalives if t <= end] + [end]
    limit = h / 3.0 + G
    stalls = ev.get('stalls', [])
    for a, b in zip(marks, marks[1:]):
        if any(a <= t0 + d + G and b >= t0 for t0, d in stalls):
            continue  # exabgp could not write during the blocked write: its own KEEPALIVEs are late by construction
        if b - a > limit:
            raise Violation('keepalive:gap-too-long', f'{b - a:.2f}s without a KEEPALIVE from exabgp, H={h} (limit H/3+g={limit:.2f})')
    near = [g for g, _ in case['steps'] if abs(g - h) <= 3 or abs(g - h / 3.0) <= 3]
    nontrivial = bool(near) or case['tail'] == 'silence'
    if any(cs == (4, 0) for _, cs in notifications):
        classes.append('hold-expired')
    if case['tail'] == 'stay':
        classes.append('kept-alive')
    if case['mode'] == 'long-batch':
        ups = [t for t, ty, _ in msgs if ty == 2]
        span = (ups[-1] - ups[0]) if len(ups) > 1 else 0.0
        classes.append('outbound-batch-longer-than-H/3' if span > h / 3.0 else 'outbound-batch-short')
        nontrivial = span > h / 3.0
    if case['mode'] == 'inbound-stream':
        classes.append('inbound-stream-longer-than-H/3')
        nontrivial = True
    if case['mode'] == 'write-stall':
        if not stalls:
            return {'nontrivial': False, 'classes': classes + ['write-stall:no-update-written']}
        classes.append('write-blocked-longer-than-H')
        nontrivial = True
    if any(k == 'update' for _, k in case['steps']):
        classes.append('update-as-liveness')
    if case.get('rib_in') is False:
        classes.append('adj-rib-in-false')
    return {'nontrivial': nontrivial, 'classes': classes}


def fixed_cases() -> list:
    """the special modes at fixed parameters, run in every tier (the random draw visits each only a few times in the quick tier)"""
    out = []
    for h, peer in ((3, 90), (9, 9), (30, 4)):
        hh = min(h, peer)
        for every, what in ((0.01, 'update'), (0.09, 'keepalive'), (0.05, 'mixed')):
            out.append({'ours': h, 'peer': peer, 'mode': 'inbound-stream', 'openwait': 5, 'delay_open': 1.0, 'steps': [], 'tail': 'silence', 'span': round(hh / 3.0 + 3.0, 2), 'every': every, 'what': what})
        out.append({'ours': h, 'peer': peer, 'mode': 'long-batch', 'openwait': 5, 'delay_open': 1.0, 'steps': [], 'tail': 'silence', 'routes': 80, 'period': round(max(0.5, hh / 3.0), 2)})
        out.append({'ours': h, 'peer': peer, 'mode': 'write-stall', 'openwait': 5, 'delay_open': 1.0, 'steps': [], 'tail': 'silence', 'stall': hh * 2.0, 'period': round(hh / 2.0, 2)})
        out.append({'ours': h, 'peer': peer, 'mode': 'keepalive-withheld', 'openwait': 5, 'delay_open': 1.0, 'steps': [], 'tail': 'silence'})
    for h, peer in ((3, 90), (90, 9)):
        hh = min(h, peer)
        # UPDATEs only, every H/3, for three hold times, to a neighbor that keeps no Adj-RIB-In; then silence
        out.append({'ours': h, 'peer': peer, 'mode': 'established', 'openwait': 5, 'delay_open': 1.0, 'steps': [[round(hh / 3.0, 2), 'update'] for _ in range(9)], 'tail': 'silence', 'rib_in': False})
    out.append({'ours': 0, 'peer': 30, 'mode': 'keepalive-withheld', 'openwait': 5, 'delay_open': 1.0, 'steps': [], 'tail': 'silence'})
    return out


ENGINES = [Engine('timers', cases, check, quick=120, thorough=2500, batch=60, fixed_cases=fixed_cases)]
