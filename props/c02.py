"""C02 - reported routes are exactly what the peer sent"""

from __future__ import annotations

import asyncio
import ipaddress
import json
import struct

from hypothesis import strategies as st

from vlib import exa
from vlib.refwire import codec
from vlib.refwire import strategies as ws
from vlib.runner import Engine, Violation, exception_signature

PROPERTY = 'C02'
RULE = (
    'well-formed UPDATE payloads built byte by byte from a drawn description: any mix of withdrawn / NLRI / MP_REACH / MP_UNREACH for the IP families '
    '(unicast, multicast, labeled, VPN), 1-40 NLRIs, ADD-PATH per family as negotiated, attribute order sorted / permuted / MP first, extended-length flag on short attributes, '
    'PARTIAL on optional transitive, unknown optional transitive and non-transitive attributes, AS_PATH + AS4_PATH from a 2-byte peer, End-of-RIB for every negotiated family; '
    'x negotiated parameters. Observers: JSON v6, JSON v4, Adj-RIB-In after the real UpdateHandler ran over a sequence. '
    'Non-trivial = >= 2 NLRIs in an MP attribute, or announce and withdraw together, or an AS4_PATH, or a non-sorted attribute order'
)
ASSUMPTIONS = [
    'refwire decode of the same bytes is the reference',
    'AGGREGATOR is compared only when no AS4_AGGREGATOR is present; unknown optional non-transitive attributes are left out of the expectation',
    'MP_REACH with global + link-local next hop: the global address must be reported',
    'AS paths are compared after merging adjacent AS_SEQUENCE segments (same meaning)',
]

FAMILY_NAME = {
    'ipv4 unicast': (1, 1),
    'ipv4 multicast': (1, 2),
    'ipv4 nlri-mpls': (1, 4),
    'ipv4 mpls-vpn': (1, 128),
    'ipv6 unicast': (2, 1),
    'ipv6 multicast': (2, 2),
    'ipv6 nlri-mpls': (2, 4),
    'ipv6 mpls-vpn': (2, 128),
}
FAMILY_TEXT = {(1, 1): 'ipv4 unicast', (1, 2): 'ipv4 multicast', (1, 4): 'ipv4 nlri-mpls', (1, 128): 'ipv4 mpls-vpn', (2, 1): 'ipv6 unicast', (2, 4): 'ipv6 nlri-mpls', (2, 128): 'ipv6 mpls-vpn'}
SEG_NAME = {'as-set': 1, 'as-sequence': 2, 'as-confed-sequence': 3, 'as-confed-set': 4}

_NEIGHBORS: dict = {}
_COUNTER = [1000]


def neighbor_for(session: dict):
    key = json.dumps(session, sort_keys=True)
    if key not in _NEIGHBORS:
        fams = [FAMILY_TEXT[tuple(f)] for f in session['families']]
        ap = [FAMILY_TEXT[tuple(f)] for f in session['addpath']]
        # RIB objects are shared process-wide by neighbor *name*: every configuration gets its own peer address
        _COUNTER[0] += 1
        text = exa.neighbor_text(
            peer_ip=f'127.{(_COUNTER[0] >> 16) & 255}.{(_COUNTER[0] >> 8) & 255}.{_COUNTER[0] & 255}',
            local_as=65000,
            peer_as=session['peer_as'],
            families=fams,
            capability={'asn4': 'enable', 'add-path': 'send/receive' if ap else 'disable', 'aigp': 'enable', 'nexthop': 'enable' if session.get('extnh') else 'disable'},
            addpath_families=ap or None,
            nexthop=[f'{FAMILY_TEXT[tuple(f)]} ipv6' for f in session.get('extnh', [])] or None,
            extra='  adj-rib-in true;',
        )
        conf, n = exa.neighbor_from_text(text)
        neg = exa.negotiate(n, ws.peer_open_for(session), exa.Direction.IN)
        if len(_NEIGHBORS) > 64:
            _NEIGHBORS.clear()
        _NEIGHBORS[key] = (n, neg)
    return _NEIGHBORS[key]


def rd_text(hexrd: str) -> str:
    raw = bytes.fromhex(hexrd)
    t = struct.unpack('!H', raw[:2])[0]
    if t == 0:
        a, n = struct.unpack('!HL', raw[2:])
        return f'{a}:{n}'
    if t == 1:
        return f'{ipaddress.IPv4Address(raw[2:6])}:{struct.unpack("!H", raw[6:])[0]}'
    if t == 2:
        a, n = struct.unpack('!LH', raw[2:])
        return f'{a}:{n}'
    return hexrd


def ref_key(e: dict) -> tuple:
    pid = e.get('path_id')
    # RFC 8277 2.4 / RFC 4364: the label is not part of the route's identity (a withdraw need not repeat it)
    return (e['afi'], e['safi'], pid, e['prefix'], rd_text(e['rd']) if e.get('rd') else None)


def json_key(family: tuple, item: dict) -> tuple:
    pid = None
    if 'path-information' in item:
        pid = int(ipaddress.IPv4Address(item['path-information']))
    net = ipaddress.ip_network(item['nlri'], strict=False)
    return (family[0], family[1], pid, str(net), item.get('rd'))


def json_labels(item: dict) -> tuple:
    return tuple(x[0] for x in item.get('label', []))


def reference(body: bytes, session: dict) -> dict:
    addpath = lambda a, s: [a, s] in session['addpath']  # noqa: E731
    eor = codec.is_eor(body)
    if eor:
        return {'eor': eor}
    u = codec.decode_update(body, session['asn4'], addpath)
    announce: dict = {}
    withdraw: set = set()
    for e in u['withdrawn']:
        withdraw.add(ref_key(e))
    if 15 in u['attrs']:
        for e in u['attrs'][15]['nlri']:
            withdraw.add(ref_key(e))
    for e in u['nlri']:
        announce[ref_key(e)] = (u['attrs'].get(3), ())
    if 14 in u['attrs']:
        mp = u['attrs'][14]
        for e in mp['nlri']:
            announce[ref_key(e)] = (mp['nexthop'][0], tuple(e.get('labels', ())))
    # RFC 4271 4.3: a prefix both withdrawn and announced in one UPDATE is an announce
    withdraw -= set(announce)
    attrs = {}
    a = u['attrs']
    if 1 in a:
        attrs['origin'] = ['igp', 'egp', 'incomplete'][a[1]]
    if 2 in a:
        merged = codec.merge_as4(a[2], a.get(17)) if not session['asn4'] else a[2]
        attrs['as-path'] = codec.normalise_path(merged)
    if 4 in a:
        attrs['med'] = a[4]
    if 5 in a:
        attrs['local-preference'] = a[5]
    if 6 in a:
        attrs['atomic-aggregate'] = True
    if 7 in a and 18 not in a:
        attrs['aggregator'] = f'{a[7][0]}:{a[7][1]}'
    if 8 in a:
        attrs['community'] = sorted([c >> 16, c & 0xFFFF] for c in a[8])
    if 9 in a:
        attrs['originator-id'] = a[9]
    if 10 in a:
        attrs['cluster-list'] = a[10]
    if 16 in a:
        attrs['extended-community'] = sorted(int(x, 16) for x in a[16])
    if 32 in a:
        attrs['large-community'] = sorted(list(x) for x in a[32])
    for code, value in a.items():
        if code in (0x63, 0x99, 0xF0):
            attrs[f'unknown-{code:#x}'] = value
    return {'announce': announce, 'withdraw': withdraw, 'attrs': attrs, 'has_announce': bool(announce), 'raw': u}


def observed_from_json(text: str) -> dict:
    doc = json.loads(text)
    msg = doc['neighbor']['message']
    if 'eor' in msg:
        e = msg['eor']
        return {'eor': FAMILY_NAME.get(f'{e["afi"]} {e["safi"]}', (e['afi'], e['safi']))}
    up = msg['update']
    announce: dict = {}
    withdraw: set = set()
    for fam_text, by_nh in up.get('announce', {}).items():
        fam = FAMILY_NAME.get(fam_text)
        if fam is None:
            raise Violation('json:unknown-family-name', fam_text)
        for nh, items in by_nh.items():
            for item in items:
                announce[json_key(fam, item)] = (nh, json_labels(item))
    for fam_text, items in up.get('withdraw', {}).items():
        fam = FAMILY_NAME.get(fam_text)
        if fam is None:
            raise Violation('json:unknown-family-name', fam_text)
        for item in items:
            withdraw.add(json_key(fam, item))
    at = up.get('attribute', {})
    attrs = {}
    for k in ('origin', 'med', 'local-preference', 'atomic-aggregate', 'aggregator', 'originator-id', 'cluster-list'):
        if k in at:
            attrs[k] = at[k]
    if 'as-path' in at:
        segs = [(SEG_NAME[v['element']], v['value']) for _, v in sorted(at['as-path'].items(), key=lambda kv: int(kv[0]))]
        attrs['as-path'] = codec.normalise_path(segs)
    if 'community' in at:
        attrs['community'] = sorted(at['community'])
    if 'extended-community' in at:
        attrs['extended-community'] = sorted(x['value'] for x in at['extended-community'])
    if 'large-community' in at:
        attrs['large-community'] = sorted(at['large-community'])
    for k, v in at.items():
        if k.startswith('attribute-0x'):
            code = int(k.split('-')[1], 16)
            if code in (0x63, 0x99, 0xF0):
                attrs[f'unknown-{code:#x}'] = v[2:].lower() if v.startswith('0x') else v
    return {'announce': announce, 'withdraw': withdraw, 'attrs': attrs}


def compare(tag: str, ref: dict, got: dict, body: bytes) -> None:
    if 'eor' in ref or 'eor' in got:
        if ref.get('eor') != got.get('eor'):
            raise Violation(f'{tag}:eor', f'reference {ref.get("eor")} reported {got.get("eor")} for {body.hex()}')
        return
    ra, ga = ref['announce'], got['announce']
    if set(ra) != set(ga):
        missing = set(ra) - set(ga)
        extra = set(ga) - set(ra)
        kind = 'announce-dropped' if missing and not extra else ('announce-invented' if extra and not missing else 'announce-differs')
        raise Violation(f'{tag}:{kind}', f'missing {sorted(map(str, missing))[:3]} extra {sorted(map(str, extra))[:3]} for {body.hex()}')
    for k, (nh, labels) in ra.items():
        g, glabels = ga[k]
        if labels != glabels:
            raise Violation(f'{tag}:labels', f'{k}: reported {glabels} reference {labels} for {body.hex()}')
        if nh is None:
            continue
        if ipaddress.ip_address(g) != ipaddress.ip_address(nh):
            raise Violation(f'{tag}:nexthop', f'{k}: reported {g} reference {nh} for {body.hex()}')
    if tag.startswith('json'):
        # a prefix in both WITHDRAWN ROUTES and NLRI (RFC 4271 4.3 SHOULD be read as an announce): the event may list both
        both = {k for k in got['withdraw'] if k in ga}
        got = dict(got, withdraw=got['withdraw'] - both)
    if ref['withdraw'] != got['withdraw']:
        missing = ref['withdraw'] - got['withdraw']
        extra = got['withdraw'] - ref['withdraw']
        raise Violation(f'{tag}:withdraw-differs', f'missing {sorted(map(str, missing))[:3]} extra {sorted(map(str, extra))[:3]} for {body.hex()}')
    if not ref['has_announce']:
        return  # attributes of a pure withdraw carry no route information
    for k in sorted(set(ref['attrs']) | set(got['attrs'])):
        r, g = ref['attrs'].get(k), got['attrs'].get(k)
        if k == 'aggregator' and r is None:
            continue
        if k == 'as-path' and not r and not g:
            continue  # an empty AS_PATH may be reported as absent
        if r != g:
            raise Violation(f'{tag}:attribute:{k}', f'reported {g} reference {r} for {body.hex()}')


def rib_view(neighbor) -> dict:
    table = {}
    for route in neighbor.rib.incoming.cached_routes():
        nlri = route.nlri
        fam = (int(nlri.afi), int(nlri.safi))
        item = json.loads('{' + nlri.json() + '}' if not nlri.json().lstrip().startswith('{') else nlri.json())
        table[json_key(fam, item)] = (str(route.nexthop), json_labels(item))
    return table


def check(case: dict) -> dict:
    from exabgp.bgp.message import Message
    from exabgp.reactor.peer.context import PeerContext
    from exabgp.reactor.peer.handlers import UpdateHandler
    from exabgp.version import json_v4

    session = case['session']
    neighbor, neg = neighbor_for(session)
    neighbor.rib.incoming.clear()
    handler = UpdateHandler()
    ctx = PeerContext(proto=None, neighbor=neighbor, negotiated=neg, refresh_enhanced=False, routes_per_iteration=25, peer_id='c02', stats=__import__('collections').defaultdict(int))
    model: dict = {}
    nontrivial = False
    classes = []
    exa.reset_global_state()
    for desc in case['updates']:
        body = ws.render_update(desc) if 'eor' not in desc else ws.eor_body(*desc['eor'])
        try:
            ref = reference(body, session)
        except codec.Malformed as exc:
            raise RuntimeError(f'generator produced a malformed update: {exc} {body.hex()}') from None
        try:
            msg = Message.unpack(2, body, neg)
            out6 = exa.render_update_json(neighbor, msg, neg)
            out4 = exa.render_update_json(neighbor, msg, neg, json_v4)
        except exa.Notify as exc:
            raise Violation(f'refused:{exc.code}/{exc.subcode}', f'{exc} for well-formed {body.hex()}') from None
        except Exception as exc:  # noqa: BLE001
            raise Violation(exception_signature('decode', exc), f'{exc!r} for {body.hex()}') from exc
        try:
            got6 = observed_from_json(out6)
            got4 = observed_from_json(out4)
        except (ValueError, KeyError) as exc:
            raise Violation(f'json:unusable:{type(exc).__name__}', f'{exc!r} in {out6[:300]}') from None
        compare('json', ref, got6, body)
        compare('json-v4', ref, got4, body)
        # Adj-RIB-In through the real handler
        if 'eor' not in ref:
            try:
                asyncio.run(handler.handle_async(ctx, msg)) if False else _run(handler.handle_async(ctx, msg))
            except Exception as exc:  # noqa: BLE001
                raise Violation(exception_signature('adj-rib-in', exc), repr(exc)) from exc
            for k in ref['withdraw']:
                model.pop(k, None)
            for k, v in ref['announce'].items():
                model[k] = v
            got_rib = rib_view(neighbor)
            if set(got_rib) != set(model):
                missing = set(model) - set(got_rib)
                extra = set(got_rib) - set(model)
                kind = 'rib:route-missing' if missing else 'rib:route-not-removed'
                raise Violation(kind, f'missing {sorted(map(str, missing))[:3]} extra {sorted(map(str, extra))[:3]} after {body.hex()}')
            for k, (nh, labels) in model.items():
                if nh is not None and ipaddress.ip_address(got_rib[k][0]) != ipaddress.ip_address(nh):
                    raise Violation('rib:nexthop', f'{k}: {got_rib[k]} vs {nh}')
                if labels != got_rib[k][1]:
                    raise Violation('rib:labels', f'{k}: {got_rib[k]} vs {labels}')
            raw = ref['raw']
            mp_n = max([len(raw['attrs'][c].get('nlri', [])) for c in (14, 15) if c in raw['attrs']] + [0])
            if mp_n >= 2 or (ref['announce'] and ref['withdraw']) or 17 in raw['attrs'] or desc.get('order') != 'sorted':
                nontrivial = True
            if 17 in raw['attrs']:
                classes.append('as4_path')
            if desc.get('order') != 'sorted':
                classes.append(f'order:{desc["order"]}')
            if any(a.get('ext') for a in desc['attrs']):
                classes.append('forced-extended-length')
            if session['addpath']:
                classes.append('addpath-session')
            if 14 in raw['attrs']:
                classes.append(f'mp_reach:{raw["attrs"][14]["afi"]}/{raw["attrs"][14]["safi"]}')
                if raw['attrs'][14]['afi'] == 1 and any(':' in h for h in raw['attrs'][14].get('nexthop', [])):
                    classes.append('rfc8950:ipv6-next-hop-for-ipv4-nlri')
            if 15 in raw['attrs']:
                classes.append(f'mp_unreach:{raw["attrs"][15]["afi"]}/{raw["attrs"][15]["safi"]}')
        else:
            classes.append('eor')
            nontrivial = nontrivial or ref['eor'] != (1, 1)
    if case.get('motif'):
        classes.append('motif:' + case['motif'])
        nontrivial = True
    return {'nontrivial': nontrivial, 'classes': sorted(set(classes))}


def _run(coro):
    try:
        coro.send(None)
    except StopIteration:
        return
    raise RuntimeError('handler awaited something')


@st.composite
def cases(draw):
    session = draw(ws.sessions())
    n = draw(st.sampled_from([1, 1, 2, 3, 5]))
    ups = []
    for _ in range(n):
        if draw(st.integers(0, 7)) == 0:
            ups.append({'eor': list(draw(st.sampled_from(session['families'])))})
        else:
            ups.append(draw(ws.updates(session)))
    case = {'session': session, 'updates': ups}
    if draw(st.integers(0, 2)) == 0:
        motif = draw(_follow_ups(ups))
        if motif:
            case['updates'] = ups + motif[1]
            case['motif'] = motif[0]
    return case


def _announce_of(update: dict):
    """(family, first announced entry, where it sits) of an UPDATE description, or None"""
    if 'eor' in update:
        return None
    for a in update.get('attrs', []):
        if a['code'] == 14 and isinstance(a.get('v'), dict) and a['v'].get('entries'):
            return (a['v']['afi'], a['v']['safi']), a['v']['entries'][0], 'mp'
    if update.get('nlri'):
        return (1, 1), update['nlri'][0], 'v4'
    return None


def _with_entries(update: dict, where: str, announce: list, withdraw: list) -> dict:
    import copy

    u = copy.deepcopy(update)
    u.setdefault('order', 'sorted')
    if where == 'v4':
        u['nlri'], u['withdrawn'] = announce, withdraw
        u['attrs'] = [a for a in u['attrs'] if a['code'] not in (14, 15)]
        if not announce:
            u['attrs'] = []
        return u
    u['nlri'], u['withdrawn'] = [], []
    reach = next(a for a in u['attrs'] if a['code'] == 14)
    fam = (reach['v']['afi'], reach['v']['safi'])
    u['attrs'] = [a for a in u['attrs'] if a['code'] != 15]
    if announce:
        reach['v']['entries'] = announce
    else:
        u['attrs'] = []
    if withdraw:
        u['attrs'].append({'code': 15, 'flags': 0x80, 'v': {'afi': fam[0], 'safi': fam[1], 'entries': withdraw}})
    return u


@st.composite
def _follow_ups(draw, ups: list):
    """UPDATEs which meet an earlier one in the Adj-RIB-In: the same route again with another label, a prefix with the same octets and
    another length (10.0.0.0/24 then 10.0.0.0/23, same route distinguisher and path id), and withdrawals of one of the two"""
    import ipaddress

    sources = [(u, _announce_of(u)) for u in ups]
    sources = [(u, a) for u, a in sources if a is not None]
    if not sources:
        return None
    u, (fam, e, where) = draw(st.sampled_from(sources))
    net = ipaddress.ip_network(e['prefix'])
    bits, top = net.prefixlen, net.max_prefixlen
    kind = draw(st.sampled_from(['sibling-length', 'sibling-length', 'label-only'] if 'labels' in e else ['sibling-length']))
    if kind == 'label-only':
        again = dict(e, labels=[draw(st.sampled_from([18, 19, 2000, 1048574]))])
        out = [_with_entries(u, where, [again], [])]
        if draw(st.booleans()):
            out.append(_with_entries(u, where, [], [dict(e)]))
        return 'same-route-another-label', out
    if bits == 0:
        return None
    low = ((bits - 1) // 8) * 8 + 1
    other = draw(st.sampled_from([b for b in range(low, min(low + 8, top + 1)) if b != bits]))
    base = ipaddress.ip_network(f'{net.network_address}/{min(bits, other)}', strict=False).network_address
    first, second = dict(e, prefix=f'{base}/{bits}'), dict(e, prefix=f'{base}/{other}')
    if 'labels' in e and draw(st.booleans()):
        second['labels'] = [draw(st.sampled_from([18, 19, 2000]))]
    out = [_with_entries(u, where, [first], []), _with_entries(u, where, [second], [])]
    tail = draw(st.sampled_from(['none', 'withdraw-first', 'withdraw-second', 'withdraw-first-then-announce-first']))
    if tail != 'none':
        gone = first if 'first' in tail.split('-then-')[0] else second
        out.append(_with_entries(u, where, [], [dict(gone)]))
    if tail.endswith('announce-first'):
        out.append(_with_entries(u, where, [first], []))
    return 'same-octets-another-prefix-length', out


ENGINES = [Engine('updates', cases, check, quick=1000, thorough=12000, batch=250)]
