"""C14 - API commands: same order, one acknowledgement each, no side effects on error

Development aid: VERIF_C14_KNOWN="pattern,pattern" (fnmatch on signatures) turns matching violations into
`tolerated:<signature>` classes so that the search goes on behind findings which are not yet listed in
known_findings.json.  Registered commands never set it.

The command grammar (see `command`) walks every command the API registers (reactor/api/dispatch/v6.py is the
tree; dispatch/v4.py the older spellings).  Left out on purpose:
  * `system crash` / `crash`: a debugging command whose handler raises on purpose (it answers `done` and then the
    asynchronous error handler answers `error` - two terminal replies by construction);
  * `daemon shutdown` / `shutdown` anywhere but as the very last line (the main loop ends with it, nothing written
    after it is ever executed);
  * `peer delete` / `delete neighbor` of a *configured* neighbor (the neighbor set is the fixed point of the side
    effect oracle); it is generated for addresses created by `peer create` and for addresses nobody has;
  * `system api version <other>`: the reply says "effective on next process restart" while the dispatcher reads the
    value on every command - what the next command means would be ambiguous; the current value, no value and
    invalid values are generated.
"""

from __future__ import annotations

import asyncio
import contextlib
import fnmatch
import io
import json
import os
import sys

from hypothesis import strategies as st

from vlib import exa, vloop
from vlib import netharness as nh
from vlib.refwire import build as wire
from vlib.refwire import codec
from vlib.runner import Engine, Inconclusive, Violation

PROPERTY = 'C14'
RULE = (
    'real Reactor + real Processes (pipe-backed helper process) with 1-6 neighbors (addresses sharing a textual prefix such as 10.0.0.1 / 10.0.0.10, different peer-as / router-id, one with fewer families); '
    'command sequence (1-30 lines) from a grammar over every registered command, v6 spellings (`peer <selector> ...`, `rib ...`, `session ...`, `system ...`, `daemon ...`) and v4 spellings, valid and invalid forms: '
    'announce / withdraw of route, `ipv4 unicast`, `ipv6 unicast`, `ipv4 mpls-vpn`, flow (braced, one-line and `ipv4 flow`), vpls, attributes ... nlri, operational (asm adm rpcq rpcp apcq lpcq), eor and route-refresh of several families, watchdog, '
    'several `;`-separated statements on one line (all valid, or one refused, whose prefixes must never reach a RIB), sync / async / json / text suffixes; '
    'rib show / flush / clear (in, out, filters), teardown, peer show / list, routes list / add / remove, peer create / delete, group start / end blocks with buffered lines and one-line `peer <selector> group a ; b`, '
    'session ack enable / disable / silence (the expected number of terminal replies follows the acknowledgement state), sync enable / disable, ping, bye, reset, version, help, status, queue-status, api version, daemon reload / restart, '
    'shutdown only as the last line, comments, empty lines, extra white space, unknown verbs, the other version\'s spellings; '
    'selectors: *, one address, address + key/value terms that match or not (peer-as local-as router-id local-ip family-allowed), bracket lists, selectors matching no neighbor; '
    'the byte stream is written to the pipe in chunks cut at drawn points (1-byte chunks, cuts inside a line and across the newline); API version 6 and 4; '
    'the BGP sessions of none, some or all neighbors are established before the first line (a remote speaker answers the OPEN, keeps the session alive and counts what it is sent). '
    'Every form of every command is also run once per tier in enumerated sequences (tours(): both versions, every selector shape, a group block of buffered lines, sessions up). '
    'Non-trivial = >= 1 rejected command, >= 1 selective command with >= 2 neighbors, and >= 1 cut inside a line'
)
ASSUMPTIONS = [
    'an independent 12-line matcher over the configured neighbor attributes decides which neighbors a selector names',
    'a terminal reply is a line that is exactly `done` or `error` (or the JSON done/error object); the free-text `error: ...` line that precedes `error`, and the data lines of informational commands, are not counted',
    'acknowledgements: `session ack disable` is itself answered (documented: "sends done for this command, then disables"), `session ack silence` is not; while disabled no command gets a terminal reply; `session ack enable` is answered',
    (
        'the RIB fingerprint is: cached Adj-RIB-Out routes of every family, queued announces, pending withdraws, watchdog sets, eor / refresh / operational queues (content), ASM table and Adj-RIB-In size of every configured neighbor, '
        'and the number of UPDATE / NOTIFICATION / ROUTE-REFRESH / OPERATIONAL messages and of sessions its remote speaker has seen (a neighbor no command named is sent keepalives only)'
    ),
    'commands that match change *at most* the matching neighbors; that they do change them is decided by C04/C01',
    'eor / route-refresh need an established session: done is demanded when one of the neighbors they name was established at the start and no line since could have brought it down, either reply is accepted otherwise',
    (
        'lenient forms ExaBGP accepts without documenting them (`rib clear` without direction, attributes without nlri, unknown operational name, `routes add` without the word route), '
        'a group line one statement of which is refused, a second `peer create` of the same neighbor, `peer delete` of a neighbor made at run time: either terminal reply is accepted, the side-effect clauses still apply'
    ),
    'a line buffered by `group start` is answered done and changes nothing until `group end`, which may change every neighbor of the process',
    'which command a missing / extra terminal reply belongs to (signature only, not the verdict) is read from the order in which Processes.write was called',
    'neighbors made by `peer create` are outside the fingerprinted set',
    'a `daemon shutdown` is written once everything before it was answered; the helper reads its pipe all along',
]

TOLERATED = [p for p in os.environ.get('VERIF_C14_KNOWN', '').split(',') if p]

POOL = [
    {'ip': '10.0.0.1', 'peer_as': 65001, 'rid': '1.1.1.1', 'local_as': 65000},
    {'ip': '10.0.0.10', 'peer_as': 65002, 'rid': '1.1.1.2', 'local_as': 65000},
    {'ip': '10.0.0.2', 'peer_as': 65001, 'rid': '1.1.1.3', 'local_as': 64999, 'families': ['ipv4 unicast', 'ipv4 flow']},
    {'ip': '192.0.2.7', 'peer_as': 65003, 'rid': '1.1.1.4', 'local_as': 65000},
    # IPv6 neighbors, one address a textual prefix of the other up to a colon (appended: stored cases name neighbors by position)
    {'ip': '2001:db8::1', 'peer_as': 65001, 'rid': '1.1.1.5', 'local_as': 65000, 'local_ip': '2001:db8::ffff'},
    {'ip': '2001:db8::1:5', 'peer_as': 65001, 'rid': '1.1.1.6', 'local_as': 65000, 'local_ip': '2001:db8::ffff'},
]
FAMILIES = ['ipv4 unicast', 'ipv6 unicast', 'ipv4 flow', 'ipv4 mpls-vpn', 'l2vpn vpls']
GHOSTS = ['10.0.0.100', '10.0.0.3', '192.0.2.70', '2001:db8::1:50', '2001:db8::']
DYNAMIC = ['10.9.9.1', '10.9.9.2']  # only ever made by `peer create`
PREFIXES = ['10.1.0.0/24', '10.1.1.0/24', '10.2.0.0/16']
GHOST_PREFIXES = ['10.66.0.0/24', '10.66.1.0/24']  # only ever named by commands that are refused: must never reach a RIB
# everything a refused command names sits in 10.66.0.0/16 or 2001:db8:66::/48 (prefixes, flow components, route distinguishers)
GHOST_MARKS = ['10.66.', '2001:db8:66:']
SERVICE = 'helper'
FAMILY_CODES = {'ipv4 unicast': (1, 1), 'ipv6 unicast': (2, 1), 'ipv4 flow': (1, 133), 'ipv4 mpls-vpn': (1, 128), 'l2vpn vpls': (25, 65)}

# families whose violation signatures keep the names they had before the grammar grew
LEGACY_FAMILIES = {'route', 'route-multi', 'eor', 'route-refresh', 'watchdog', 'rib-flush', 'comment', 'empty', 'unknown', 'other-version', 'ack'}


def matches(sel: dict, n: dict) -> bool:
    """independent selector semantics: every term must equal the neighbor's configured value"""
    if sel['ip'] == '*':
        return True
    if sel['ip'] != n['ip']:
        return False
    for key, value in sel.get('terms', []):
        # no neighbor asks for multi-session: the families it would name are negotiated "in-open"
        have = {'peer-as': str(n['peer_as']), 'local-as': str(n['local_as']), 'router-id': n['rid'], 'local-ip': n.get('local_ip', '127.0.0.1'), 'family-allowed': 'in-open'}[key]
        if str(value) != have:
            return False
    return True


def selected(selector: dict, neighbors: list[dict]) -> list[int]:
    if selector['kind'] == 'all':
        return list(range(len(neighbors)))
    return [i for i, n in enumerate(neighbors) if any(matches(s, n) for s in selector['items'])]


def selector_text(selector: dict) -> str:
    def one(s):
        return ' '.join([s['ip']] + [f'{k} {v}' for k, v in s.get('terms', [])])

    if selector['kind'] == 'all':
        return '*'
    if selector['kind'] == 'single':
        return one(selector['items'][0])
    return '[ ' + ' , '.join(one(s) for s in selector['items']) + ' ]'


@st.composite
def selector_item(draw, neighbors):
    if draw(st.integers(0, 4)) == 0:
        ip = draw(st.sampled_from(GHOSTS))
        base = draw(st.sampled_from(neighbors))
    else:
        # the first neighbor's address is a textual prefix of the second one's: name it often
        base = neighbors[0] if draw(st.booleans()) else draw(st.sampled_from(neighbors))
        ip = base['ip']
    terms = []
    for key, good in (('peer-as', base['peer_as']), ('local-as', base['local_as']), ('router-id', base['rid']), ('local-ip', base.get('local_ip', '127.0.0.1')), ('family-allowed', 'in-open')):
        if draw(st.integers(0, 3 if key != 'family-allowed' else 7)) == 0:
            if draw(st.integers(0, 2)) == 0:
                bad = {'peer-as': 64000, 'local-as': 64001, 'router-id': '9.9.9.9', 'local-ip': '127.0.0.9', 'family-allowed': 'ipv4-unicast'}[key]
                terms.append([key, bad])
            else:
                terms.append([key, good])
    return {'ip': ip, 'terms': terms}


@st.composite
def selectors(draw, neighbors):
    kind = draw(st.sampled_from(['all', 'single', 'single', 'single', 'list']))
    if kind == 'all':
        return {'kind': 'all'}
    if kind == 'single':
        return {'kind': 'single', 'items': [draw(selector_item(neighbors))]}
    return {'kind': 'list', 'items': draw(st.lists(selector_item(neighbors), min_size=1, max_size=3))}


# ---------------------------------------------------------------------------- the command grammar
#
# A command is {'line', 'expect': 'done'|'error'|None (either), 'touch': [neighbor indexes that may change],
# 'selective': bool, 'fam': family label, 'refused': bool (an unknown command or one that fails to parse), 'fx': state
# change, see annotate()}.  `expect` / `touch` are what holds outside a group block with acknowledgements on;
# annotate() applies the acknowledgement and grouping state the earlier lines of the sequence left behind.

# (weight, kind): the kinds the check always had keep four draws in ten (the stored defects live there)
KINDS = [
    (9, 'announce'), (3, 'withdraw'), (3, 'invalid-route'), (3, 'invalid-multi'), (3, 'valid-multi'), (1, 'eor'), (1, 'refresh'), (2, 'watchdog'), (1, 'flush'),
    (1, 'comment'), (1, 'empty'), (2, 'unknown'), (2, 'unknown-after-selector'), (2, 'other-version'), (1, 'ack-enable'),
    (3, 'family-unicast'), (2, 'family-ipv6'), (2, 'family-vpn'), (3, 'flow'), (3, 'vpls'), (3, 'attributes'), (3, 'operational'), (2, 'eor-families'), (2, 'refresh-families'),
    (1, 'announce-unknown-type'), (1, 'selector-empty-list'), (1, 'watchdog-forms'), (3, 'rib-show'), (2, 'rib-flush-clear'), (2, 'teardown'), (3, 'peer-show'), (3, 'info'), (2, 'session'),
    (2, 'ack'), (3, 'group-inline'), (1, 'group-marker'), (3, 'routes'), (2, 'peer-create'), (1, 'peer-delete'), (1, 'daemon'), (1, 'noise'),
]  # fmt: skip
KIND_POOL = [k for w, k in KINDS for _ in range(w)]

SUFFIXES = ['', '', '', '', ' sync', ' async', ' json', ' text', ' json sync']
FLOW_GOOD = [
    'flow route {{ match {{ source {p}; }} then {{ discard; }} }}',
    'flow route {{ match {{ destination {p}; destination-port =3128; protocol tcp; }} then {{ rate-limit 9600; }} }}',
    'flow route destination {p} discard',
    'flow route source {p} destination-port =80 rate-limit 9600',
]
FLOW_PREFIXES = ['10.5.0.0/24', '10.5.1.0/24']
VPLS_GOOD = 'vpls rd 192.168.201.1:{n} endpoint 5 base 10702 offset 1 size 8 next-hop 192.168.201.1'
OPERATIONAL_GOOD = [
    'asm afi ipv4 safi unicast advisory "hello world"',
    'adm afi ipv4 safi unicast advisory "maintenance"',
    'rpcq afi ipv4 safi unicast sequence 3',
    'rpcp afi ipv4 safi unicast sequence 3 counter 200',
    'apcq afi ipv4 safi unicast sequence 4',
    'lpcq afi ipv6 safi unicast sequence 5',
    'lpcp afi ipv4 safi unicast sequence 5 counter 250',
]
ROUTE_INDEX = (b'01010101disabled' + bytes([24, 10, 1, 0])).hex()  # what `routes add route 10.1.0.0/24 ...` answers
EOR_FAMILIES = ['', 'ipv4 unicast', 'ipv6 unicast', 'ipv4 flow', 'ipv4 mpls-vpn', 'l2vpn vpls']


def cmd(line: str, expect, touch, selective: bool, fam: str, refused: bool = False, fx: str | None = None, **more) -> dict:
    out = {'line': line, 'expect': expect, 'touch': list(touch), 'selective': selective, 'fam': fam, 'refused': refused}
    if fx:
        out['fx'] = fx
    out.update(more)
    return out


def v4_head(sel: dict, brackets: bool = False) -> str:
    if sel['kind'] == 'all':
        return ''
    if sel['kind'] == 'single' or brackets:
        # (the bracket list of v6 is understood behind the word neighbor as well)
        return f'neighbor {selector_text(sel)} '
    # v4 lists selectors as "neighbor A , neighbor B"
    return ' , '.join('neighbor ' + ' '.join([s['ip']] + [f'{k} {v}' for k, v in s.get('terms', [])]) for s in sel['items']) + ' '


@st.composite
def command(draw, neighbors, version, kinds=None, for_everyone=False):
    """one command line of any registered command, in the spelling of `version` (under v4 sometimes the v6 one, which v4 accepts too)"""
    sel = {'kind': 'all'} if for_everyone else draw(selectors(neighbors))
    return build(lambda options: draw(st.sampled_from(options)), neighbors, version, sel, kinds or KIND_POOL)


def build(pick, neighbors: list[dict], version: int, sel: dict, kinds: list[str]) -> dict:
    """the grammar proper: every choice goes through pick(options), so that the same code serves the Hypothesis strategy
    (pick draws) and the enumeration of every form for the fixed tours (pick walks, see tours())"""
    everyone = list(range(len(neighbors)))
    kind = pick(kinds)
    who = selected(sel, neighbors)
    prefix = pick(PREFIXES)
    med = pick([1, 2, 3])
    head = f'peer {selector_text(sel)} ' if version == 6 else v4_head(sel, sel['kind'] == 'list' and pick([False, False, True]))
    # the spelling of the commands without a neighbor selector: v4 understands the v6 words as well
    spell = 6 if version == 6 else pick([4, 4, 4, 6])
    selective = sel['kind'] != 'all'
    matched = 'done' if who else 'error'

    # ------------------------------------------------------------------ the kinds the check always had
    if kind == 'announce':
        return cmd(f'{head}announce route {prefix} next-hop 1.2.3.4 med {med}', matched, who, selective, 'route')
    if kind == 'withdraw':
        # a withdraw needs no next-hop
        return cmd(f'{head}withdraw route {prefix}{pick([" next-hop 1.2.3.4", " next-hop 1.2.3.4", ""])}', matched, who, selective, 'route')
    if kind == 'invalid-route':
        bad = pick(['10.1.0.0/33 next-hop 1.2.3.4', '10.1.0.0/24 next-hop 1.2.3.999', '10.1.0.0/24 next-hop 1.2.3.4 med banana', '10.1.0.0/24 next-hop 1.2.3.4 frobnicate 3', 'withdraw', 'no-next-hop', 'bare'])
        if bad == 'withdraw':
            return cmd(f'{head}withdraw route {pick(["10.66.6.0/33 next-hop 1.2.3.4", "10.66.6.0/24 next-hop 1.2.3.4 med banana"])}', 'error', [], selective, 'route', True)
        if bad == 'no-next-hop':
            # an announce has to say where the route points
            return cmd(f'{head}announce route 10.66.6.0/24 med {med}', 'error', [], selective, 'route', True)
        if bad == 'bare':
            return cmd(f'{head}{pick(["announce", "withdraw"])} route', 'error', [], selective, 'route', True)
        return cmd(f'{head}announce route {bad}', 'error', [], selective, 'route', True)
    if kind == 'invalid-multi':
        # several statements on one line, one of them refused: the whole command is, and nothing of it may stay behind
        good = f'route {pick(GHOST_PREFIXES)} next-hop 1.2.3.4 med {med}'
        bad = 'route ' + pick(['10.66.9.0/24 next-hop not-an-ip', '10.66.9.0/33 next-hop 1.2.3.4', '10.66.9.0/24 next-hop 1.2.3.4 med banana'])
        parts = pick([[good, bad], [bad, good], [good, good.replace('.0/24', '.128/25'), bad]])
        return cmd(f'{head}announce ' + ' ; '.join(parts), 'error', [], selective, 'route-multi', True)
    if kind == 'valid-multi':
        other = pick([x for x in PREFIXES if x != prefix])
        return cmd(f'{head}announce route {prefix} next-hop 1.2.3.4 med {med} ; route {other} next-hop 1.2.3.4 med {med}', matched, who, selective, 'route-multi')
    if kind == 'eor':
        # needs an established session to be accepted: with none up either terminal reply is right
        return cmd(f'{head}announce eor ipv4 unicast', None if who else 'error', who, selective, 'eor', session=True)
    if kind == 'refresh':
        return cmd(f'{head}announce route-refresh ipv4 unicast', None if who else 'error', who, selective, 'route-refresh', session=True)
    if kind == 'watchdog':
        return cmd(f'{head}{pick(["announce", "withdraw"])} watchdog dog{pick([1, 2])}', matched, who, selective, 'watchdog')
    if kind == 'flush':
        return cmd('rib flush out' if version == 6 else 'flush adj-rib out', 'done', everyone, False, 'rib-flush')
    if kind == 'comment':
        return cmd('# ' + pick(['a comment', 'peer * announce route 10.9.9.0/24 next-hop 1.2.3.4', '']), 'done', [], False, 'comment')
    if kind == 'empty':
        return cmd('', 'done', [], False, 'empty')
    if kind == 'unknown':
        return cmd(pick(['frobnicate', 'frobnicate the route 10.1.0.0/24', 'announce', 'peer', 'rib', 'withdraw', 'neighbor', 'system', 'session', 'daemon', 'peer *', 'show', 'group', 'peer [ 10.0.0.1 announce route 10.66.0.0/24 next-hop 1.2.3.4', 'peer 10.0.0.1 peer-as']), 'error', [], False, 'unknown', True)
    if kind == 'unknown-after-selector':
        rest = pick([f'frobnicate route {prefix}', f'frobnicate route {prefix}', 'announce', 'withdraw', ''])
        if not head:
            # no selector (v4, every neighbor): a verb without a type, or a word nobody knows
            return cmd(rest or 'frobnicate', 'error', [], False, 'unknown', True)
        return cmd(f'{head}{rest}'.rstrip(), 'error', [], selective and bool(rest), 'unknown', True)
    if kind == 'other-version':
        if version == 6:
            # the v4 spellings mean nothing to v6: no RIB, no acknowledgement state, nothing may change
            line = pick(
                [
                    f'announce route {prefix} next-hop 1.2.3.4',
                    f'neighbor {neighbors[0]["ip"]} announce route {prefix} next-hop 1.2.3.4',
                    f'withdraw route {prefix} next-hop 1.2.3.4',
                    'clear adj-rib out',
                    'flush adj-rib out',
                    'show neighbor summary',
                    'show adj-rib out',
                    'teardown 4',
                    'version',
                    'disable-ack',
                    'silence-ack',
                    f'create neighbor {DYNAMIC[0]} local-address 127.0.0.1 local-as 65000 peer-as 65009',
                ]
            )
            return cmd(line, 'error', [], False, 'other-version', True)
        return cmd(f'peer * announce route {prefix} next-hop 1.2.3.4', None, everyone, False, 'other-version')
    if kind == 'ack-enable':
        return cmd('session ack enable', 'done', [], False, 'ack', fx='ack-enable')

    # ------------------------------------------------------------------ announce / withdraw of the other families
    verb = pick(['announce', 'announce', 'withdraw'])
    suffix = pick(SUFFIXES)
    if kind == 'family-unicast':
        form = pick(['good', 'good', 'good', 'mask', 'next-hop', 'safi', 'bare'])
        if form == 'good':
            return cmd(f'{head}{verb} ipv4 unicast {prefix} next-hop 1.2.3.4 med {med}{suffix}', matched, who, selective, 'ipv4-unicast')
        bad = {'mask': 'ipv4 unicast 10.66.2.0/33 next-hop 1.2.3.4', 'next-hop': 'ipv4 unicast 10.66.2.0/24 next-hop 1.2.3.999', 'safi': 'ipv4 frobnicate 10.66.2.0/24 next-hop 1.2.3.4', 'bare': 'ipv4'}[form]
        return cmd(f'{head}{verb} {bad}', 'error', [], selective, 'ipv4-unicast', True)
    if kind == 'family-ipv6':
        form = pick(['good', 'good', 'good', 'route', 'mask', 'next-hop', 'afi'])
        if form == 'good':
            return cmd(f'{head}{verb} ipv6 unicast 2001:db8:{pick([1, 2])}::/48 next-hop 2001:db8::1{suffix}', matched, who, selective, 'ipv6-unicast')
        if form == 'route':
            # the plain route form takes the family from the prefix
            return cmd(f'{head}{verb} route 2001:db8:{pick([1, 2])}::/48 next-hop 2001:db8::1{suffix}', matched, who, selective, 'ipv6-unicast')
        bad = {'mask': 'ipv6 unicast 2001:db8:66::/129 next-hop 2001:db8::1', 'next-hop': 'ipv6 unicast 2001:db8:66::/48 next-hop banana', 'afi': 'ipv6 unicast 10.66.2.0/24 next-hop 2001:db8::1'}[form]
        return cmd(f'{head}{verb} {bad}', 'error', [], selective, 'ipv6-unicast', True)
    if kind == 'family-vpn':
        form = pick(['good', 'good', 'rd', 'label'])
        if form == 'good':
            return cmd(f'{head}{verb} ipv4 mpls-vpn 10.3.{pick([0, 1])}.0/24 next-hop 1.2.3.4 rd 65000:1 label [ 100 ]{suffix}', matched, who, selective, 'ipv4-mpls-vpn')
        bad = {'rd': 'ipv4 mpls-vpn 10.66.3.0/24 next-hop 1.2.3.4 rd banana label [ 100 ]', 'label': 'ipv4 mpls-vpn 10.66.3.0/24 next-hop 1.2.3.4 rd 65000:1 label [ banana ]'}[form]
        return cmd(f'{head}{verb} {bad}', 'error', [], selective, 'ipv4-mpls-vpn', True)
    if kind == 'flow':
        form = pick(['good', 'good', 'good', 'ipv4-flow', 'protocol', 'mask', 'action', 'bare'])
        if form == 'good':
            return cmd(f'{head}{verb} ' + pick(FLOW_GOOD).format(p=pick(FLOW_PREFIXES)) + suffix, matched, who, selective, 'flow')
        if form == 'ipv4-flow':
            # the family form of a flow rule: what it accepts is not documented for the API
            return cmd(f'{head}{verb} ipv4 flow destination-ipv4 {pick(FLOW_PREFIXES)} rate-limit 0', None if who else 'error', who, selective, 'flow')
        bad = {
            'protocol': 'flow route { match { source 10.66.5.0/24; protocol banana; } then { discard; } }',
            'mask': 'flow route { match { source 10.66.5.0/33; } then { discard; } }',
            'action': 'flow route { match { source 10.66.5.0/24; } then { frobnicate; } }',
            'bare': 'flow',
        }[form]
        return cmd(f'{head}{verb} {bad}', 'error', [], selective, 'flow', True)
    if kind == 'vpls':
        form = pick(['good', 'good', 'good', 'size', 'endpoint', 'bare'])
        if form == 'good':
            return cmd(f'{head}{verb} ' + VPLS_GOOD.format(n=pick([123, 124])) + suffix, matched, who, selective, 'vpls')
        bad = {
            'size': 'vpls rd 10.66.0.1:123 endpoint 5 base 10702 offset 1 size 70000 next-hop 192.168.201.1',
            'endpoint': 'vpls rd 10.66.0.1:123 endpoint banana base 10702 offset 1 size 8 next-hop 192.168.201.1',
            'bare': 'vpls',
        }[form]
        return cmd(f'{head}{verb} {bad}', 'error', [], selective, 'vpls', True)
    if kind == 'attributes':
        word = pick(['attributes', 'attributes', 'attribute'])
        form = pick(['good', 'good', 'good', 'no-nlri', 'med', 'mask', 'next-hop'])
        if form == 'good':
            nlri = ' '.join(pick([['10.4.0.0/24'], ['10.4.0.0/24', '10.4.1.0/24'], ['10.4.1.0/24', '10.1.0.0/24']]))
            return cmd(f'{head}{verb} {word} next-hop 1.2.3.4 med {med} nlri {nlri}{suffix}', matched, who, selective, 'attributes')
        if form == 'no-nlri':
            return cmd(f'{head}{verb} {word} next-hop 1.2.3.4 med {med}', None if who else 'error', who, selective, 'attributes')
        bad = {'med': 'next-hop 1.2.3.4 med banana nlri 10.66.4.0/24', 'mask': 'next-hop 1.2.3.4 med 5 nlri 10.66.4.0/24 10.66.9.0/33', 'next-hop': 'next-hop 1.2.3.999 nlri 10.66.4.0/24'}[form]
        return cmd(f'{head}{verb} {word} {bad}', 'error', [], selective, 'attributes', True)
    if kind == 'operational':
        form = pick(['good', 'good', 'good', 'unknown-name', 'short', 'withdraw'])
        if form == 'good':
            return cmd(f'{head}announce operational {pick(OPERATIONAL_GOOD)}', matched, who, selective, 'operational')
        if form == 'unknown-name':
            # answered done without doing anything: not an error reply, not a change either
            return cmd(f'{head}announce operational {pick(["frobnicate afi ipv4 safi unicast", ""])}'.rstrip(), None if who else 'error', [], selective, 'operational')
        if form == 'short':
            # through `neighbor <selector>` v4 never looks at the arguments (it answers done and does nothing)
            relaxed = version == 4 and sel['kind'] != 'all'
            return cmd(f'{head}announce operational asm afi ipv4 safi', (None if who else 'error') if relaxed else 'error', [], selective, 'operational', not relaxed)
        return cmd(f'{head}withdraw operational {pick(OPERATIONAL_GOOD)}', 'error', [], selective, 'operational', True)
    if kind == 'eor-families':
        form = pick(['good', 'good', 'good', 'safi', 'one-word', 'three-words', 'withdraw'])
        if form == 'good':
            return cmd(f'{head}announce eor {pick(EOR_FAMILIES)}'.rstrip(), None if who else 'error', who, selective, 'eor', session=True)
        bad = {'safi': 'announce eor ipv4 frobnicate', 'one-word': 'announce eor ipv4', 'three-words': 'announce eor ipv4 unicast please', 'withdraw': 'withdraw eor ipv4 unicast'}[form]
        return cmd(f'{head}{bad}', 'error', [], selective, 'eor', True)
    if kind == 'refresh-families':
        form = pick(['good', 'good', 'good', 'safi', 'one-word', 'bare', 'withdraw'])
        if form == 'good':
            return cmd(f'{head}announce route-refresh {pick(EOR_FAMILIES[1:4])}', None if who else 'error', who, selective, 'route-refresh', session=True)
        bad = {'safi': 'announce route-refresh ipv4 frobnicate', 'one-word': 'announce route-refresh ipv4', 'bare': 'announce route-refresh', 'withdraw': 'withdraw route-refresh ipv4 unicast'}[form]
        return cmd(f'{head}{bad}', 'error', [], selective, 'route-refresh', True)
    if kind == 'selector-empty-list':
        # a list with nobody in it names nobody
        what = pick(['announce route ' + prefix + ' next-hop 1.2.3.4', 'withdraw route ' + prefix, 'teardown 6', 'announce watchdog dog1'])
        # (should the teardown go somewhere all the same, the model of which sessions are up is void from there on)
        return cmd(f'{"peer" if spell == 6 else "neighbor"} [ ] {what}', 'error', [], True, 'selector-empty-list', fx='sessions-unknown' if 'teardown' in what else None)
    if kind == 'announce-unknown-type':
        return cmd(f'{head}{verb} {pick(["frobnicate 10.66.7.0/24 next-hop 1.2.3.4", "l2vpn vpls rd 10.66.0.1:5", "routes", "teardown 6"])}', 'error', [], selective, 'announce-unknown-type', True)
    if kind == 'watchdog-forms':
        # without a name the watchdog is named after the process; a route may be filed under a watchdog
        line = pick([f'{verb} watchdog', f'{verb} watchdog dog3', f'announce route {prefix} next-hop 1.2.3.4 watchdog dog3', f'announce route {prefix} next-hop 1.2.3.4 watchdog dog3 withdraw'])
        return cmd(f'{head}{line}', matched, who, selective, 'watchdog')

    # ------------------------------------------------------------------ RIB commands
    if kind == 'rib-show':
        options = pick(['', '', ' extensive', ' inet', ' flow', ' l2vpn', ' json', f' {neighbors[0]["ip"]}', ' extensive json'])
        form = pick(['good', 'good', 'good', 'good', 'no-direction', 'direction', 'selector'])
        direction = pick(['out', 'out', 'in'])
        if form == 'good':
            if spell == 6:
                return cmd(f'rib show {direction}{options}', 'done', [], False, 'rib-show')
            return cmd(f'show adj-rib {direction}{options}', 'done', [], False, 'rib-show')
        if form == 'selector':
            # the RIB commands take no neighbor selector in front
            return cmd(f'{head}rib show out' if version == 6 and sel['kind'] != 'all' else f'neighbor {neighbors[0]["ip"]} show adj-rib out', 'error', [], False, 'rib-show', True)
        bad = {('no-direction', 6): 'rib show', ('direction', 6): 'rib show sideways', ('no-direction', 4): 'show adj-rib', ('direction', 4): 'show adj-rib sideways'}[(form, spell)]
        return cmd(bad, 'error', [], False, 'rib-show', True)
    if kind == 'rib-flush-clear':
        form = pick(['flush', 'clear-out', 'clear-out', 'clear-in', 'lenient', 'bad', 'bad'])
        if form == 'flush':
            return cmd('rib flush out' if spell == 6 else 'flush adj-rib out', 'done', everyone, False, 'rib-flush')
        if form == 'clear-out':
            return cmd('rib clear out' if spell == 6 else 'clear adj-rib out', 'done', everyone, False, 'rib-clear')
        if form == 'clear-in':
            return cmd('rib clear in' if spell == 6 else 'clear adj-rib in', 'done', everyone, False, 'rib-clear')
        if form == 'lenient':
            # v6 does not look at what follows the verb: accepted or refused, every neighbor may change
            return cmd(pick(['rib flush in', 'rib flush', 'rib clear', 'rib clear sideways', f'rib flush out {neighbors[0]["ip"]}']), None, everyone, False, 'rib-clear')
        if version == 6:
            return cmd(pick(['rib', 'rib frobnicate', 'rib frobnicate out', f'{head}rib clear out' if sel['kind'] != 'all' else 'rib frobnicate']), 'error', [], False, 'rib-clear', True)
        return cmd(pick(['flush', 'clear', 'flush adj-rib in', 'flush adj-rib', 'clear adj-rib', 'clear adj-rib sideways', f'neighbor {neighbors[0]["ip"]} clear adj-rib out', 'rib frobnicate']), 'error', [], False, 'rib-clear', True)
    if kind == 'teardown':
        form = pick(['good', 'good', 'good', 'no-code', 'word'])
        code = {'good': str(pick([2, 4, 6])), 'no-code': '', 'word': 'banana'}[form]
        if form != 'good':
            # a teardown without a usable code is refused whoever it names
            return cmd(f'{head}teardown {code}'.rstrip(), 'error', [], selective, 'teardown', True)
        return cmd(f'{head}teardown {code}', matched, who, selective, 'teardown', fx='teardown')

    # ------------------------------------------------------------------ informational commands: data lines, then the terminal reply
    if kind == 'peer-show':
        option = pick(['', ' summary', ' summary', ' extensive', ' configuration', ' json'])
        form = pick(['all', 'all', 'selector', 'list', 'filter'])
        if form == 'list':
            return cmd('peer list', 'done', [], False, 'peer-list')
        if spell == 4:
            if form == 'filter':
                option += f' {neighbors[0]["ip"]}'
            return cmd(f'show neighbor{option}', 'done', [], False, 'peer-show')
        if form == 'selector':
            return cmd(f'peer {selector_text(sel)} show{option}', matched, [], selective, 'peer-show')
        if form == 'filter':
            return cmd(f'peer show{option} {neighbors[0]["ip"]}', 'done', [], False, 'peer-show')
        return cmd(f'peer show{option}', 'done', [], False, 'peer-show')
    if kind == 'info':
        if spell == 6:
            line, expect = pick(
                [
                    ('system version', 'done'), ('system help', 'done'), ('system queue-status', 'done'), ('daemon status', 'done'), ('system api version', 'done'),
                    (f'system api version {version}', 'done'), ('system api version 7', 'error'), ('system api version banana', 'error'),
                    ('system frobnicate', 'error'), ('system api', 'error'), ('daemon frobnicate', 'error'),
                ]
            )  # fmt: skip
        else:
            line, expect = pick(
                [
                    ('version', 'done'), ('help', 'done'), ('queue-status', 'done'), ('status', 'done'), ('api version', 'done'), ('version json', 'done'), ('help json', 'done'), ('status json', 'done'),
                    (f'api version {version}', 'done'), ('api version 5', 'error'), ('api version banana', 'error'), ('api', 'error'), ('api frobnicate', 'error'),
                ]
            )  # fmt: skip
        return cmd(line, expect, [], False, 'info', expect == 'error')
    if kind == 'session':
        if spell == 6:
            line, expect = pick(
                [
                    ('session ping', 'done'), ('session ping 0f0e0d0c-0b0a 1700000000.5', 'done'), ('session ping text', 'done'), ('session ping 0f0e0d0c-0b0a soon', 'done'), ('session bye', 'done'), ('session bye 0f0e0d0c-0b0a', 'done'),
                    ('session reset', 'done'), ('session sync enable', 'done'), ('session sync disable', 'done'), ('session sync', 'error'), ('session sync sideways', 'error'),
                    ('session ack', 'error'), ('session ack sideways', 'error'), ('session frobnicate', 'error'),
                ]
            )  # fmt: skip
        else:
            line, expect = pick(
                [('ping', 'done'), ('ping 0f0e0d0c-0b0a 1700000000.5', 'done'), ('ping text', 'done'), ('ping json', 'done'), ('bye', 'done'), ('bye 0f0e0d0c-0b0a', 'done'), ('reset', 'done'), ('enable-sync', 'done'), ('disable-sync', 'done')]
            )
        fx = {'session sync enable': 'sync-enable', 'enable-sync': 'sync-enable', 'session sync disable': 'sync-disable', 'disable-sync': 'sync-disable'}.get(line)
        return cmd(line, expect, [], False, 'session', expect == 'error', fx=fx)
    if kind == 'ack':
        what = pick(['enable', 'enable', 'disable', 'silence'])
        return cmd(f'session ack {what}' if spell == 6 else f'{what}-ack', 'done', [], False, 'ack', fx=f'ack-{what}')

    # ------------------------------------------------------------------ groups
    if kind == 'group-inline':
        good = [f'announce route {prefix} next-hop 1.2.3.4 med {med}', f'withdraw route {pick(PREFIXES)} next-hop 1.2.3.4', f'announce ipv4 unicast {pick(PREFIXES)} next-hop 1.2.3.4', 'withdraw ' + VPLS_GOOD.format(n=123), 'announce ' + FLOW_GOOD[2].format(p=FLOW_PREFIXES[0])]
        bad = ['frobnicate', 'announce route 10.66.9.0/33 next-hop 1.2.3.4', 'announce route 10.66.0.0/24 next-hop 1.2.3.999', 'route 10.66.0.0/24 next-hop 1.2.3.4']
        form = pick(['good', 'good', 'good', 'attributes', 'mixed', 'bad', 'empty', 'v4'])
        if form == 'v4' or (version == 4 and pick([0, 1])):
            # a neighbor-prefixed v4 line knows announce, withdraw and teardown only
            return cmd(f'neighbor {neighbors[0]["ip"]} group {pick(good)}', 'error', [], False, 'group-inline', True)
        lead = f'peer {selector_text(sel)} group'
        if form == 'empty':
            return cmd(lead, 'error', [], selective, 'group-inline', True)
        if form == 'good':
            parts = [pick(good) for _ in range(pick([1, 2, 3]))]
            return cmd(f'{lead} ' + ' ; '.join(parts), matched, who, selective, 'group-inline')
        if form == 'attributes':
            # shared attributes first, then the routes they apply to
            return cmd(f'{lead} attributes next-hop 1.2.3.4 med 9 ; {pick(["announce", "withdraw"])} route {prefix} next-hop 1.2.3.4', matched, who, selective, 'group-inline')
        if form == 'bad':
            # every statement is refused (and reported in the data line): whatever the terminal reply says, nothing changes
            return cmd(f'{lead} ' + ' ; '.join([pick(bad) for _ in range(pick([1, 2]))]), None if who else 'error', [], selective, 'group-inline', True)
        parts = pick([[0, 1], [1, 0]])
        parts = [[pick(good), pick(bad)][k] for k in parts]
        return cmd(f'{lead} ' + ' ; '.join(parts), None if who else 'error', who, selective, 'group-inline')
    if kind == 'group-marker':
        # an unbalanced marker (the balanced blocks come from `blocks`): group start / end exist in v6 only
        what = pick(['start', 'end', 'end', 'sideways'])
        if version == 6 and what != 'sideways':
            return cmd(f'group {what}', 'done' if what == 'start' else 'error', [], False, 'group-block', fx=f'group-{what}')
        return cmd(f'group {what}', 'error', [], False, 'group-block', True)

    # ------------------------------------------------------------------ routes by index, neighbors made at run time
    if kind == 'routes':
        lead = f'peer {selector_text(sel)} routes'
        form = pick(['list', 'list-family', 'add', 'add', 'remove', 'remove-index', 'bare', 'verb', 'add-nothing', 'add-mask', 'remove-hex', 'add-short', 'remove-nothing', 'remove-mask', 'add-no-next-hop'])
        if form in ('list', 'list-family'):
            return cmd(f'{lead} {pick(["ipv4 unicast ", "ipv6 ", "ipv4 flow ", "frobnicate unicast ", "ipv4 frobnicate "]) if form == "list-family" else ""}list', matched, [], selective, 'routes')
        if form == 'add':
            return cmd(f'{lead} add route {prefix} next-hop 1.2.3.4 med {med}', matched, who, selective, 'routes')
        if form == 'remove':
            return cmd(f'{lead} remove route {prefix} next-hop 1.2.3.4', matched, who, selective, 'routes')
        if form == 'remove-index':
            # the index `routes add route 10.1.0.0/24 ...` answers with, one nobody was given, one too short to be any
            return cmd(f'{lead} remove index {pick([ROUTE_INDEX, "00", "0101180a0100"])}', matched, who, selective, 'routes')
        if form == 'add-short':
            # the documented `routes add <route-spec>`: whether the spec starts with the word route is not said
            return cmd(f'{lead} add {prefix} next-hop 1.2.3.4', None if who else 'error', who, selective, 'routes')
        if form == 'add-no-next-hop':
            # the route parses, the announce is refused in the data line: which terminal reply goes with that is not said
            return cmd(f'{lead} add route 10.66.8.0/24 med {med}', None if who else 'error', [], selective, 'routes', True)
        bad = {'bare': '', 'verb': ' frobnicate', 'add-nothing': ' add', 'add-mask': ' add route 10.66.8.0/33 next-hop 1.2.3.4', 'remove-hex': ' remove index zz', 'remove-nothing': ' remove', 'remove-mask': ' remove route 10.66.8.0/33 next-hop 1.2.3.4'}[form]
        return cmd(f'{lead}{bad}', 'error', [], selective, 'routes', True)
    if kind == 'peer-create':
        lead = 'peer create' if spell == 6 else 'create neighbor'
        ip = pick(DYNAMIC)
        form = pick(['good', 'good', 'good', 'options', 'options-2', 'no-peer-as', 'nothing', 'address', 'twice', 'word', 'boolean', 'asn-range', 'asn-word', 'family', 'no-value', 'api-nothing', 'delete-word', 'twice-boolean'])
        base = f'{ip} local-address 127.0.0.1 local-as 65000 peer-as 65009'
        if form == 'good':
            with_api = pick(['', f' api {SERVICE}'])
            return cmd(f'{lead} {base}{with_api}', 'done', [], False, 'peer-create', fx='create', key=f'{ip} 127.0.0.1')
        if form == 'options':
            return cmd(
                f'{lead} {ip} local-ip 127.0.0.1 local-as 65000 peer-as 65009 router-id 9.9.9.9 family-allowed ipv4-unicast/ipv6-unicast graceful-restart 120 group-updates false api {SERVICE}', 'done', [], False, 'peer-create', fx='create', key=f'{ip} 9.9.9.9'
            )
        if form == 'options-2':
            return cmd(f'{lead} {base} family-allowed in-open graceful-restart 0 group-updates true create', 'done', [], False, 'peer-create', fx='create', key=f'{ip} 127.0.0.1')
        bad = {
            'asn-range': f'{ip} local-address 127.0.0.1 local-as 65000 peer-as 4294967296',
            'asn-word': f'{ip} local-address 127.0.0.1 local-as banana peer-as 65009',
            'family': f'{base} family-allowed ipv4',
            'no-value': f'{ip} local-address 127.0.0.1 local-as 65000 peer-as',
            'api-nothing': f'{base} api',
            'delete-word': f'{base} delete',
            'twice-boolean': f'{base} group-updates true group-updates false',
            'no-peer-as': f'{ip} local-address 127.0.0.1 local-as 65000',
            'nothing': '',
            'address': 'banana local-address 127.0.0.1 local-as 65000 peer-as 65009',
            'twice': f'{base} peer-as 65010',
            'word': f'{base} frobnicate 3',
            'boolean': f'{base} group-updates maybe',
        }[form]
        return cmd(f'{lead} {bad}'.rstrip(), 'error', [], False, 'peer-create', True)
    if kind == 'peer-delete':
        lead = 'peer delete' if spell == 6 else 'delete neighbor'
        target = pick(DYNAMIC + GHOSTS[:3] + [''])
        # an address made by `peer create` may or may not be there; nobody has the others
        return cmd(f'{lead} {target}'.rstrip(), None if target in DYNAMIC else 'error', [], False, 'peer-delete', target == '')
    if kind == 'daemon':
        what = pick(['reload', 'restart'])
        # the configuration is read again (it did not change): every neighbor may be rebuilt, whenever the reactor gets to it
        return cmd(f'daemon {what}' if spell == 6 else what, 'done', everyone, False, 'daemon', fx='reload')
    # noise: the same announce with white space a helper may well write
    line = f'{head}announce route {prefix} next-hop 1.2.3.4 med {med}'
    line = pick([' ' + line, line + '  ', line.replace(' next-hop', '   next-hop'), line.replace(' med', '\tmed'), '\t' + line + ' \t'])
    return cmd(line, matched, who, selective, 'white-space')


BUFFERED_KINDS = ['announce', 'announce', 'withdraw', 'valid-multi', 'invalid-multi', 'invalid-route', 'family-unicast', 'flow', 'vpls', 'attributes', 'watchdog', 'eor']


@st.composite
def blocks(draw, neighbors, version):
    """a list of lines: one command, or a balanced block - acknowledgements switched off and on again around a few
    commands, `group start` ... `group end` around lines without a selector (which v6 buffers; v4 has no such block
    and executes them at once) and the occasional other command"""
    what = draw(st.sampled_from(['one'] * 22 + ['ack-off', 'group']))
    if what == 'one':
        return [draw(command(neighbors, version))]
    inner = draw(st.lists(command(neighbors, version), min_size=0, max_size=3))
    if what == 'ack-off':
        spell = 6 if version == 6 else draw(st.sampled_from([4, 6]))
        off = draw(st.sampled_from(['disable', 'silence']))
        words = (lambda w: f'session ack {w}') if spell == 6 else (lambda w: f'{w}-ack')
        return [cmd(words(off), 'done', [], False, 'ack', fx=f'ack-{off}')] + inner + [cmd(words('enable'), 'done', [], False, 'ack', fx='ack-enable')]
    # lines as v4 writes them for every neighbor: v6 knows them inside a group block only
    lines = []
    for _ in range(draw(st.integers(0, 4))):
        # without a selector the line is for every neighbor of the process
        c = draw(command(neighbors, 4, BUFFERED_KINDS, for_everyone=True))
        if version == 6:
            # outside a block v6 does not know the spelling; inside one, what counts is whether the line itself parses
            c.update(expect='error', touch=[], refused_in_block=c['refused'], refused=True, fam='group-buffered')
        lines.append(c)
        if draw(st.sampled_from([False] * 5 + [True])):
            lines.append(draw(command(neighbors, version)))
    start = cmd('group start', 'done', [], False, 'group-block', fx='group-start') if version == 6 else cmd('group start', 'error', [], False, 'group-block', True)
    end = cmd('group end', 'error', [], False, 'group-block', fx='group-end') if version == 6 else cmd('group end', 'error', [], False, 'group-block', True)
    return [start] + lines + ([end] if draw(st.sampled_from([True] * 7 + [False])) else [])


@st.composite
def cases(draw):
    n = draw(st.sampled_from([1, 2, 3, 3, 4, 6, 6]))
    neighbors = POOL[:n]
    version = draw(st.sampled_from([6, 6, 6, 4, 4]))
    # the length is drawn (a list strategy left to itself stops early: eight lines on average)
    length = draw(st.sampled_from([1, 2, 3, 4, 5, 6, 8, 10, 12, 14, 16, 20, 24, 30]))
    cmds = [c for block in draw(st.lists(blocks(neighbors, version), min_size=length, max_size=length)) for c in block][:30]
    if draw(st.sampled_from([False] * 11 + [True])):
        # the daemon ends: only ever the last line
        spell = 6 if version == 6 else draw(st.sampled_from([4, 6]))
        cmds = cmds[:29] + [cmd('daemon shutdown' if spell == 6 else 'shutdown', 'done', list(range(n)), False, 'shutdown', fx='shutdown')]
    stream_len = sum(len(c['line']) + 1 for c in cmds)
    mode = draw(st.sampled_from(['whole', 'lines', 'cuts', 'cuts', 'bytewise']))
    cuts = sorted(draw(st.lists(st.integers(1, max(1, stream_len - 1)), max_size=10, unique=True))) if mode == 'cuts' else []
    # which neighbors have their BGP session up when the first line is written (eor, route-refresh, operational, teardown
    # and the sync suffix only do something on an established session)
    up = draw(st.sampled_from(['none', 'none', 'none', 'all', 'all', 'first', 'some']))
    up = {'none': [], 'all': list(range(n)), 'first': [0]}.get(up)
    if up is None:
        up = sorted(draw(st.sets(st.integers(0, n - 1), min_size=1, max_size=n)))
    return {'n': n, 'version': version, 'commands': cmds, 'mode': mode, 'cuts': cuts, 'up': up}


# ---------------------------------------------------------------------------- every form once: the fixed tours


class Walk:
    """pick() for the enumeration: follows a list of option indexes, then takes the first option; remembers the choice
    points it met (the source line of the call identifies one)"""

    def __init__(self, path: list[int]) -> None:
        self.path = path
        self.taken: list[int] = []
        self.points: list[tuple[int, int]] = []

    def __call__(self, options):
        i = len(self.taken)
        k = self.path[i] if i < len(self.path) else 0
        self.taken.append(k)
        self.points.append((sys._getframe(1).f_lineno, len(options)))
        return options[k]


def every_form(make) -> list[dict]:
    """make(pick) for every option of every choice point the grammar reaches (each option at least once, the later
    choices at their first option): an enumeration, nothing is drawn"""
    covered: set[tuple[int, int]] = set()
    out, todo = [], [[]]
    while todo:
        walk = Walk(todo.pop(0))
        out.append(make(walk))
        for i, (site, arity) in enumerate(walk.points):
            if i < len(walk.path):
                continue
            for k in range(1, arity):
                if (site, k) not in covered:
                    covered.add((site, k))
                    todo.append(walk.taken[:i] + [k])
    return out


def tours() -> list[dict]:
    """enumerated cases run in every tier: every form of every command, under both API versions, three neighbors, the
    selector naming the first of them (so that every command family meets the selector clause), then the other shapes
    of selector; a block of buffered lines; the acknowledgements switched off around a few commands; a shutdown"""
    n = 3
    neighbors = POOL[:n]
    first = {'ip': neighbors[0]['ip'], 'terms': []}
    shapes = [
        {'kind': 'single', 'items': [first]},
        {'kind': 'all'},
        {'kind': 'single', 'items': [{'ip': GHOSTS[0], 'terms': []}]},
        {'kind': 'list', 'items': [first, {'ip': neighbors[2]['ip'], 'terms': [['peer-as', neighbors[2]['peer_as']]]}]},
        {'kind': 'single', 'items': [{'ip': neighbors[0]['ip'], 'terms': [['peer-as', 64000]]}]},
        {'kind': 'single', 'items': [{'ip': neighbors[1]['ip'], 'terms': [['local-as', neighbors[1]['local_as']], ['family-allowed', 'in-open']]}]},
    ]
    kinds = [k for _, k in KINDS]
    out = []
    for version in (6, 4):
        plain, last = [], []
        for c in every_form(lambda pick: build(pick, neighbors, version, shapes[0], kinds)):  # noqa: B023
            (last if c.get('fx') == 'reload' else plain).append(c)
        # the other selector shapes on the kinds that take a selector in both spellings
        for shape in shapes[1:]:
            for kind in ('announce', 'invalid-route', 'flow', 'vpls', 'attributes', 'operational', 'teardown', 'watchdog', 'eor-families', 'group-inline', 'routes', 'peer-show'):
                plain.append(build(Walk([]), neighbors, version, shape, [kind]))
        enable = cmd('session ack enable', 'done', [], False, 'ack', fx='ack-enable')
        sequences: list[list[dict]] = [[]]
        for c in plain:
            if len(sequences[-1]) >= 24:
                sequences.append([])
            sequences[-1].append(c)
            if c.get('fx') in ('ack-disable', 'ack-silence'):
                # three commands without a terminal reply (a refused one among them), then the acknowledgements are back
                sequences[-1] += [build(Walk([]), neighbors, version, shapes[0], [k]) for k in ('announce', 'invalid-route', 'info')] + [enable]
            if c.get('fx') == 'group-start':
                sequences[-1].append(cmd('group end', 'error', [], False, 'group-block', fx='group-end'))
        for c in last:
            # the configuration is read again: from there on every neighbor may change
            min(sequences, key=len).append(c)
        if version == 6:
            buffered = []
            for c in every_form(lambda pick: build(pick, neighbors, 4, {'kind': 'all'}, BUFFERED_KINDS)):
                buffered.append(dict(c, expect='error', touch=[], refused_in_block=c['refused'], refused=True, fam='group-buffered'))
            while buffered:
                part, buffered = buffered[:20], buffered[20:]
                sequences.append([cmd('group start', 'done', [], False, 'group-block', fx='group-start')] + part + [cmd('group end', 'error', [], False, 'group-block', fx='group-end'), build(Walk([]), neighbors, 6, shapes[0], ['rib-show'])])
        sequences[-1] = sequences[-1][:29] + [cmd('daemon shutdown' if version == 6 else 'shutdown', 'done', list(range(n)), False, 'shutdown', fx='shutdown')]
        # the neighbor without most families, alone: nothing of these families is in its RIB, nothing gets there
        lone = {'kind': 'single', 'items': [{'ip': neighbors[2]['ip'], 'terms': []}]}
        head = f'peer {neighbors[2]["ip"]} ' if version == 6 else f'neighbor {neighbors[2]["ip"]} '
        specs = [('ipv6-unicast', 'ipv6 unicast 2001:db8:1::/48 next-hop 2001:db8::1'), ('ipv6-unicast', 'route 2001:db8:2::/48 next-hop 2001:db8::1'), ('ipv4-mpls-vpn', 'ipv4 mpls-vpn 10.3.0.0/24 next-hop 1.2.3.4 rd 65000:1 label [ 100 ]')]
        specs += [('vpls', VPLS_GOOD.format(n=123)), ('attributes', 'attributes next-hop 2001:db8::1 nlri 2001:db8:1::/48')]
        sequences.append([cmd(f'{head}{verb} {spec}', 'done', [2], True, fam) for fam, spec in specs for verb in ('announce', 'withdraw')] + [build(Walk([]), neighbors, version, lone, [k]) for k in ('flow', 'operational', 'routes')])
        for k, cmds in enumerate(sequences):
            mode = ['lines', 'whole', 'cuts', 'bytewise'][k % 4] if k else 'bytewise'
            size = sum(len(c['line']) + 1 for c in cmds)
            out.append({'n': n, 'version': version, 'commands': cmds, 'mode': mode, 'cuts': list(range(7, size, 53)) if mode == 'cuts' else [], 'up': []})
        # every session up: the commands which need one, every form; then commands which wait for the wire, each with
        # something new to send (sync as a word of the line, then as the mode of the process)
        with_session = [c for kind in ('eor', 'refresh', 'eor-families', 'refresh-families', 'operational', 'watchdog', 'teardown') for c in every_form(lambda pick: build(pick, neighbors, version, shapes[0], [kind]))]  # noqa: B023
        with_session += [build(Walk([]), neighbors, version, shape, [kind]) for shape in shapes[1:] for kind in ('eor', 'refresh-families', 'teardown')]
        spell = (lambda six, four: six) if version == 6 else (lambda six, four: four)
        everybody = 'peer * ' if version == 6 else ''
        waiting = [
            cmd(f'{everybody}announce route 10.8.0.0/24 next-hop 1.2.3.4 sync', 'done', range(n), False, 'route'),
            cmd(f'{everybody}withdraw route 10.8.0.0/24 next-hop 1.2.3.4 json sync', 'done', range(n), False, 'route'),
            cmd(spell('session sync enable', 'enable-sync'), 'done', [], False, 'session', fx='sync-enable'),
            cmd(f'{everybody}announce route 10.8.1.0/24 next-hop 1.2.3.4 med 7', 'done', range(n), False, 'route'),
            cmd(f'{everybody}announce route 10.8.2.0/24 next-hop 1.2.3.4 async', 'done', range(n), False, 'route'),
            cmd(f'peer {neighbors[0]["ip"]} group announce route 10.8.3.0/24 next-hop 1.2.3.4 ; announce route 10.8.4.0/24 next-hop 1.2.3.4', 'done', [0], True, 'group-inline'),
            cmd(spell('session sync disable', 'disable-sync'), 'done', [], False, 'session', fx='sync-disable'),
            cmd(spell('rib show out', 'show adj-rib out'), 'done', [], False, 'rib-show'),
        ]
        for k in range(0, len(with_session), 26):
            out.append({'n': n, 'version': version, 'commands': with_session[k : k + 26], 'mode': 'lines', 'cuts': [], 'up': list(range(n))})
        out.append({'n': n, 'version': version, 'commands': waiting, 'mode': 'whole', 'cuts': [], 'up': list(range(n))})
    return out


def annotate(cmds: list[dict], version: int, n: int, up: list[int] | None = None) -> list[dict]:
    """what each line is expected to get, given the acknowledgement and grouping state the lines before it left
    (adds 'replies': terminal replies expected, 0 or 1).  Lines of stored cases carry no 'fx' and pass unchanged."""
    everyone = list(range(n))
    ack, grouping, buffered = True, False, 0
    # the sessions which were up at the start stay up until a line may bring one down
    sessions = set(up or [])
    sync_mode, block_sync = False, False
    created: set[str] = set()
    out = []
    for c in cmds:
        c = dict(c)
        c.setdefault('fam', 'route')
        c.setdefault('refused', c['expect'] == 'error')
        fx = c.get('fx')
        low = c['line'].strip().lower()
        replies = 1 if ack else 0
        # does the command wait for the wire (a trailing sync / async word decides, else the mode of the process)?
        tail = [w for w in c['line'].split()[-2:] if w in ('sync', 'async')]
        c['sync'] = (tail[-1] == 'sync') if tail else sync_mode
        if grouping and low.startswith(('announce', 'withdraw')):
            # buffered until `group end`: acknowledged, nothing happens yet (the first line says whether the block waits)
            c.update(expect='done', touch=[], buffered=True, refused=c.get('refused_in_block', c['refused']))
            buffered += 1
            if buffered == 1:
                block_sync = c['sync']
            c['sync'] = False
        elif fx == 'group-start':
            c['expect'] = 'error' if grouping else 'done'
            c['refused'] = grouping
            if not grouping:
                grouping, buffered = True, 0
        elif fx == 'group-end':
            c['expect'] = 'done' if grouping else 'error'
            c['refused'] = not grouping
            c['touch'] = everyone if grouping and buffered else []
            c['sync'] = bool(grouping and buffered and block_sync)
            grouping = False
        elif fx == 'ack-enable':
            ack, replies = True, 1
        elif fx == 'ack-disable':
            ack, replies = False, 1
        elif fx == 'ack-silence':
            ack, replies = False, 0
        elif fx == 'create':
            if c['key'] in created:
                c['expect'] = None
            created.add(c['key'])
        elif fx == 'teardown' and c['touch']:
            sessions -= set(c['touch'])
        elif fx in ('reload', 'shutdown', 'sessions-unknown'):
            sessions = set()
        elif c.get('session') and c['expect'] is None and sessions & set(c['touch']):
            # one of the neighbors it names is established: the command has somebody to go to
            c['expect'] = 'done'
        if fx in ('sync-enable', 'sync-disable'):
            sync_mode = fx == 'sync-enable'
        c['replies'] = replies
        out.append(c)
    return out


def config(n: int) -> str:
    text = nh.process_section()
    for nb in POOL[:n]:
        text += exa.neighbor_text(
            peer_ip=nb['ip'],
            local_ip=nb.get('local_ip', '127.0.0.1'),
            local_as=nb['local_as'],
            peer_as=nb['peer_as'],
            router_id=nb['rid'],
            families=nb.get('families', FAMILIES),
            capability={'route-refresh': 'enable', 'operational': 'enable'},
            body=nh.api_section(changes=False) + '\n  static {\n    route 10.7.0.0/24 next-hop 1.2.3.4 watchdog dog1;\n    route 10.7.1.0/24 next-hop 1.2.3.4 watchdog dog2 withdraw;\n  }',
        )
    return text


def fingerprint(peer) -> tuple:
    n = peer.neighbor
    out = n.rib.outgoing
    return (
        tuple(sorted(str(r) + '|' + str(r.nexthop) for r in out.cached_routes())),
        tuple(sorted(str(r) for r in out.queued_routes())),
        tuple(sorted((str(f), tuple(sorted(map(repr, d)))) for f, d in out._pending_withdraws.items() if d)),
        tuple(sorted((name, tuple(sorted((sign, tuple(sorted(map(repr, routes)))) for sign, routes in groups.items()))) for name, groups in out._watchdog.items())),
        tuple(str(x) for x in n.eor),
        tuple(str(x) for x in n.refresh),
        tuple(x.extensive() for x in n.messages),
        tuple(sorted(str(f) for f in out._refresh_families)),
        len(out._refresh_routes),
        tuple(sorted((str(f), m.extensive()) for f, m in n.asm.items())),
        sum(1 for _ in n.rib.incoming.cached_routes()),
    )


def terminal(line: str) -> str | None:
    text = line.strip()
    if text in ('done', 'error'):
        return text
    if text.startswith('{'):
        try:
            doc = json.loads(text)
        except ValueError:
            return None
        if isinstance(doc, dict) and set(doc) <= {'answer', 'message'} and doc.get('answer') in ('done', 'error'):
            return doc['answer']
    return None


def check(case: dict) -> dict:
    from exabgp.reactor.api.command import group as group_cmd

    version = case['version']
    up = [i for i in case.get('up', []) if i < case['n']]
    cmds = annotate(case['commands'], version, case['n'], up)
    # a shutdown (only ever the last line) is written once everything before it was answered: what the daemon still
    # holds for the helper when it ends is not the property's business
    farewell = cmds[-1]['line'].encode() + b'\n' if cmds and cmds[-1].get('fx') == 'shutdown' else b''
    stream = ''.join(c['line'] + '\n' for c in (cmds[:-1] if farewell else cmds)).encode()
    mode = case['mode']
    if mode == 'whole':
        cuts: list[int] = []
    elif mode == 'lines':
        cuts = [i + 1 for i, b in enumerate(stream) if b == 10][:-1]
    elif mode == 'bytewise':
        cuts = list(range(1, min(len(stream), 400)))
    else:
        cuts = [c for c in case['cuts'] if 0 < c < len(stream)]
    chunks, prev = [], 0
    for c in cuts + [len(stream)]:
        if c > prev:
            chunks.append(stream[prev:c])
        prev = c
    out: dict = {'steps': []}
    classes: list[str] = []

    def flag(signature: str, message: str) -> None:
        if any(fnmatch.fnmatchcase(signature, p) for p in TOLERATED):
            if f'tolerated:{signature}' not in classes:
                classes.append(f'tolerated:{signature}')
            return
        raise Violation(signature, message)

    async def main(loop):
        with nh.Harness(loop, config_text=config(case['n']), env={'api.version': version}) as hn:
            if not hn.reload_ok:
                raise RuntimeError(f'configuration refused: {hn.reactor.configuration.error}')
            seen: list[str] = []
            written: list[tuple[int, str]] = []
            real = hn.reactor.api.process
            # the neighbors of the configuration, by address (a neighbor made by `peer create` is not one of them)
            base = {str(p.neighbor.session.peer_address): key for key, p in hn.reactor._peers.items()}
            # the remote speakers of the neighbors whose session is up: they answer the OPEN, send keepalives, and count
            # what they are sent
            speakers = {base[POOL[i]['ip']]: POOL[i] for i in up}
            hn.connect_policy = lambda harness, proto: harness._peer_key(proto.peer) in speakers
            serving: list = []

            async def serve(remote) -> None:
                nb = speakers[remote.key]
                caps = [wire.cap_mp(*FAMILY_CODES[f]) for f in nb.get('families', FAMILIES)] + [wire.cap_asn4(nb['peer_as']), wire.cap_refresh(), wire.capability(0xB9, b'')]
                if not await nh.establish(remote, nh.open_from(nb['peer_as'], 180, 0x09090900 + POOL.index(nb), caps), timeout=20.0):
                    return
                while remote.closed_at is None and remote.local_closed_at is None:
                    await asyncio.sleep(20.0)
                    await remote.send_msg(codec.KEEPALIVE)

            hn.on_outgoing = lambda remote: serving.append(loop.create_task(serve(remote)))

            def sent_to(key: str) -> tuple:
                # what the neighbor's remote speaker was sent, keepalives and OPENs aside, over all its sessions
                kinds: dict[int, int] = {}
                for r in hn.remotes:
                    if r.key == key:
                        for _, mtype, _ in r.messages:
                            if mtype not in (codec.OPEN, codec.KEEPALIVE):
                                kinds[mtype] = kinds.get(mtype, 0) + 1
                return tuple(sorted(kinds.items())) + (sum(1 for r in hn.remotes if r.key == key),)

            def snapshot() -> dict:
                peers = hn.reactor._peers
                return {ip: fingerprint(peers[key]) + sent_to(key) if key in peers else None for ip, key in base.items()}

            def spy(reactor, service, cmd):
                seen.append(cmd)
                out['steps'].append({'command': cmd, 'before': snapshot()})
                return real(reactor, service, cmd)

            processes = hn.reactor.processes
            real_write = processes.write

            def write(process, string, *args):
                # recorder: which command was the last one handed over when this line was queued for the helper
                if string is not None:
                    written.append((len(seen) - 1, string))
                return real_write(process, string, *args)

            hn.reactor.api.process = spy
            processes.write = write
            hn.start()
            await hn.sleep(0.3)
            if speakers:
                waited = 0.0
                while any(hn.reactor._peers[key].fsm.name() != 'ESTABLISHED' for key in speakers) and waited < 40.0:
                    await hn.sleep(0.5)
                    waited += 0.5
                if waited >= 40.0:
                    raise Inconclusive(f'sessions not established after 40 s: {[hn.reactor._peers[key].fsm.name() for key in speakers]}')
                # the configured routes and the End-of-RIB markers go out
                await hn.sleep(3.0)
            # feed one line at a time *logically*: the fingerprints are taken when each command is executed, and once more
            # after everything has settled; chunking is whatever the case says
            # the helper reads what it is sent all along (the pipe holds 64 kB: a dozen `peer show` replies)
            for ch in chunks:
                hn.api_write(ch)
                await hn.sleep(0.01)
                hn.api_read()
            await hn.sleep(1.0)
            hn.api_read()

            # the reactor reads one command per process and loop iteration, an idle iteration may sleep 0.1 s, and it hands
            # ten lines per iteration to the helper (the data lines of `show neighbor extensive` take seconds): wait until
            # every command was read and everything queued for the helper went out (a fixed 2 s was a harness error: a
            # 29th command was "not executed")
            def busy(count: int) -> bool:
                return len(seen) < count or any(processes._write_queue.values()) or bool(hn.reactor.asynchronous._async) or bool(processes._command_queue)

            for count, more in ((len(cmds) - 1, farewell), (len(cmds), b'')) if farewell else ((len(cmds), b''),):
                waited = 0.0
                while busy(count) and not hn.main_task.done() and waited < 10.0 + 4.0 * len(cmds):
                    await hn.sleep(0.2)
                    hn.api_read()
                    waited += 0.2
                if more:
                    hn.api_write(more)
            # settle: the handlers of some commands run as scheduled callbacks
            for _ in range(5):
                await hn.sleep(0.2)
            hn.api_read()
            out['seen'] = seen
            out['final'] = snapshot()
            out['replies'] = [line for _, line in hn.api_lines]
            out['written'] = written
            for task in serving:
                task.cancel()

    group_cmd.clear_group(SERVICE)
    try:
        # `peer create` prints the traceback of every refused line on stderr
        with contextlib.redirect_stderr(io.StringIO()):
            vloop.run(main)
    finally:
        group_cmd.clear_group(SERVICE)

    if os.environ.get('VERIF_C14_DEBUG'):
        # development aid: what the helper read, and the last fingerprint of every neighbor
        print('\n'.join(f'    {line[:200]}' for line in out['replies']), file=sys.stderr)
        print('\n'.join(f'  {ip}: {snap}' for ip, snap in out['final'].items()), file=sys.stderr)
    pool = [nb['ip'] for nb in POOL[: case['n']]]
    expected_lines = [' '.join(c['line'].split()) for c in cmds]
    got_lines = [' '.join(s.split()) for s in out['seen']]
    if got_lines and len(got_lines) < len(expected_lines) and got_lines == expected_lines[: len(got_lines)]:
        # nothing was garbled: the reactor stopped reading commands after one of them
        last = cmds[len(got_lines) - 1]
        how = 'a-command-which-waits-for-the-wire' if last['sync'] and any(w in last['line'] for w in ('announce', 'withdraw', 'group')) else last['fam']
        flag(f'order:api-stalls-after:{how}', f'command {len(got_lines) - 1} "{last["line"]}" is the last one executed, {len(expected_lines) - len(got_lines)} more were written and never read; sessions up {[POOL[i]["ip"] for i in up]}; neighbors {[nb["ip"] for nb in POOL[: case["n"]]]} api v{version}; mode {mode}')
        # tolerated: nothing after it can be judged
        return {'nontrivial': False, 'classes': classes + ['stalled']}
    if got_lines != expected_lines:
        k = next((i for i, (a, b) in enumerate(zip(got_lines, expected_lines)) if a != b), min(len(got_lines), len(expected_lines)))
        raise Violation('order:commands-differ', f'command {k}: executed {got_lines[k:k + 2]} written {expected_lines[k:k + 2]} (executed {len(got_lines)} of {len(expected_lines)}); mode {mode}')

    # acknowledgements: the verdict is on what the helper reads from the pipe; the write recorder only names the command
    terms = [t for t in (terminal(line) for line in out['replies']) if t]
    by_command: dict[int, list[str]] = {}
    for index, string in out['written']:
        t = terminal(string)
        if t:
            by_command.setdefault(index, []).append(t)
    expected: list[tuple[int, str | None]] = []
    for i, c in enumerate(cmds):
        wrote = by_command.get(i, [])
        if len(wrote) != c['replies']:
            kind = 'no-terminal-reply' if len(wrote) < c['replies'] else 'terminal-reply-with-acknowledgements-off' if not c['replies'] else 'several-terminal-replies'
            if kind == 'no-terminal-reply' and c['sync'] and i == len(cmds) - 1 and any(w in c['line'] for w in ('announce', 'withdraw', 'group')):
                # the last line, waiting for the wire for ever: the stall above, with no later line to show it
                flag('order:api-stalls-after:a-command-which-waits-for-the-wire', f'command {i} "{c["line"]}" (the last one) is never answered; sessions up {[POOL[j]["ip"] for j in up]}; neighbors {pool} api v{version}')
                continue
            flag(f'ack:{kind}:{c["fam"]}', f'command {i} "{c["line"]}" wrote the terminal replies {wrote}, {c["replies"]} expected; neighbors {pool} (api v{version}); commands so far {[x["line"] for x in cmds[max(0, i - 3) : i + 1]]}')
            # tolerated: take what was written for this command as it is
            expected += [(i, t) for t in wrote]
        elif c['replies']:
            expected.append((i, c['expect']))
    if len(terms) != len(expected):
        raise Violation('ack:count', f'{len(terms)} terminal replies on the pipe for {len(expected)} expected: {terms} for {expected_lines}')
    for (i, want), t in zip(expected, terms):
        c = cmds[i]
        if want is not None and t != want:
            fam = '' if c['fam'] in LEGACY_FAMILIES else f':{c["fam"]}'
            flag(f'ack:{want}-expected-got-{t}{fam}', f'command {i} "{c["line"]}" with neighbors {pool} (api v{version}); commands so far {[x["line"] for x in cmds[max(0, i - 3) : i + 1]]}')
            if t == 'done':
                # tolerated: the command was carried out, on whoever (its effect is reported under its own signature below)
                c['carried_out'] = True

    # side effects: fingerprint before command i vs before command i+1 (or final)
    snaps = [s['before'] for s in out['steps']] + [out['final']]
    # handlers are scheduled: a command's effect may land after the next command was read. Compare cumulatively:
    # a neighbor that no command up to i was allowed to touch must be unchanged at i+1.
    allowed: set[str] = set()
    for i, c in enumerate(cmds):
        allowed |= {POOL[j]['ip'] for j in c['touch']}
        after = snaps[i + 1]
        for ip in pool:
            if ip not in allowed and after[ip] != snaps[0][ip]:
                kind = 'rejected-command-changed-rib' if c['refused'] else 'unselected-neighbor-changed'
                fam = '' if c['fam'] in LEGACY_FAMILIES else f':{c["fam"]}'
                flag(f'effect:{kind}{fam}', f'neighbor {ip} {"is gone" if after[ip] is None else "changed"} by "{c["line"]}" (command {i}); neighbors {pool} api v{version}')
                allowed.add(ip)
        if c.get('carried_out') or (c['expect'] == 'error' and not c['replies'] and any(p.endswith(f':{c["fam"]}') for p in TOLERATED)):
            # a tolerated defect (with the acknowledgements off the reply cannot tell: assumed): what it did may land any
            # time from here on
            allowed |= set(pool)
    # nothing named only by refused commands is ever in a RIB, on any neighbor, at any step (the neighbor-level comparison above
    # cannot see a leftover that a later accepted command carries along to the neighbors it is allowed to change)
    for i, snap in enumerate(snaps):
        text = repr(snap)
        if any(mark in text for mark in GHOST_MARKS):
            j = max(0, i - 1)
            flag('effect:route-of-a-refused-command-in-a-rib', f'after command {j} "{cmds[j]["line"]}": {[g for g in GHOST_PREFIXES + ["10.66.9.0"] + GHOST_MARKS if g.split("/")[0] in text]} present; commands so far {[c["line"] for c in cmds[: j + 1]][-4:]}')
            break
    rejected = any(c['refused'] for c in cmds)
    selective = any(c['selective'] for c in cmds) and case['n'] >= 2
    inside = False
    pos = 0
    for ch in chunks[:-1]:
        pos += len(ch)
        if stream[pos - 1] != 10:
            inside = True
    classes += [f'api-v{version}', f'mode:{mode}', f'neighbors:{case["n"]}', 'sessions:' + ('none' if not up else 'all' if len(up) == case['n'] else 'some')]
    if any(c.get('session') and c['expect'] == 'done' for c in cmds):
        classes.append('sessions:eor-or-refresh-for-an-established-neighbor')
    if rejected:
        classes.append('rejected-command')
    if selective:
        classes.append('selective')
    if any(' ; ' in c['line'] for c in cmds):
        classes.append('multi-statement-command')
    if any(' ; ' in c['line'] and c['refused'] for c in cmds):
        classes.append('multi-statement-command-refused')
    if any(c['expect'] == 'error' and c['selective'] and not c['refused'] for c in cmds):
        classes.append('selector-matches-nobody')
    for fam in sorted({c['fam'] for c in cmds}):
        classes.append(f'command:{fam}')
    for fam in sorted({c['fam'] for c in cmds if c['refused']}):
        classes.append(f'command:{fam}:refused')
    if any(not c['replies'] for c in cmds):
        classes.append('acknowledgements-off:some-commands')
    if any(c.get('buffered') for c in cmds):
        classes.append('group-block:lines-buffered')
    if any(c.get('buffered') and c['refused'] for c in cmds):
        classes.append('group-block:refused-line-buffered')
    if any(c.get('fx') == 'group-end' and c['expect'] == 'done' and c['touch'] for c in cmds):
        classes.append('group-block:ended-with-lines')
    if any(t is None for _, t in expected):
        classes.append('either-reply-accepted')
    return {'nontrivial': rejected and selective and inside, 'classes': classes}


ENGINES = [Engine('sequences', cases, check, quick=300, thorough=8000, batch=200, quick_s=30.0, thorough_s=1200.0, fixed_cases=tours)]
