"""C14 - API commands: same order, one acknowledgement each, no side effects on error"""

from __future__ import annotations

import json

from hypothesis import strategies as st

from vlib import exa, vloop
from vlib import netharness as nh
from vlib.runner import Engine, Violation

PROPERTY = 'C14'
RULE = (
    'real Reactor + real Processes (pipe-backed helper process) with 1-4 neighbors (addresses sharing a textual prefix such as 10.0.0.1 / 10.0.0.10, different peer-as / router-id); '
    'command sequence (1-30 lines) from a grammar: announce / withdraw route (valid and invalid), several `;`-separated statements on one line (all valid, or one refused, whose prefixes must never reach a RIB), eor, route-refresh, watchdog, rib flush, session ack enable, comments, empty lines, unknown verbs, '
    'v4 spellings under API v6 and the reverse; selectors: *, one address, address + key/value terms that match or not, bracket lists, selectors matching no neighbor; '
    'the byte stream is written to the pipe in chunks cut at drawn points (1-byte chunks, cuts inside a line and across the newline); API version 6 and 4. '
    'Non-trivial = >= 1 rejected command, >= 1 selective command with >= 2 neighbors, and >= 1 cut inside a line'
)
ASSUMPTIONS = [
    'an independent 12-line matcher over the configured neighbor attributes decides which neighbors a selector names',
    'a terminal reply is a line that is exactly `done` or `error` (or the JSON done/error object); the free-text `error: ...` line that precedes `error` is not counted',
    'the RIB fingerprint is: cached Adj-RIB-Out routes, queued announces, pending withdraws, watchdog sets, eor / refresh / operational queues of every neighbor',
    'commands that match change *at most* the matching neighbors; that they do change them is decided by C04/C01',
    'no BGP session is up: commands act on the RIBs only',
]

POOL = [
    {'ip': '10.0.0.1', 'peer_as': 65001, 'rid': '1.1.1.1', 'local_as': 65000},
    {'ip': '10.0.0.10', 'peer_as': 65002, 'rid': '1.1.1.2', 'local_as': 65000},
    {'ip': '10.0.0.2', 'peer_as': 65001, 'rid': '1.1.1.3', 'local_as': 64999},
    {'ip': '192.0.2.7', 'peer_as': 65003, 'rid': '1.1.1.4', 'local_as': 65000},
    # IPv6 neighbors, one address a textual prefix of the other up to a colon (appended: stored cases name neighbors by position)
    {'ip': '2001:db8::1', 'peer_as': 65001, 'rid': '1.1.1.5', 'local_as': 65000, 'local_ip': '2001:db8::ffff'},
    {'ip': '2001:db8::1:5', 'peer_as': 65001, 'rid': '1.1.1.6', 'local_as': 65000, 'local_ip': '2001:db8::ffff'},
]
GHOSTS = ['10.0.0.100', '10.0.0.3', '192.0.2.70', '2001:db8::1:50', '2001:db8::']
PREFIXES = ['10.1.0.0/24', '10.1.1.0/24', '10.2.0.0/16']
GHOST_PREFIXES = ['10.66.0.0/24', '10.66.1.0/24']  # only ever named by commands that are refused: must never reach a RIB


def matches(sel: dict, n: dict) -> bool:
    """independent selector semantics: every term must equal the neighbor's configured value"""
    if sel['ip'] == '*':
        return True
    if sel['ip'] != n['ip']:
        return False
    for key, value in sel.get('terms', []):
        have = {'peer-as': str(n['peer_as']), 'local-as': str(n['local_as']), 'router-id': n['rid'], 'local-ip': n.get('local_ip', '127.0.0.1')}[key]
        if str(value) != have:
            return False
    return True


def selected(selector: dict, neighbors: list[dict]) -> list[int]:
    if selector['kind'] == 'all':
        return list(range(len(neighbors)))
    return [i for i, n in enumerate(neighbors) if any(matches(s, n) for s in selector['items'])]


def selector_text(selector: dict) -> str:
    def one(s):
        return ' '.join([s['ip']] + [f'{k} {v}' for k, v in s.get('terms', [])])

    if selector['kind'] == 'all':
        return '*'
    if selector['kind'] == 'single':
        return one(selector['items'][0])
    return '[ ' + ' , '.join(one(s) for s in selector['items']) + ' ]'


@st.composite
def selector_item(draw, neighbors):
    if draw(st.integers(0, 4)) == 0:
        ip = draw(st.sampled_from(GHOSTS))
        base = draw(st.sampled_from(neighbors))
    else:
        # the first neighbor's address is a textual prefix of the second one's: name it often
        base = neighbors[0] if draw(st.booleans()) else draw(st.sampled_from(neighbors))
        ip = base['ip']
    terms = []
    for key, good in (('peer-as', base['peer_as']), ('local-as', base['local_as']), ('router-id', base['rid']), ('local-ip', base.get('local_ip', '127.0.0.1'))):
        if draw(st.integers(0, 3)) == 0:
            if draw(st.integers(0, 2)) == 0:
                bad = {'peer-as': 64000, 'local-as': 64001, 'router-id': '9.9.9.9', 'local-ip': '127.0.0.9'}[key]
                terms.append([key, bad])
            else:
                terms.append([key, good])
    return {'ip': ip, 'terms': terms}


@st.composite
def selectors(draw, neighbors):
    kind = draw(st.sampled_from(['all', 'single', 'single', 'single', 'list']))
    if kind == 'all':
        return {'kind': 'all'}
    if kind == 'single':
        return {'kind': 'single', 'items': [draw(selector_item(neighbors))]}
    return {'kind': 'list', 'items': draw(st.lists(selector_item(neighbors), min_size=1, max_size=3))}


@st.composite
def command(draw, neighbors, version):
    """{'line': text, 'expect': 'done'|'error', 'touch': [neighbor indexes] (may change), 'selective': bool}"""
    everyone = list(range(len(neighbors)))
    kind = draw(
        st.sampled_from(['announce', 'announce', 'announce', 'withdraw', 'invalid-route', 'invalid-multi', 'valid-multi', 'eor', 'refresh', 'watchdog', 'flush', 'comment', 'empty', 'unknown', 'unknown-after-selector', 'other-version', 'ack-enable'])
    )
    sel = draw(selectors(neighbors))
    who = selected(sel, neighbors)
    prefix = draw(st.sampled_from(PREFIXES))
    med = draw(st.integers(1, 3))
    if version == 6:
        head = f'peer {selector_text(sel)} '
    else:
        if sel['kind'] == 'all':
            head = ''
        elif sel['kind'] == 'single':
            head = f'neighbor {selector_text(sel)} '
        else:
            # v4 lists selectors as "neighbor A , neighbor B"
            head = ' , '.join('neighbor ' + ' '.join([s['ip']] + [f'{k} {v}' for k, v in s.get('terms', [])]) for s in sel['items']) + ' '
    selective = sel['kind'] != 'all'
    matched = 'done' if who else 'error'
    if kind == 'announce':
        return {'line': f'{head}announce route {prefix} next-hop 1.2.3.4 med {med}', 'expect': matched, 'touch': who, 'selective': selective}
    if kind == 'withdraw':
        return {'line': f'{head}withdraw route {prefix} next-hop 1.2.3.4', 'expect': matched, 'touch': who, 'selective': selective}
    if kind == 'invalid-route':
        bad = draw(st.sampled_from(['10.1.0.0/33 next-hop 1.2.3.4', '10.1.0.0/24 next-hop 1.2.3.999', '10.1.0.0/24 next-hop 1.2.3.4 med banana', '10.1.0.0/24 next-hop 1.2.3.4 frobnicate 3']))
        return {'line': f'{head}announce route {bad}', 'expect': 'error', 'touch': [], 'selective': selective}
    if kind == 'invalid-multi':
        # several statements on one line, one of them refused: the whole command is, and nothing of it may stay behind
        good = f'route {draw(st.sampled_from(GHOST_PREFIXES))} next-hop 1.2.3.4 med {med}'
        bad = 'route ' + draw(st.sampled_from(['10.66.9.0/24 next-hop not-an-ip', '10.66.9.0/33 next-hop 1.2.3.4', '10.66.9.0/24 next-hop 1.2.3.4 med banana']))
        parts = draw(st.sampled_from([[good, bad], [bad, good], [good, good.replace('.0/24', '.128/25'), bad]]))
        return {'line': f'{head}announce ' + ' ; '.join(parts), 'expect': 'error', 'touch': [], 'selective': selective}
    if kind == 'valid-multi':
        other = draw(st.sampled_from([x for x in PREFIXES if x != prefix]))
        return {'line': f'{head}announce route {prefix} next-hop 1.2.3.4 med {med} ; route {other} next-hop 1.2.3.4 med {med}', 'expect': matched, 'touch': who, 'selective': selective}
    if kind == 'eor':
        # needs an established session to be accepted: with none up either terminal reply is right
        return {'line': f'{head}announce eor ipv4 unicast', 'expect': None if who else 'error', 'touch': who, 'selective': selective}
    if kind == 'refresh':
        return {'line': f'{head}announce route-refresh ipv4 unicast', 'expect': None if who else 'error', 'touch': who, 'selective': selective}
    if kind == 'watchdog':
        verb = draw(st.sampled_from(['announce', 'withdraw']))
        return {'line': f'{head}{verb} watchdog dog{draw(st.integers(1, 2))}', 'expect': matched, 'touch': who, 'selective': selective}
    if kind == 'flush':
        if version == 6:
            return {'line': 'rib flush out', 'expect': 'done', 'touch': everyone, 'selective': False}
        return {'line': 'flush adj-rib out', 'expect': 'done', 'touch': everyone, 'selective': False}
    if kind == 'comment':
        return {'line': '# ' + draw(st.sampled_from(['a comment', 'peer * announce route 10.9.9.0/24 next-hop 1.2.3.4', ''])), 'expect': 'done', 'touch': [], 'selective': False}
    if kind == 'empty':
        return {'line': '', 'expect': 'done', 'touch': [], 'selective': False}
    if kind == 'unknown':
        return {'line': draw(st.sampled_from(['frobnicate', 'frobnicate the route 10.1.0.0/24', 'announce', 'peer', 'rib'])), 'expect': 'error', 'touch': [], 'selective': False}
    if kind == 'unknown-after-selector':
        return {'line': f'{head}frobnicate route {prefix}', 'expect': 'error', 'touch': [], 'selective': selective}
    if kind == 'other-version':
        if version == 6:
            line = draw(st.sampled_from([f'announce route {prefix} next-hop 1.2.3.4', f'neighbor {neighbors[0]["ip"]} announce route {prefix} next-hop 1.2.3.4']))
        else:
            line = f'peer * announce route {prefix} next-hop 1.2.3.4'
            return {'line': line, 'expect': None, 'touch': everyone, 'selective': False}
        return {'line': line, 'expect': 'error', 'touch': [], 'selective': False}
    return {'line': 'session ack enable', 'expect': 'done', 'touch': [], 'selective': False}


@st.composite
def cases(draw):
    n = draw(st.sampled_from([1, 2, 3, 3, 4, 6, 6]))
    neighbors = POOL[:n]
    version = draw(st.sampled_from([6, 6, 6, 4]))
    cmds = draw(st.lists(command(neighbors, version), min_size=1, max_size=30))
    stream_len = sum(len(c['line']) + 1 for c in cmds)
    mode = draw(st.sampled_from(['whole', 'lines', 'cuts', 'cuts', 'bytewise']))
    cuts = sorted(draw(st.lists(st.integers(1, max(1, stream_len - 1)), max_size=10, unique=True))) if mode == 'cuts' else []
    return {'n': n, 'version': version, 'commands': cmds, 'mode': mode, 'cuts': cuts}


def config(n: int) -> str:
    text = nh.process_section()
    for nb in POOL[:n]:
        text += exa.neighbor_text(peer_ip=nb['ip'], local_ip=nb.get('local_ip', '127.0.0.1'), local_as=nb['local_as'], peer_as=nb['peer_as'], router_id=nb['rid'], families=['ipv4 unicast'], capability={'route-refresh': 'enable'}, body=nh.api_section(changes=False) + '\n  static {\n    route 10.7.0.0/24 next-hop 1.2.3.4 watchdog dog1;\n    route 10.7.1.0/24 next-hop 1.2.3.4 watchdog dog2 withdraw;\n  }')
    return text


def fingerprint(peer) -> tuple:
    n = peer.neighbor
    out = n.rib.outgoing
    return (
        tuple(sorted(str(r) + '|' + str(r.nexthop) for r in out.cached_routes())),
        tuple(sorted(str(r) for r in out.queued_routes())),
        tuple(sorted((str(f), tuple(sorted(map(repr, d)))) for f, d in out._pending_withdraws.items() if d)),
        tuple(sorted((name, tuple(sorted((sign, tuple(sorted(map(repr, routes)))) for sign, routes in groups.items()))) for name, groups in out._watchdog.items())),
        tuple(str(x) for x in n.eor),
        tuple(str(x) for x in n.refresh),
        len(n.messages),
        tuple(sorted(str(f) for f in out._refresh_families)),
        len(out._refresh_routes),
    )


def terminal(line: str) -> str | None:
    text = line.strip()
    if text in ('done', 'error'):
        return text
    if text.startswith('{'):
        try:
            doc = json.loads(text)
        except ValueError:
            return None
        if isinstance(doc, dict) and set(doc) <= {'answer', 'message'} and doc.get('answer') in ('done', 'error'):
            return doc['answer']
    return None


def check(case: dict) -> dict:
    cmds = case['commands']
    stream = ''.join(c['line'] + '\n' for c in cmds).encode()
    mode = case['mode']
    if mode == 'whole':
        cuts: list[int] = []
    elif mode == 'lines':
        cuts = [i + 1 for i, b in enumerate(stream) if b == 10][:-1]
    elif mode == 'bytewise':
        cuts = list(range(1, min(len(stream), 400)))
    else:
        cuts = [c for c in case['cuts'] if 0 < c < len(stream)]
    chunks, prev = [], 0
    for c in cuts + [len(stream)]:
        if c > prev:
            chunks.append(stream[prev:c])
        prev = c
    out: dict = {'steps': []}

    async def main(loop):
        with nh.Harness(loop, config_text=config(case['n']), env={'api.version': case['version']}) as hn:
            if not hn.reload_ok:
                raise RuntimeError(f'configuration refused: {hn.reactor.configuration.error}')
            hn.connect_policy = lambda a, b: False
            seen: list[str] = []
            real = hn.reactor.api.process

            def spy(reactor, service, cmd):
                seen.append(cmd)
                snap_before = [fingerprint(p) for p in hn.reactor._peers.values()]
                out['steps'].append({'command': cmd, 'before': snap_before})
                return real(reactor, service, cmd)

            hn.reactor.api.process = spy
            hn.start()
            await hn.sleep(0.3)
            # feed one line at a time *logically*: the fingerprints are taken when each command is executed, and once more
            # after everything has settled; chunking is whatever the case says
            for ch in chunks:
                hn.api_write(ch)
                await hn.sleep(0.01)
            await hn.sleep(1.0)
            # the reactor reads one command per process and loop iteration, and an idle iteration may sleep 0.1 s: the time to
            # wait grows with the number of commands (a fixed 2 s was a harness error: a 29th command was "not executed")
            waited = 0.0
            while len(seen) < len(cmds) and waited < 2.0 + 0.3 * len(cmds):
                await hn.sleep(0.2)
                waited += 0.2
            # settle: the handlers of some commands run as scheduled callbacks
            for _ in range(5):
                await hn.sleep(0.2)
            hn.api_read()
            out['seen'] = seen
            out['final'] = [fingerprint(p) for p in hn.reactor._peers.values()]
            out['replies'] = [line for _, line in hn.api_lines]
            out['order'] = [str(p.neighbor.session.peer_address) for p in hn.reactor._peers.values()]

    vloop.run(main)

    version = case['version']
    expected_lines = [' '.join(c['line'].split()) for c in cmds]
    got_lines = [' '.join(s.split()) for s in out['seen']]
    if got_lines != expected_lines:
        k = next((i for i, (a, b) in enumerate(zip(got_lines, expected_lines)) if a != b), min(len(got_lines), len(expected_lines)))
        raise Violation('order:commands-differ', f'command {k}: executed {got_lines[k:k + 2]} written {expected_lines[k:k + 2]} (executed {len(got_lines)} of {len(expected_lines)}); mode {mode}')

    # acknowledgements
    terms = [t for t in (terminal(line) for line in out['replies']) if t]
    if len(terms) != len(cmds):
        raise Violation('ack:count', f'{len(terms)} terminal replies for {len(cmds)} commands: {terms} for {expected_lines}')
    for i, (c, t) in enumerate(zip(cmds, terms)):
        if c['expect'] is not None and t != c['expect']:
            raise Violation(f'ack:{c["expect"]}-expected-got-{t}', f'command {i} "{c["line"]}" with neighbors {[n["ip"] for n in POOL[:case["n"]]]} (api v{version})')

    # side effects: fingerprint before command i vs before command i+1 (or final)
    order = out['order']
    index_of = {nb['ip']: order.index(nb['ip']) for nb in POOL[: case['n']]}
    snaps = [s['before'] for s in out['steps']] + [out['final']]
    # handlers are scheduled: a command's effect may land after the next command was read. Compare cumulatively:
    # a neighbor that no command up to i was allowed to touch must be unchanged at i+1.
    allowed: set[int] = set()
    for i, c in enumerate(cmds):
        allowed |= {index_of[POOL[j]['ip']] for j in c['touch']}
        after = snaps[i + 1]
        for j in range(case['n']):
            pos = index_of[POOL[j]['ip']]
            if pos not in allowed and after[pos] != snaps[0][pos]:
                kind = 'rejected-command-changed-rib' if c['expect'] == 'error' else 'unselected-neighbor-changed'
                raise Violation(f'effect:{kind}', f'neighbor {POOL[j]["ip"]} changed by "{c["line"]}" (command {i}); neighbors {[n["ip"] for n in POOL[:case["n"]]]} api v{version}')
    # nothing named only by refused commands is ever in a RIB, on any neighbor, at any step (the neighbor-level comparison above
    # cannot see a leftover that a later accepted command carries along to the neighbors it is allowed to change)
    for i, snap in enumerate(snaps):
        text = repr(snap)
        if '10.66.' in text:
            j = max(0, i - 1)
            raise Violation('effect:route-of-a-refused-command-in-a-rib', f'after command {j} "{cmds[j]["line"]}": {[g for g in GHOST_PREFIXES + ["10.66.9.0"] if g.split("/")[0] in text]} present; commands so far {[c["line"] for c in cmds[: j + 1]][-4:]}')
    rejected = any(c['expect'] == 'error' for c in cmds)
    selective = any(c['selective'] for c in cmds) and case['n'] >= 2
    inside = False
    pos = 0
    for ch in chunks[:-1]:
        pos += len(ch)
        if stream[pos - 1] != 10:
            inside = True
    classes = [f'api-v{version}', f'mode:{mode}', f'neighbors:{case["n"]}']
    if rejected:
        classes.append('rejected-command')
    if selective:
        classes.append('selective')
    if any(' ; ' in c['line'] for c in cmds):
        classes.append('multi-statement-command')
    if any(' ; ' in c['line'] and c['expect'] == 'error' for c in cmds):
        classes.append('multi-statement-command-refused')
    if any(c['expect'] == 'error' and c['selective'] and 'frobnicate' not in c['line'] and '/33' not in c['line'] for c in cmds):
        classes.append('selector-matches-nobody')
    return {'nontrivial': rejected and selective and inside, 'classes': classes}


ENGINES = [Engine('sequences', cases, check, quick=200, thorough=8000, batch=200, thorough_s=1200.0)]
