"""C06 - message framing is independent of how TCP delivers the bytes"""

from __future__ import annotations

import asyncio
import socket
import struct

from hypothesis import strategies as st

from vlib import exa, vloop
from vlib.refwire import codec
from vlib.runner import Engine, Violation, exception_signature

PROPERTY = 'C06'
RULE = (
    'stream = 1-8 framed messages of any type (valid lengths 19..msg_size) optionally followed by one bad header '
    '(marker, length < 19, length > max, per-type bound, unknown type) and trailing bytes; segmentation = drawn cut points '
    '(incl. byte-by-byte, cuts inside headers, chunks spanning messages); both msg_size values; readers: Connection.reader_async, '
    'Connection.reader (generator twin), Protocol.read_message. Non-trivial = a cut inside a header or a chunk spanning two messages'
)
ASSUMPTIONS = [
    'transport is a socketpair on a virtual-time asyncio loop: segmentation is what the harness writes, chunk by chunk, each after the reader has drained the previous one',
    'nothing is demanded about bytes after the first bad header',
    'Protocol.read_message is driven with a stand-in peer object (neighbor, stats, no API); the session-level variant with timing gaps is part of C10/C12',
]

ALL_TYPES = tuple(range(256))


def body_of(length: int, fill: int) -> bytes:
    return bytes((fill + i) & 0xFF for i in range(length))


VALID_LEN = {
    1: lambda ms: st.integers(10, 60),
    2: lambda ms: st.one_of(st.integers(4, 80), st.sampled_from([4, 4077, ms - 19])),
    3: lambda ms: st.integers(2, 40),
    4: lambda ms: st.just(0),
    5: lambda ms: st.just(4),
}


@st.composite
def messages(draw, msg_size, decodable=False):
    out = []
    for _ in range(draw(st.integers(1, 8))):
        if decodable:
            kind = draw(st.sampled_from(['ka', 'eor', 'eor6', 'refresh', 'update']))
            out.append(kind)
        else:
            t = draw(st.sampled_from([1, 2, 2, 3, 4, 4, 5, 6, 7, 0, 200, 255]))
            if t in VALID_LEN:
                n = draw(VALID_LEN[t](msg_size))
            else:
                n = draw(st.one_of(st.integers(0, 50), st.just(msg_size - 19)))
            out.append([t, n, draw(st.integers(0, 255))])
    return out


BAD_KINDS = ['marker', 'short', 'long', 'ka-long', 'open-short', 'update-short', 'notif-short', 'refresh-len', 'unknown-type']


@st.composite
def bad_header(draw, msg_size, allow_unknown):
    kind = draw(st.sampled_from(BAD_KINDS if allow_unknown else BAD_KINDS[:-1]))
    if kind == 'long' and msg_size == 65535:
        kind = 'short'
    return {'kind': kind, 'pos': draw(st.integers(0, 15)), 'val': draw(st.integers(0, 254)), 'len': draw(st.integers(0, 18)), 'tail': draw(st.integers(0, 40))}


def render_bad(bad: dict, msg_size: int) -> tuple[bytes, tuple[int, int]]:
    kind = bad['kind']
    tail = body_of(bad['tail'], 7)
    if kind == 'marker':
        marker = bytearray(codec.MARKER)
        marker[bad['pos']] = bad['val']
        return bytes(marker) + struct.pack('!HB', 19, 4) + tail, (1, 1)
    if kind == 'short':
        return codec.MARKER + struct.pack('!HB', bad['len'], 4) + tail, (1, 2)
    if kind == 'long':
        return codec.MARKER + struct.pack('!HB', msg_size + 1, 2) + tail, (1, 2)
    if kind == 'ka-long':
        return codec.MARKER + struct.pack('!HB', 20 + bad['len'], 4) + tail, (1, 2)
    if kind == 'open-short':
        return codec.MARKER + struct.pack('!HB', 19 + bad['len'] % 10, 1) + tail, (1, 2)
    if kind == 'update-short':
        return codec.MARKER + struct.pack('!HB', 19 + bad['len'] % 4, 2) + tail, (1, 2)
    if kind == 'notif-short':
        return codec.MARKER + struct.pack('!HB', 19 + bad['len'] % 2, 3) + tail, (1, 2)
    if kind == 'refresh-len':
        n = 19 + bad['len']
        if n == 23:
            n = 24
        return codec.MARKER + struct.pack('!HB', n, 5) + tail, (1, 2)
    if kind == 'unknown-type':
        t = [0, 7, 8, 100, 200, 255, 9][bad['val'] % 7]
        return codec.MARKER + struct.pack('!HB', 19 + bad['len'], t) + body_of(bad['len'], 1) + tail, (1, 3)
    raise ValueError(kind)


@st.composite
def reader_cases(draw):
    msg_size = draw(st.sampled_from([4096, 4096, 65535]))
    msgs = draw(messages(msg_size))
    bad = draw(st.one_of(st.none(), bad_header(msg_size, False)))
    total = sum(19 + m[1] for m in msgs) + (19 + 60 if bad else 0)
    mode = draw(st.sampled_from(['cuts', 'cuts', 'bytewise', 'whole', 'header-cuts']))
    cuts = draw(st.lists(st.integers(1, max(1, total - 1)), max_size=12, unique=True)) if mode == 'cuts' else []
    return {'msg_size': msg_size, 'msgs': msgs, 'bad': bad, 'mode': mode, 'cuts': sorted(cuts), 'partial_tail': draw(st.integers(0, 18))}


def build_stream(case: dict) -> tuple[bytes, list[int]]:
    stream = b''
    boundaries = [0]
    for t, n, fill in case['msgs']:
        stream += codec.frame(t, body_of(n, fill))
        boundaries.append(len(stream))
    if case['bad']:
        raw, _ = render_bad(case['bad'], case['msg_size'])
        stream += raw
    elif case.get('partial_tail'):
        stream += codec.MARKER[: case['partial_tail']]
    return stream, boundaries


def chunks_of(case: dict, stream: bytes, boundaries: list[int]) -> list[bytes]:
    mode = case['mode']
    if mode == 'whole':
        cuts: list[int] = []
    elif mode == 'bytewise':
        if len(stream) > 600:
            # byte-wise for the first 600 bytes, then the rest
            cuts = list(range(1, 600))
        else:
            cuts = list(range(1, len(stream)))
    elif mode == 'header-cuts':
        cuts = []
        for b in boundaries:
            for off in (1, 16, 17, 18, 19, 20):
                if 0 < b + off < len(stream):
                    cuts.append(b + off)
    else:
        cuts = [c for c in case['cuts'] if 0 < c < len(stream)]
    cuts = sorted(set(cuts))
    out = []
    prev = 0
    for c in cuts + [len(stream)]:
        if c > prev:
            out.append(stream[prev:c])
        prev = c
    return out


def nontrivial(chunks: list[bytes], boundaries: list[int]) -> bool:
    pos = 0
    bset = set(boundaries)
    for ch in chunks[:-1] if chunks else []:
        pos += len(ch)
        # cut inside a header
        prev_b = max(b for b in boundaries if b <= pos)
        if 0 < pos - prev_b < 19:
            return True
    pos = 0
    for ch in chunks:
        if any(pos < b < pos + len(ch) for b in bset):
            return True
        pos += len(ch)
    return False


def make_connection(sock: socket.socket, msg_size: int):
    from exabgp.protocol.family import AFI
    from exabgp.reactor.network.connection import Connection

    conn = Connection(AFI.ipv4, '127.0.0.2', '127.0.0.1')
    conn.io = sock
    conn.msg_size = msg_size
    conn.defensive = False
    return conn


def compare(prefix: str, got: list, want_msgs: list, want_err, stream_complete_msgs: int) -> None:
    """got: list of ('msg', length, type, body) / ('err', code, subcode)"""
    gm = [g for g in got if g[0] == 'msg']
    ge = [g for g in got if g[0] == 'err']
    for i, (g, w) in enumerate(zip(gm, want_msgs)):
        if (g[1], g[2]) != (w[0], w[1]):
            raise Violation(f'{prefix}:message-header-differs', f'message {i}: got length/type {g[1]}/{g[2]} expected {w[0]}/{w[1]}')
        if g[3] != w[2]:
            raise Violation(f'{prefix}:message-body-differs', f'message {i}: body of {len(g[3])} bytes differs from the {len(w[2])} bytes on the wire')
    if len(gm) > len(want_msgs):
        raise Violation(f'{prefix}:extra-message', f'{len(gm)} messages handed up, the stream holds {len(want_msgs)}')
    if len(gm) < len(want_msgs):
        raise Violation(f'{prefix}:missing-message', f'{len(gm)} messages handed up, the stream holds {len(want_msgs)}')
    if want_err is None and ge:
        raise Violation(f'{prefix}:spurious-error-{ge[0][1]}/{ge[0][2]}', 'no header in the stream is bad')
    if want_err is not None:
        if not ge:
            raise Violation(f'{prefix}:bad-header-accepted:expected-{want_err[0]}/{want_err[1]}', 'no error reported')
        if (ge[0][1], ge[0][2]) != want_err:
            raise Violation(f'{prefix}:wrong-error:{ge[0][1]}/{ge[0][2]}-for-{want_err[0]}/{want_err[1]}', '')
        if got[-1][0] != 'err':
            raise Violation(f'{prefix}:interpreted-after-error', str([g[0] for g in got]))


# ---------------------------------------------------------------------------- engine a1: reader_async


def run_reader_async(case: dict, stream: bytes, chunks: list[bytes]) -> list:
    async def main(loop):
        a, b = socket.socketpair()
        a.setblocking(False)
        b.setblocking(False)
        b.setsockopt(socket.SOL_SOCKET, socket.SO_SNDBUF, 1 << 20)
        conn = make_connection(a, case['msg_size'])
        got: list = []

        async def feeder():
            for ch in chunks:
                await loop.sock_sendall(b, ch)
                await asyncio.sleep(0.01)
            b.close()

        async def reader():
            from exabgp.reactor.network.error import LostConnection

            while True:
                try:
                    length, mtype, header, body, err = await conn.reader_async()
                except LostConnection:
                    return
                if err is not None:
                    got.append(('err', err.code, err.subcode))
                    return
                got.append(('msg', length, mtype, bytes(body)))

        f = asyncio.ensure_future(feeder())
        try:
            await reader()
        finally:
            f.cancel()
            try:
                await f
            except (asyncio.CancelledError, Exception):  # noqa: BLE001
                pass
            conn.close()
            try:
                b.close()
            except OSError:
                pass
        return got

    return vloop.run(main)


def run_reader_gen(case: dict, stream: bytes, chunks: list[bytes]) -> list:
    from exabgp.reactor.network.error import LostConnection

    a, b = socket.socketpair()
    a.setblocking(False)
    b.setsockopt(socket.SOL_SOCKET, socket.SO_SNDBUF, 1 << 21)
    a.setsockopt(socket.SOL_SOCKET, socket.SO_RCVBUF, 1 << 21)
    conn = make_connection(a, case['msg_size'])
    got: list = []
    pending = list(chunks)
    closed = False
    try:
        while True:
            progressed = False
            try:
                for length, mtype, header, body, err in conn.reader():
                    if err is not None:
                        got.append(('err', err.code, err.subcode))
                        return got
                    if not length and not mtype and not len(header):
                        # waiting for bytes: deliver the next chunk
                        if pending:
                            b.sendall(pending.pop(0))
                        elif not closed:
                            b.close()
                            closed = True
                        continue
                    got.append(('msg', length, mtype, bytes(body)))
                    progressed = True
            except LostConnection:
                return got
            if not progressed and closed:
                return got
    finally:
        conn.close()
        if not closed:
            b.close()


def check_reader(case: dict) -> dict:
    stream, boundaries = build_stream(case)
    chunks = chunks_of(case, stream, boundaries)
    want_msgs, want_err, _tail = codec.split_stream(stream, case['msg_size'], known_types=ALL_TYPES)
    for name, fn in (('reader_async', run_reader_async), ('reader', run_reader_gen)):
        try:
            got = fn(case, stream, chunks)
        except Violation:
            raise
        except vloop.Deadlock as exc:
            raise Violation(f'{name}:stalls', str(exc)) from None
        except Exception as exc:  # noqa: BLE001
            raise Violation(exception_signature(name, exc), repr(exc)[:200]) from exc
        compare(name, got, want_msgs, want_err, len(want_msgs))
    classes = [f'mode:{case["mode"]}', f'msg_size:{case["msg_size"]}']
    if case['bad']:
        classes.append(f'bad:{case["bad"]["kind"]}')
    if any(m[1] + 19 > 4096 for m in case['msgs']):
        classes.append('message>4096')
    return {'nontrivial': nontrivial(chunks, boundaries), 'classes': classes}


# ---------------------------------------------------------------------------- engine a2: two connections read in one loop


@st.composite
def pair_cases(draw):
    """two streams on two connections of one process, their chunks delivered in a drawn interleaving: what one connection is in the
    middle of (a header cut after 17 or 18 octets, a body half read) must not leak into the other"""
    a, b = draw(reader_cases()), draw(reader_cases())
    for c in (a, b):
        c['bad'] = None
        c['partial_tail'] = 0
        c['msg_size'] = 4096
        c['msgs'] = [m for m in c['msgs'] if 19 + m[1] <= 4096][:5] or [[4, 0, 0]]
        if c['mode'] == 'bytewise':
            c['mode'] = 'header-cuts'
    order = draw(st.lists(st.integers(0, 1), min_size=0, max_size=60))
    return {'a': a, 'b': b, 'order': order}


def pair_fixed() -> list:
    upd = [2, 305, 7]  # type, body length, fill
    ka = [4, 0, 0]
    out = []
    for cut in (16, 17, 18, 19, 40):
        a = {'msg_size': 4096, 'msgs': [upd, ka], 'bad': None, 'mode': 'cuts', 'cuts': [cut], 'partial_tail': 0}
        b = {'msg_size': 4096, 'msgs': [[2, 33, 9], ka], 'bad': None, 'mode': 'whole', 'cuts': [], 'partial_tail': 0}
        out.append({'a': a, 'b': b, 'order': [0, 1, 0]})
        out.append({'a': b, 'b': a, 'order': [1, 0, 1]})
    return out


def check_pair(case: dict) -> dict:
    streams = []
    for key in ('a', 'b'):
        stream, boundaries = build_stream(case[key])
        streams.append((stream, chunks_of(case[key], stream, boundaries), boundaries))

    async def main(loop):
        socks, conns, got = [], [], [[], []]
        for _ in range(2):
            x, y = socket.socketpair()
            x.setblocking(False)
            y.setblocking(False)
            y.setsockopt(socket.SOL_SOCKET, socket.SO_SNDBUF, 1 << 20)
            socks.append(y)
            conns.append(make_connection(x, 4096))

        async def feeder():
            queues = [list(streams[0][1]), list(streams[1][1])]
            order = list(case['order'])
            while queues[0] or queues[1]:
                k = order.pop(0) if order else (0 if queues[0] else 1)
                if not queues[k]:
                    k = 1 - k
                await loop.sock_sendall(socks[k], queues[k].pop(0))
                await asyncio.sleep(0.01)
            for y in socks:
                y.close()

        async def reader(k: int):
            from exabgp.reactor.network.error import LostConnection

            while True:
                try:
                    length, mtype, header, body, err = await conns[k].reader_async()
                except LostConnection:
                    return
                if err is not None:
                    got[k].append(('err', err.code, err.subcode))
                    return
                # the header handed up belongs to this message (it is what the API shows as the packet header)
                got[k].append(('msg', length, mtype, bytes(body), bytes(header)))

        f = asyncio.ensure_future(feeder())
        try:
            await asyncio.gather(reader(0), reader(1))
        finally:
            f.cancel()
            try:
                await f
            except (asyncio.CancelledError, Exception):  # noqa: BLE001
                pass
            for c in conns:
                c.close()
            for y in socks:
                try:
                    y.close()
                except OSError:
                    pass
        return got

    try:
        got = vloop.run(main)
    except vloop.Deadlock as exc:
        raise Violation('two-connections:stalls', str(exc)) from None
    for k, name in enumerate(('first', 'second')):
        stream = streams[k][0]
        want_msgs, want_err, _tail = codec.split_stream(stream, 4096, known_types=ALL_TYPES)
        compare(f'two-connections:{name}', [g[:4] for g in got[k]], want_msgs, want_err, len(want_msgs))
        for g, w in zip([g for g in got[k] if g[0] == 'msg'], want_msgs):
            if g[4] != codec.MARKER + w[0].to_bytes(2, 'big') + bytes([w[1]]):
                raise Violation('two-connections:header-of-another-message', f'{name} connection: message of length {w[0]} type {w[1]} handed up with header {g[4].hex()}')
    mixed = len(set(case['order'])) > 1 or (case['order'] and len(streams[1 - case['order'][0]][1]) > 0)
    return {'nontrivial': bool(mixed) and (nontrivial(streams[0][1], streams[0][2]) or nontrivial(streams[1][1], streams[1][2])), 'classes': ['two-connections']}


# ---------------------------------------------------------------------------- engine b: Protocol.read_message


class _Stats(dict):
    def __missing__(self, key):
        return 0

    def changed_statistics(self):
        return []


class _FakeReactor:
    processes = None


class _FakePeer:
    def __init__(self, neighbor) -> None:
        self.neighbor = neighbor
        self.reactor = _FakeReactor()
        self.stats = _Stats()
        self._restarted = False

    def id(self) -> str:
        return 'peer-c06'


_NEIGHBOR = None


def neighbor():
    global _NEIGHBOR
    if _NEIGHBOR is None:
        _conf, _NEIGHBOR = exa.neighbor_from_text(
            exa.neighbor_text(families=['ipv4 unicast', 'ipv6 unicast'], capability={'route-refresh': 'enable', 'extended-message': 'enable', 'asn4': 'enable'})
        )
    return _NEIGHBOR


DECODABLE = {
    'ka': (4, b''),
    'eor': (2, b'\x00\x00\x00\x00'),
    'eor6': (2, bytes.fromhex('00000007900f0003000201')),
    'refresh': (5, bytes.fromhex('00010001')),
    'update': (2, bytes.fromhex('0000000e4001010040020040030401020304180a0000')),
    # 1200 withdrawn /24 prefixes: a 4823-octet UPDATE, legal only once extended messages are negotiated by BOTH sides (RFC 8654)
    'big': (2, (4800).to_bytes(2, 'big') + b''.join(bytes([24, 50, i >> 8, i & 255]) for i in range(1200)) + b'\x00\x00'),
}


@st.composite
def protocol_cases(draw):
    msg_size = draw(st.sampled_from([4096, 65535]))
    msgs = draw(messages(msg_size, decodable=True))
    bad = draw(st.one_of(st.none(), bad_header(msg_size, True)))
    total = sum(19 + len(DECODABLE[m][1]) for m in msgs) + (19 + 60 if bad else 0)
    mode = draw(st.sampled_from(['cuts', 'bytewise', 'whole', 'header-cuts']))
    cuts = draw(st.lists(st.integers(1, max(1, total - 1)), max_size=10, unique=True)) if mode == 'cuts' else []
    return {'msg_size': msg_size, 'msgs': msgs, 'bad': bad, 'mode': mode, 'cuts': sorted(cuts)}


def check_protocol(case: dict) -> dict:
    from exabgp.bgp.message.direction import Direction
    from exabgp.reactor.network.error import LostConnection
    from exabgp.reactor.protocol import Protocol

    stream = b''
    boundaries = [0]
    for m in case['msgs']:
        t, body = DECODABLE[m]
        stream += codec.frame(t, body)
        boundaries.append(len(stream))
    want_err = None
    if case['bad']:
        raw, want_err = render_bad(case['bad'], case['msg_size'])
        stream += raw
    chunks = chunks_of(case, stream, boundaries)
    want_msgs, ref_err, _ = codec.split_stream(stream, case['msg_size'], known_types=(1, 2, 3, 4, 5, 6))
    if ref_err != want_err:
        raise RuntimeError(f'generator and reference disagree: {ref_err} vs {want_err}')
    n = neighbor()

    async def main(loop):
        a, b = socket.socketpair()
        a.setblocking(False)
        b.setblocking(False)
        peer = _FakePeer(n)
        proto = Protocol(peer)
        proto.connection = make_connection(a, case['msg_size'])
        # negotiated: peer OPEN with mp v4/v6, asn4, refresh, extended message
        from vlib.refwire import build

        caps = [build.cap_mp(1, 1), build.cap_mp(2, 1), build.cap_asn4(65000), build.cap_refresh(), build.cap_erefresh(), build.cap_ext_msg()]
        proto.negotiated = exa.negotiate(n, build.open_with_caps(65000, 90, 0x0A000002, caps), Direction.IN)
        got: list = []

        async def feeder():
            for ch in chunks:
                await loop.sock_sendall(b, ch)
                await asyncio.sleep(0.01)
            b.close()

        f = asyncio.ensure_future(feeder())
        try:
            while True:
                try:
                    msg = await proto.read_message()
                except exa.Notify as exc:
                    got.append(('err', exc.code, exc.subcode))
                    break
                except LostConnection:
                    break
                if msg.SCHEDULING:
                    continue
                got.append(('msg', type(msg).__name__, int(msg.ID)))
        finally:
            f.cancel()
            try:
                await f
            except (asyncio.CancelledError, Exception):  # noqa: BLE001
                pass
            proto.connection.close()
            try:
                b.close()
            except OSError:
                pass
        return got

    try:
        got = vloop.run(main)
    except vloop.Deadlock as exc:
        raise Violation('read_message:stalls', str(exc)) from None
    gm = [g for g in got if g[0] == 'msg']
    ge = [g for g in got if g[0] == 'err']
    want_types = [w[1] for w in want_msgs]
    got_types = [g[2] for g in gm]
    if got_types != want_types:
        raise Violation('read_message:message-sequence-differs', f'got types {got_types} expected {want_types}')
    if want_err is None and ge:
        raise Violation(f'read_message:spurious-error-{ge[0][1]}/{ge[0][2]}', str(case['msgs']))
    if want_err is not None:
        if not ge:
            raise Violation(f'read_message:bad-header-accepted:expected-{want_err[0]}/{want_err[1]}', '')
        if (ge[0][1], ge[0][2]) != want_err:
            raise Violation(f'read_message:wrong-error:{ge[0][1]}/{ge[0][2]}-for-{want_err[0]}/{want_err[1]}', case['bad']['kind'])
    classes = [f'proto-mode:{case["mode"]}']
    if case['bad']:
        classes.append(f'proto-bad:{case["bad"]["kind"]}')
    return {'nontrivial': nontrivial(chunks, boundaries), 'classes': classes}


ENGINES = [
    Engine('reader', reader_cases, check_reader, quick=400, thorough=6000, batch=200),
    Engine('read_message', protocol_cases, check_protocol, quick=250, thorough=4000, batch=125),
    Engine('two-connections', pair_cases, check_pair, quick=150, thorough=4000, batch=150, fixed_cases=pair_fixed),
]


# ---------------------------------------------------------------------------- engine c: an established session of the real Peer


@st.composite
def session_cases(draw):
    msgs = draw(st.lists(st.sampled_from(['ka', 'eor', 'eor6', 'refresh', 'update']), min_size=1, max_size=8))
    total = sum(19 + len(DECODABLE[m][1]) for m in msgs)
    cuts = sorted(draw(st.lists(st.integers(1, max(1, total - 1)), max_size=8, unique=True)))
    gaps = [draw(st.sampled_from([0.0, 0.02, 0.05, 0.11, 0.15, 0.5, 3.0])) for _ in range(len(cuts) + 1)]
    bad = draw(st.one_of(st.none(), bad_header(4096, True)))
    case = {'msgs': msgs, 'cuts': cuts, 'gaps': gaps, 'bad': bad}
    if draw(st.integers(0, 2)) == 0:
        # extended messages offered by us / by the peer / by both; one message above 4096 octets somewhere in the stream
        case['ext'] = [draw(st.booleans()), draw(st.booleans())]
        case['msgs'] = list(msgs)
        case['msgs'].insert(draw(st.integers(0, len(msgs))), 'big')
        case['cuts'] = sorted(set(cuts + [c + 4000 for c in cuts[:3]]))
        if all(case['ext']) and bad and bad['kind'] == 'long':
            # no header can name more than 65535 octets: with extended messages negotiated there is no "too long"
            case['bad'] = dict(bad, kind='short')
    return case


def session_fixed() -> list:
    out = []
    for ours in (False, True):
        for peer in (False, True):
            out.append({'msgs': ['ka', 'big', 'ka'], 'cuts': [10, 2000, 4500], 'gaps': [0.0, 0.02, 0.0, 0.0], 'bad': None, 'ext': [ours, peer]})
            out.append({'msgs': ['big'], 'cuts': [], 'gaps': [0.0], 'bad': None, 'ext': [ours, peer]})
    return out


def check_session(case: dict) -> dict:
    from vlib import scenario as _sc
    from vlib.refwire import build as _build

    _sc.EXTRA_CAPS[:] = [_build.cap_ext_msg()] if (case.get('ext') or [False, False])[1] else []
    try:
        return _check_session(case)
    finally:
        _sc.EXTRA_CAPS[:] = []


def _check_session(case: dict) -> dict:
    import json as _json

    from vlib import netharness as nh
    from vlib import scenario as sc

    stream = b''
    boundaries = [0]
    for m in case['msgs']:
        t, body = DECODABLE[m]
        stream += codec.frame(t, body)
        boundaries.append(len(stream))
    want_err = None
    ext = case.get('ext') or [False, False]
    limit = 65535 if (ext[0] and ext[1]) else 4096
    delivered = list(case['msgs'])
    if 'big' in case['msgs'] and limit == 4096:
        # the oversized header ends the session with 1/2 and nothing after it is interpreted
        at = case['msgs'].index('big')
        delivered = case['msgs'][:at]
        want_err = (1, 2)
    if case['bad'] and want_err is None:
        raw, want_err = render_bad(case['bad'], limit)
        stream += raw
    cuts = [c for c in case['cuts'] if 0 < c < len(stream)]
    chunks = []
    prev = 0
    for c in cuts + [len(stream)]:
        if c > prev:
            chunks.append(stream[prev:c])
        prev = c
    out: dict = {}

    async def main(loop):
        text = sc.config(hold=30, routes=['route 40.0.0.0/24 next-hop 1.2.3.4'], capability={'extended-message': 'enable' if ext[0] else 'disable'})
        with nh.Harness(loop, config_text=text, env={'bgp.openwait': 20}) as hn:
            hn.start()
            await hn.sleep(0.2)
            r = hn.remotes[0]
            if not await nh.establish(r, sc.open_body('valid'), timeout=5.0):
                raise RuntimeError('session did not establish')
            await hn.sleep(0.5)
            hn.api_read()
            n0 = len(hn.api_lines)
            m0 = len(r.messages)
            for i, ch in enumerate(chunks):
                await r.send(ch)
                await hn.sleep(case['gaps'][i] if i < len(case['gaps']) else 0.0)
            await hn.sleep(1.0)
            hn.api_read()
            out['api'] = [line for _, line in hn.api_lines[n0:]]
            out['after'] = [(ty, body) for _, ty, body in r.messages[m0:]]
            out['closed'] = r.closed_at is not None

    vloop.run(main)
    got = []
    for line in out['api']:
        try:
            doc = _json.loads(line)
        except ValueError:
            continue
        if doc.get('neighbor', {}).get('direction') == 'receive' and doc.get('type') in ('keepalive', 'update', 'refresh'):
            got.append(doc['type'])
    want = [{'ka': 'keepalive', 'eor': 'update', 'eor6': 'update', 'update': 'update', 'refresh': 'refresh', 'big': 'update'}[m] for m in delivered]
    if got != want:
        raise Violation('session:message-sequence-differs', f'handed up {got}, the stream holds {want}; cuts {cuts} gaps {case["gaps"]}')
    notes = [codec.decode_notification(b)[:2] for ty, b in out['after'] if ty == 3]
    if want_err is None:
        if notes or out['closed']:
            raise Violation(f'session:spurious-close:{notes[0][0]}/{notes[0][1]}' if notes else 'session:spurious-close', f'cuts {cuts} gaps {case["gaps"]}')
    else:
        if not notes:
            raise Violation(f'session:bad-header-accepted:expected-{want_err[0]}/{want_err[1]}', case['bad']['kind'])
        if notes[0] != want_err:
            raise Violation(f'session:wrong-error:{notes[0][0]}/{notes[0][1]}-for-{want_err[0]}/{want_err[1]}', case['bad']['kind'])
    slow = any(g > 0.1 for g in case['gaps'][: len(chunks) - 1])
    classes = ['session']
    if 'ext' in case:
        classes.append(f'session:extended-message:ours={ext[0]}:peer={ext[1]}')
    if slow:
        classes.append('session:gap>100ms-inside-stream')
    if case['bad']:
        classes.append(f'session-bad:{case["bad"]["kind"]}')
    return {'nontrivial': nontrivial(chunks, boundaries), 'classes': classes}


ENGINES.append(Engine('session', session_cases, check_session, quick=60, thorough=1500, batch=60, fixed_cases=session_fixed))
