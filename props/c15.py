"""C15 - every registered family and attribute survives an encode/decode round trip"""

from __future__ import annotations

import json
import os
import struct

from hypothesis import strategies as st

from vlib import c15_corpus as corpus
from vlib import c15_gen as gen
from vlib import exa, textgen
from vlib.refwire import build
from vlib.runner import Engine, Violation, exception_signature

from exabgp.bgp.message import Action  # noqa: E402
from exabgp.bgp.message.update.attribute.attribute import Attribute  # noqa: E402
from exabgp.bgp.message.update.attribute.collection import AttributeCollection  # noqa: E402
from exabgp.bgp.message.update.attribute.generic import GenericAttribute  # noqa: E402
from exabgp.bgp.message.update.collection import RoutedNLRI, UpdateCollection  # noqa: E402
from exabgp.bgp.message.update.nlri.nlri import NLRI  # noqa: E402
from exabgp.protocol.family import AFI, SAFI  # noqa: E402
from exabgp.protocol.ip import IP  # noqa: E402
from exabgp.rib.route import Route  # noqa: E402

PROPERTY = 'C15'
RULE = (
    'registry-driven: the families come from NLRI.registered_nlri and the attribute codes from Attribute.registered_attributes at run time. '
    'Objects come from (a) text: every route of every /repo/etc/exabgp/*.conf that loads, and textgen route text for the IP families; '
    '(b) decode-born: every NLRI field and attribute value found in the /repo/qa raw UPDATEs (split by refwire) as seeds, their one/two-edit mutations re-framed to the '
    "family's outer length prefix, and byte-level generators per family layout (IP with labels/RD/path-id, EVPN 1-5, VPLS, RTC, MVPN, MUP, SR-policy, FlowSpec incl. >240 byte rules, BGP-LS(+VPN)) "
    'and per attribute code; only inputs the exabgp decoder accepts are kept; (c) the make_* / create / from_cidr factories of EVPN 1-5, VPLS, SR-policy, MVPN, MUP, INET, Label, IPVPN with drawn field values, '
    'whose fields must be readable back before and after the wire; (d) whole qa UPDATE bodies through UpdateCollection (MP_REACH / MP_UNREACH). '
    'Each object is packed, decoded, re-packed and decoded again under a Negotiated built from two OPENs (with and without ADD-PATH, ASN4 and 2-byte), '
    'and paired with a variant differing in exactly one of family, path-id, prefix, RD, label or one byte. '
    '(e) histories: 2-8 decodes in ONE process of a value and the values one bit (biased to type/flag bits), one AS width or one flag away from it, each compared field by field '
    '(outcome, type, packed bytes, JSON, text, str, index) with the same decode run alone in a fork of a template process that has decoded nothing (vlib/forkiso.py). '
    'Non-trivial = the object decoded is not the empty/default value of its type (an NLRI longer than its bare length prefix, an attribute with a non-empty value); '
    'for a history: at least two distinct values of the sequence are accepted'
)
ASSUMPTIONS = [
    'x == pack(unpack(x)) is demanded only for bytes exabgp itself produced (qa/encoding raw vectors, bytes returned by pack); any other accepted input may be normalised once, after which pack/unpack must be idempotent',
    'a route configured without path-information and packed on an ADD-PATH session comes back with path-id 0: that one normalisation is not counted as inequality',
    'a label is not part of the identity of a labeled or VPN route (RFC 8277 / RFC 4364): two such routes may compare equal, and then must share index and hash',
    'an input the decoder refuses (any exception, or NLRI.INVALID) is not a C15 case; the refusal itself is C03/C08 subject matter',
    'attribute 14/15 (MP_REACH/MP_UNREACH) are containers: they are exercised through whole UPDATE bodies, not as isolated values',
]

def _registered_families() -> list[tuple[int, int]]:
    fams = set()
    for a, s in NLRI.known_families():
        if '{}/{}'.format(AFI.from_int(int(a)), SAFI.from_int(int(s))) in NLRI.registered_nlri:
            fams.add((int(a), int(s)))
    return sorted(fams)


def _registered_attributes() -> list[int]:
    return sorted({code for code, _flag in Attribute.registered_attributes})


FAMILIES = _registered_families()
ATTR_CODES = _registered_attributes()
FAMILY_CLASS = {f: NLRI.registered_nlri['{}/{}'.format(AFI.from_int(f[0]), SAFI.from_int(f[1]))] for f in FAMILIES}
ATTR_FLAG = {code: (flag & ~0x10) for code, flag in Attribute.registered_attributes}

ADDPATH_FAMILY_TEXT = ['ipv4 unicast', 'ipv4 nlri-mpls', 'ipv4 mpls-vpn', 'ipv6 unicast', 'ipv6 nlri-mpls', 'ipv6 mpls-vpn']

# anything the decoder can answer to bytes it does not like; for C15 all of them mean "not accepted"
REFUSAL = (exa.Notify, ValueError, IndexError, KeyError, struct.error, TypeError, AssertionError, OverflowError, AttributeError)

# ---------------------------------------------------------------------------- sessions

_SESSIONS: dict = {}


def session(name: str):
    """(configuration, neighbor, negotiated) - 'plain' (asn4), 'addpath' (asn4 + ADD-PATH send/receive), 'asn2', 'extnh' (RFC 8950)"""
    if name not in _SESSIONS:
        addpath = name == 'addpath'
        asn4 = name != 'asn2'
        text = exa.neighbor_text(
            peer_ip={'plain': '127.15.0.2', 'addpath': '127.15.0.3', 'asn2': '127.15.0.4', 'extnh': '127.15.0.5'}[name],
            local_as=65000,
            peer_as=65000,
            families=['all'],
            capability={'asn4': 'enable' if asn4 else 'disable', 'add-path': 'send/receive' if addpath else 'disable', 'aigp': 'enable', 'extended-message': 'enable', 'nexthop': 'enable' if name == 'extnh' else 'disable'},
            addpath_families=ADDPATH_FAMILY_TEXT if addpath else None,
            nexthop=['ipv4 unicast ipv6', 'ipv4 mpls-vpn ipv6', 'ipv6 unicast ipv4'] if name == 'extnh' else None,
        )
        conf, neighbor = exa.neighbor_from_text(text)
        caps = [build.cap_mp(a, s) for a, s in FAMILIES]
        if asn4:
            caps.append(build.cap_asn4(65000))
        if addpath:
            caps.append(build.cap_addpath([(a, s, 3) for a, s in gen.ADDPATH_FAMILIES]))
        caps.append(build.cap_ext_msg())
        if name == 'extnh':
            caps.append(build.cap_ext_nh([(1, 1, 2), (1, 128, 2), (2, 1, 1)]))
        body = build.open_with_caps(65000, 90, 0x0A000002, caps)
        neg = exa.negotiate(neighbor, body, exa.Direction.IN)  # the daemon makes its one Negotiated per session with Direction.IN (reactor/protocol.py) and encodes with it
        if bool(neg.asn4) != asn4:
            raise RuntimeError('harness: asn4 not negotiated as modelled')
        for fam in gen.ADDPATH_FAMILIES:
            if bool(neg.addpath.send(AFI.from_int(fam[0]), SAFI.from_int(fam[1]))) != addpath:
                raise RuntimeError(f'harness: add-path not negotiated as modelled for {fam}')
        _SESSIONS[name] = (conf, neighbor, neg)
    return _SESSIONS[name]


# ---------------------------------------------------------------------------- small helpers


def V(signature: str, message: str) -> Violation:
    return Violation(signature, message[:600])


def fam_tag(fam) -> str:
    return f'nlri:{fam[0]}/{fam[1]}'


def owner(o, method: str) -> str:
    """the class that defines `method` for this object: the root cause of a broken law lives there, whatever the family"""
    cls = o if isinstance(o, type) else type(o)
    for k in cls.__mro__:
        if method in k.__dict__:
            return f'nlri:{k.__name__}.{method}'
    return f'nlri:{cls.__name__}.{method}'


def unpack_one(fam, data: bytes, action, addpath: bool, neg):
    return NLRI.unpack_nlri(AFI.from_int(fam[0]), SAFI.from_int(fam[1]), data, action, addpath, neg)


def try_unpack(fam, data: bytes, action, addpath: bool, neg):
    """(object, rest) or None when the decoder does not accept the bytes"""
    try:
        o, left = unpack_one(fam, data, action, addpath, neg)
    except REFUSAL:
        return None
    except RecursionError:
        return None
    if o is NLRI.INVALID or o is NLRI.EMPTY:
        return None
    left = bytes(left)
    if len(left) >= len(data) or not data.endswith(left):
        return None
    return o, left


def pack(o, neg) -> bytes:
    try:
        return bytes(o.pack_nlri(neg))
    except Exception as exc:  # noqa: BLE001
        raise V(exception_signature(owner(o, 'pack_nlri'), exc), f'{exc!r} packing {o!r}') from exc


def parse_json(tag: str, text: str, what: str):
    for candidate in (text, '{' + text + '}', '[' + text + ']'):
        try:
            return json.loads(candidate)
        except ValueError:
            continue
    raise V(f'{tag}:unparseable', f'{what}: {text[:300]}')


RENDERERS = (('json', 'json', lambda o: o.json()), ('str', '__str__', lambda o: str(o)), ('extensive', 'extensive', lambda o: o.extensive() if hasattr(o, 'extensive') else ''))


def render(o, what: str) -> dict:
    out = {}
    for name, method, fn in RENDERERS:
        try:
            out[name] = fn(o)
        except Exception as exc:  # noqa: BLE001
            raise V(exception_signature(owner(o, method), exc), f'{exc!r} rendering {what}') from exc
        if not isinstance(out[name], str):
            raise V(f'{owner(o, method)}:not-text', f'{type(out[name]).__name__} for {what}')
    return out


def render_owner(o, name: str) -> str:
    return owner(o, {'json': 'json', 'str': '__str__', 'extensive': 'extensive'}[name])


def same(a, b, what: str) -> None:
    """a == b, both ways, with != agreeing; then index and hash must agree too"""
    try:
        eq = (a == b, b == a, a != b, b != a)
    except Exception as exc:  # noqa: BLE001
        raise V(exception_signature(owner(a, '__eq__'), exc), f'{exc!r} comparing {what}') from exc
    if eq != (True, True, False, False):
        raise V(f'{owner(a, "__eq__")}:decode-not-equal', f'(a==b, b==a, a!=b, b!=a) = {eq} for {what}: {a!r} vs {b!r}')
    equal_contract(a, b, what)


def index_of(o) -> bytes:
    try:
        return bytes(o.index())
    except Exception as exc:  # noqa: BLE001
        raise V(exception_signature(owner(o, 'index'), exc), f'{exc!r} for {o!r}') from exc


def route_index(o) -> bytes:
    try:
        return bytes(Route(o, AttributeCollection(), nexthop=IP.NoNextHop).index())
    except Exception as exc:  # noqa: BLE001
        raise V(exception_signature('route:index', exc), f'{exc!r} for {o!r}') from exc


def hash_of(o) -> int:
    try:
        return hash(o)
    except Exception as exc:  # noqa: BLE001
        raise V(exception_signature(owner(o, '__hash__'), exc), f'{exc!r} for {o!r}') from exc


def equal_contract(a, b, what: str) -> None:
    tag = owner(a, '__eq__')
    if index_of(a) != index_of(b):
        raise V(f'{tag}:equal-but-index-differs', f'{what}: {a!r} == {b!r} but index {index_of(a).hex()} vs {index_of(b).hex()}')
    if route_index(a) != route_index(b):
        raise V(f'{tag}:equal-but-route-index-differs', f'{what}: {a!r} == {b!r}')
    if hash_of(a) != hash_of(b):
        raise V(f'{tag}:equal-but-hash-differs', f'{what}: {a!r} == {b!r} (index {index_of(a).hex()}) but hash {hash_of(a)} vs {hash_of(b)}')


def distinct_contract(field: str, a, b, what: str) -> None:
    if index_of(a) == index_of(b):
        raise V(f'{owner(a, "index")}:{field}-differs-but-index-shared', f'{what}: {a!r} and {b!r} share index {index_of(a).hex()}')
    if route_index(a) == route_index(b):
        raise V(f'route:index:{field}-differs-but-index-shared', f'{what}: {a!r} and {b!r}')
    try:
        eq = (a == b, a != b)
    except Exception as exc:  # noqa: BLE001
        raise V(exception_signature(owner(a, '__eq__'), exc), f'{exc!r} comparing {what}') from exc
    if eq != (False, True):
        # same root cause as a byte-level pair that compares equal while its index differs: == looks at fewer fields than index()
        raise V(f'{owner(a, "__eq__")}:equal-but-index-differs', f'{what} ({field} differs): {a!r} vs {b!r} (==, !=) = {eq} although index {index_of(a).hex()} vs {index_of(b).hex()}')


def is_trivial_nlri(fam, raw: bytes) -> bool:
    return len(raw) <= 1 or not any(raw)


# ---------------------------------------------------------------------------- NLRI laws


def sentinel_first_label(fam, o, neg) -> bool:
    """two or more labels' worth of stack whose first label is 0 (explicit null, RFC 4182) or 524288 without the bottom-of-stack bit:
    the values RFC 3107 speakers used as next-hop / withdraw markers, which the decoder takes as the end of the stack"""
    if fam[1] not in (4, 128):
        return False
    try:
        raw = bytes(o._packed)
        base = 4 if getattr(o, '_has_addpath', False) else 0
        room = raw[base] - (64 if fam[1] == 128 else 0)
    except Exception:  # noqa: BLE001
        return False
    return raw[base + 1 : base + 4] in (b'\x00\x00\x00', b'\x80\x00\x00') and (getattr(o, '_label_size', 0) > 3 or room >= 48)


def nlri_laws(fam, o, neg, addpath: bool, action, x: bytes | None, canonical: bool, what: str, normalise_path: bool = False) -> bytes:
    """the round-trip laws for one object; returns its canonical bytes"""
    try:
        return _nlri_laws(fam, o, neg, addpath, action, x, canonical, what, normalise_path)
    except Violation as v:
        if sentinel_first_label(fam, o, neg):
            # one root cause behind several broken laws: name it once (the decoder ends the stack on the first label)
            raise V(f'{owner(FAMILY_CLASS[fam], "unpack_nlri")}:first-label-0-ends-the-stack', f'{v.message} [law: {v.signature}]') from None
        raise


def _nlri_laws(fam, o, neg, addpath: bool, action, x: bytes | None, canonical: bool, what: str, normalise_path: bool = False) -> bytes:
    packer = owner(o, 'pack_nlri')
    unpacker = owner(FAMILY_CLASS[fam], 'unpack_nlri')
    b = pack(o, neg)
    if x is not None and canonical and b != x:
        raise V(f'{packer}:repack-differs', f'{what}: exabgp wrote {x.hex()}, decoded {o!r}, packs it back as {b.hex()}')
    try:
        o1, left = unpack_one(fam, b, action, addpath, neg)
    except RecursionError:
        raise V(f'{packer}:own-bytes-refused:RecursionError', f'{what}: {b.hex()}') from None
    except Exception as exc:  # noqa: BLE001
        raise V(f'{packer}:own-bytes-refused:{type(exc).__name__}', f'{what}: exabgp packs {o!r} as {b.hex()} and answers {exc!r} to that') from exc
    if o1 is NLRI.INVALID or o1 is NLRI.EMPTY:
        raise V(f'{packer}:own-bytes-refused:INVALID', f'{what}: exabgp packs {o!r} as {b.hex()} and decodes that as invalid')
    if len(bytes(left)):
        raise V(f'{unpacker}:own-bytes-not-consumed', f'{what}: {len(bytes(left))} of {len(b)} bytes left over decoding {b.hex()}')
    if type(o1) is not type(o):
        raise V(f'{unpacker}:decode-other-type', f'{what}: {type(o).__name__} packs to {b.hex()} which decodes as {type(o1).__name__}')
    if (int(o1.afi), int(o1.safi)) != fam:
        raise V(f'{unpacker}:decode-other-family', f'{what}: decoded as family {fam}, the object says {(int(o1.afi), int(o1.safi))}')
    if not normalise_path:
        same(o, o1, f'{what} bytes {b.hex()}')
    b1 = pack(o1, neg)
    if b1 != b:
        raise V(f'{packer}:repack-not-idempotent', f'{what}: {b.hex()} decodes to {o1!r} which packs as {b1.hex()}')
    try:
        o2, _left2 = unpack_one(fam, b1, action, addpath, neg)
    except Exception as exc:  # noqa: BLE001
        raise V(f'{unpacker}:second-decode:{type(exc).__name__}', f'{what}: {b1.hex()} accepted once, then {exc!r}') from exc
    same(o1, o2, f'{what} two decodes of {b.hex()}')
    # renderings: twice on one object, and on two independently decoded copies
    r1 = render(o1, f'{what} {b.hex()}')
    r1b = render(o1, f'{what} {b.hex()}')
    r2 = render(o2, f'{what} {b.hex()}')
    for name in r1:
        if r1[name] != r1b[name]:
            raise V(f'{render_owner(o1, name)}:not-repeatable', f'{what} {b.hex()}: {r1[name][:200]} then {r1b[name][:200]}')
        if r1[name] != r2[name]:
            raise V(f'{render_owner(o1, name)}:differs-between-copies', f'{what} {b.hex()}: {r1[name][:200]} vs {r2[name][:200]}')
    if not normalise_path:
        r0 = render(o, what)
        for name in r0:
            if r0[name] != r1[name]:
                raise V(f'{render_owner(o1, name)}:changes-across-round-trip', f'{what} {b.hex()}: {r0[name][:250]} became {r1[name][:250]}')
    doc = parse_json(render_owner(o1, 'json'), r1['json'], f'{what} {b.hex()}')
    nlri_json_content(fam, o1, b, addpath, action, doc, what)
    return b


def decode_side_laws(fam, o, x: bytes, neg, addpath: bool, action, what: str) -> None:
    """what has to hold of an accepted input before anything is packed: a second decode gives an equal object that renders the same"""
    unpacker = owner(FAMILY_CLASS[fam], 'unpack_nlri')
    try:
        twin, _left = unpack_one(fam, x, action, addpath, neg)
    except Exception as exc:  # noqa: BLE001
        raise V(f'{unpacker}:second-decode:{type(exc).__name__}', f'{what}: {x.hex()} accepted once, then {exc!r}') from exc
    if twin is NLRI.INVALID or type(twin) is not type(o):
        raise V(f'{unpacker}:second-decode:other-type', f'{what}: {x.hex()} decoded as {type(o).__name__} then as {type(twin).__name__}')
    same(o, twin, f'{what} two decodes of {x.hex()}')
    r1, r1b, r2 = render(o, f'{what} {x.hex()}'), render(o, f'{what} {x.hex()}'), render(twin, f'{what} {x.hex()}')
    for name in r1:
        if r1[name] != r1b[name]:
            raise V(f'{render_owner(o, name)}:not-repeatable', f'{what} {x.hex()}: {r1[name][:200]} then {r1b[name][:200]}')
        if r1[name] != r2[name]:
            raise V(f'{render_owner(o, name)}:differs-between-copies', f'{what} {x.hex()}: {r1[name][:200]} vs {r2[name][:200]}')
    parse_json(render_owner(o, 'json'), r1['json'], f'{what} {x.hex()}')


def nlri_json_content(fam, o, b: bytes, addpath: bool, action, doc, what: str) -> None:
    """a rendering which shows some other object's data is not a function of this object's bytes (stale / shared caches)"""
    tag = render_owner(o, 'json')
    if fam in gen.IP_FAMILIES and isinstance(doc, dict):
        from vlib.refwire import codec

        if fam[1] in (4, 128) and action == Action.WITHDRAW:
            # a withdraw whose label field holds 0x000000 / 0x800000 after a first label without bottom-of-stack can be read two
            # ways (the compatibility value ends the field, or it is one more label): the labels of a withdraw carry no meaning
            # (RFC 8277 2.4) and neither reading is wrong, so the reference says nothing about where the prefix starts
            off = (4 if addpath else 0) + 1
            first = True
            while off + 3 <= len(b):
                chunk = b[off : off + 3]
                if not first and chunk in (b'\x00\x00\x00', b'\x80\x00\x00'):
                    return
                if chunk[2] & 1 or (first and chunk in (b'\x00\x00\x00', b'\x80\x00\x00')):
                    break
                first = False
                off += 3
        try:
            ref = codec.decode_nlri(b, fam[0], fam[1], addpath, action == Action.WITHDRAW)
        except codec.Malformed:
            return
        if len(ref) != 1:
            return
        import ipaddress

        try:
            shown = str(ipaddress.ip_network(doc.get('nlri'), strict=False))
        except (ValueError, TypeError):
            raise V(f'{tag}:content', f'{what} {b.hex()}: no usable "nlri" in {doc}') from None
        if shown != ref[0]['prefix']:
            raise V(f'{tag}:content', f'{what} {b.hex()}: the bytes say {ref[0]["prefix"]}, the JSON says {shown}')
        if addpath and 'path-information' in doc:
            if int(ipaddress.IPv4Address(doc['path-information'])) != ref[0]['path_id']:
                raise V(f'{tag}:content', f'{what} {b.hex()}: path-id {ref[0]["path_id"]} shown as {doc["path-information"]}')
    elif isinstance(doc, dict) and isinstance(doc.get('raw'), str):
        if doc['raw'].lower() != b.hex():
            raise V(f'{tag}:content', f'{what}: "raw" is {doc["raw"]} for the bytes {b.hex()}')


def ip_layout(fam, raw: bytes, addpath: bool):
    """offsets inside one IP-family NLRI: (mask_offset, label_start, label_end, rd_offset|None, prefix_offset, prefix_bits)"""
    base = 4 if addpath else 0
    if len(raw) <= base:
        return None
    mask = raw[base]
    off = base + 1
    label_start = off
    if fam[1] in (4, 128):
        while True:
            chunk = raw[off : off + 3]
            if len(chunk) < 3:
                return None
            off += 3
            # the bottom-of-stack bit ends the stack; the two RFC 3107 marker values only do when they are the whole stack
            if chunk[2] & 1 or (off - 3 == label_start and chunk in (b'\x80\x00\x00', b'\x00\x00\x00')):
                break
    label_end = off
    rdo = None
    if fam[1] == 128:
        rdo = off
        off += 8
    bits = mask - 8 * (off - base - 1)
    if bits < 0:
        return None
    return base, label_start, label_end, rdo, off, bits


def variant_bytes(fam, x: bytes, addpath: bool, variant: dict) -> tuple[str, bytes] | None:
    """(field that differs, bytes) for the second member of the pair"""
    kind = variant['kind']
    pos, xor = variant.get('pos', 0), (variant.get('xor', 1) & 0xFF) or 1
    y = bytearray(x)
    if kind == 'pathid':
        if not addpath or fam not in gen.ADDPATH_FAMILIES or len(x) < 5:
            return None
        y[pos % 4] ^= xor
        return 'path-id', bytes(y)
    if kind == 'rd':
        if fam in gen.IP_FAMILIES:
            lay = ip_layout(fam, x, addpath)
            off = lay[3] if lay else None
        else:
            off = gen.rd_offset(fam, x)
        if off is None or off + 8 > len(x):
            return None
        y[off + 2 + pos % 6] ^= xor
        return 'rd', bytes(y)
    if kind == 'prefix':
        if fam[1] == 85 and len(x) > 13 and x[0] == 1 and x[1:3] in (b'\x00\x01', b'\x00\x03'):
            # MUP interwork segment discovery / type 1 session transformed: architecture, type, length, RD, then a prefix
            # length in bits and the prefix octets. Another length that needs the same number of octets is another prefix
            bits = x[12]
            if bits == 0:
                return None
            low = ((bits - 1) // 8) * 8 + 1
            y[12] = low + ((bits - low) + 1 + pos % 7) % 8
            if y[12] > (32 if fam[0] == 1 else 128):
                return None
            return 'prefix', bytes(y)
        if fam == (25, 70) and len(x) in (36, 60) and x[0] == 5:
            # EVPN IP prefix route: type, length, RD, ESI, Ethernet tag, then the prefix length in bits and a full-size address
            top = 32 if len(x) == 36 else 128
            y[24] = (x[24] + 1 + pos % 7) % (top + 1)
            return 'prefix', bytes(y)
        if fam not in gen.IP_FAMILIES:
            return None
        lay = ip_layout(fam, x, addpath)
        if not lay or lay[5] < 1 or lay[4] >= len(x):
            return None
        if pos % 2:
            # another prefix length that needs the same number of octets (10.0.0.0/24 and 10.0.0.0/23): the octets stay, the
            # length octet in front of the label stack changes - two prefixes, never one route
            bits = lay[5]
            low = ((bits - 1) // 8) * 8 + 1
            new_bits = low + ((bits - low) + 1 + (pos // 2) % 7) % 8
            if new_bits > (32 if fam[0] == 1 else 128) or new_bits == bits:
                return None
            y[lay[0]] = x[lay[0]] - bits + new_bits
            return 'prefix', bytes(y)
        y[lay[4]] ^= 0x80
        return 'prefix', bytes(y)
    if kind == 'label':
        if fam not in gen.IP_FAMILIES or fam[1] not in (4, 128):
            return None
        lay = ip_layout(fam, x, addpath)
        if not lay or lay[2] - lay[1] < 3:
            return None
        y[lay[1] + 1] ^= xor  # the middle byte of the first label: neither its bottom-of-stack bit nor the withdraw marker
        return 'label', bytes(y)
    if kind == 'byte':
        if not x:
            return None
        y[pos % len(x)] ^= xor
        return 'byte', bytes(y)
    return None


def pair_laws(fam, o, x: bytes, neg, addpath: bool, action, variant: dict, what: str) -> list[str]:
    if variant['kind'] == 'family':
        other = tuple(variant['fam'])
        if other == fam or other not in FAMILY_CLASS:
            return []
        got = try_unpack(other, x, action, addpath and other in gen.ADDPATH_FAMILIES, neg)
        if got is None or got[1]:
            return []
        o2 = got[0]
        try:
            if bytes(o2.pack_nlri(neg)) != x:
                return []
        except Exception:  # noqa: BLE001 - the base laws report a pack that raises
            return []
        distinct_contract('family', o, o2, f'{what}: the bytes {x.hex()} read as {fam} and as {other}')
        return ['pair:family']
    made = variant_bytes(fam, x, addpath, variant)
    if made is None:
        return []
    field, y = made
    if y == x:
        return []
    got = try_unpack(fam, y, action, addpath, neg)
    if got is None or got[1]:
        return [f'pair:{field}:variant-refused']
    o2 = got[0]
    y1 = pack(o2, neg)
    x1 = pack(o, neg)
    text = f'{what}: {x.hex()} vs {y.hex()}'
    if field in ('path-id', 'rd', 'prefix'):
        if y1 != y or x1 != x:
            return [f'pair:{field}:normalised']
        distinct_contract(field, o, o2, text)
        return [f'pair:{field}']
    # label / byte: no demand on whether they are equal; if they are, index and hash have to follow
    try:
        eq = o == o2
        ne = o != o2
    except Exception as exc:  # noqa: BLE001
        raise V(exception_signature(owner(o, '__eq__'), exc), f'{exc!r} comparing {text}') from exc
    if bool(eq) == bool(ne):
        raise V(f'{owner(o, "__eq__")}:eq-ne-disagree', f'{text}: == is {eq} and != is {ne}')
    if eq:
        equal_contract(o, o2, text)
        return [f'pair:{field}:equal']
    if y1 == x1:
        raise V(f'{owner(o, "__eq__")}:same-bytes-not-equal', f'{text}: both pack as {y1.hex()} yet compare different')
    return [f'pair:{field}:different']


def check_nlri(case: dict) -> dict:
    exa.reset_global_state()
    fam = (case['afi'], case['safi'])
    tag = fam_tag(fam)
    if fam not in FAMILY_CLASS:
        return {'nontrivial': False, 'classes': ['unregistered-family']}
    unpacker = owner(FAMILY_CLASS[fam], 'unpack_nlri')
    addpath = bool(case.get('addpath')) and fam in gen.ADDPATH_FAMILIES
    _conf, _neighbor, neg = session('addpath' if addpath else 'plain')
    action = Action.WITHDRAW if case.get('action') == 'withdraw' else Action.ANNOUNCE
    data = bytes.fromhex(case['hex'])
    encoder = bool(case.get('encoder'))
    source = case.get('source', '?')
    classes = [f'source:{source.split(":")[0]}']
    count = 0
    nontrivial = False
    first = None
    while data:
        try:
            o, left = unpack_one(fam, data, action, addpath, neg)
        except REFUSAL as exc:
            if encoder:
                raise V(f'{unpacker}:encoder-bytes-refused:{type(exc).__name__}', f'{source}: {exc!r} for {data.hex()} (family {fam} addpath={addpath})') from exc
            break
        except RecursionError:
            break
        left = bytes(left)
        if len(left) >= len(data) or not data.endswith(left):
            if encoder:
                raise V(f'{unpacker}:no-progress', f'{source}: nothing consumed from {data.hex()}')
            break
        x = data[: len(data) - len(left)]
        data = left
        if o is NLRI.INVALID or o is NLRI.EMPTY:
            if encoder:
                raise V(f'{unpacker}:encoder-bytes-refused:INVALID', f'{source}: {x.hex()} decodes as invalid (family {fam})')
            continue
        count += 1
        what = f'{source} {fam} addpath={addpath}'
        decode_side_laws(fam, o, x, neg, addpath, action, what)
        nlri_laws(fam, o, neg, addpath, action, x, encoder, what)
        if first is None:
            first = (o, x)
        if not is_trivial_nlri(fam, x):
            nontrivial = True
        if count >= 8:
            break
    if first is None:
        return {'nontrivial': False, 'classes': classes + [f'{tag}:refused']}
    classes.append(tag)
    classes.append(f'{tag}:{type(first[0]).__name__}')
    if addpath:
        classes.append(f'{tag}:addpath')
    if action == Action.WITHDRAW:
        classes.append('action:withdraw')
    for variant in case.get('variants', []):
        classes += pair_laws(fam, first[0], first[1], neg, addpath, action, variant, f'{source} {fam} addpath={addpath}')
    return {'nontrivial': nontrivial, 'classes': sorted(set(classes))}


# ---------------------------------------------------------------------------- attribute laws


COMPANION = {2: 17, 7: 18}  # RFC 6793: towards a 2-byte peer AS_PATH / AGGREGATOR travel with their AS4_ twin


def split_tlvs(tag: str, blob: bytes) -> list[tuple[int, int, bytes]]:
    out = []
    data = blob
    while data:
        if len(data) < 3:
            raise V(f'{tag}:pack:short', blob.hex())
        flag, code = data[0], data[1]
        if flag & 0x10:
            if len(data) < 4:
                raise V(f'{tag}:pack:short', blob.hex())
            length, rest = struct.unpack('!H', data[2:4])[0], data[4:]
        else:
            length, rest = data[2], data[3:]
        if length > len(rest):
            raise V(f'{tag}:pack:length-field', f'header says {length}, only {len(rest)} bytes follow: {blob[:60].hex()}')
        out.append((flag, code, rest[:length]))
        data = rest[length:]
    return out


def split_tlv(tag: str, blob: bytes, code: int) -> tuple[int, bytes, bool]:
    """(flags, value, companion present) of the attribute `code` inside what pack_attribute returned"""
    parts = split_tlvs(tag, blob)
    mine = [p for p in parts if p[1] == code]
    others = [p for p in parts if p[1] != code]
    if len(mine) != 1:
        raise V(f'{tag}:pack:other-code', f'packs as codes {[p[1] for p in parts]}: {blob[:60].hex()}')
    if any(p[1] != COMPANION.get(code) for p in others):
        raise V(f'{tag}:pack:other-code', f'packs as codes {[p[1] for p in parts]}: {blob[:60].hex()}')
    return mine[0][0], mine[0][2], bool(others)


def attr_render(tag: str, a, what: str) -> dict:
    out = {}
    coll = AttributeCollection()
    coll.add(a)
    for name, fn in (('json', lambda: coll.json()), ('text', lambda: repr(coll)), ('str', lambda: str(a))):
        try:
            out[name] = fn()
        except Exception as exc:  # noqa: BLE001
            raise V(exception_signature(f'{tag}:{name}', exc), f'{exc!r} rendering {what}') from exc
    return out


def attr_unpack(code: int, flag: int, value: bytes, neg):
    return Attribute.unpack(code, flag, value, neg)


def attr_same(tag: str, a, b, what: str) -> None:
    try:
        eq = (a == b, b == a, a != b, b != a)
    except Exception as exc:  # noqa: BLE001
        raise V(exception_signature(f'{tag}:eq', exc), f'{exc!r} comparing {what}') from exc
    if eq != (True, True, False, False):
        raise V(f'{tag}:decode-not-equal', f'(a==b, b==a, a!=b, b!=a) = {eq} for {what}: {a!r} vs {b!r}')
    try:
        ha, hb = hash(a), hash(b)
    except TypeError:
        return  # unhashable attribute types make no hash promise
    if ha != hb:
        raise V(f'{tag}:equal-but-hash-differs', f'{what}: {a!r}')


def attr_laws(code: int, flag: int, a, neg, x: bytes | None, canonical: bool, what: str) -> bytes | None:
    tag = f'attr:{code}'
    try:
        tlv = bytes(a.pack_attribute(neg))
    except Exception as exc:  # noqa: BLE001
        raise V(exception_signature(f'{tag}:pack', exc), f'{exc!r} packing {what}: {a!r}') from exc
    if not tlv:
        if x:
            raise V(f'{tag}:packs-to-nothing', f'{what}: value {x.hex()} decoded to {a!r} which packs as no attribute at all')
        return None
    pflag, b, companion = split_tlv(tag, tlv, code)
    if x is not None and canonical and b != x:
        raise V(f'{tag}:repack-differs', f'{what}: exabgp wrote {x.hex()}, decoded {a!r}, packs it back as {b.hex()}')
    if x is not None and canonical and (pflag & 0xC0) != (flag & 0xC0):
        raise V(f'{tag}:repack-flags-differ', f'{what}: flags {flag:#x} became {pflag:#x}')
    uflag = pflag & ~0x10 & 0xFF
    if code in Attribute.attributes_optional:
        uflag &= ~0x20 & 0xFF
    try:
        a1 = attr_unpack(code, uflag, b, neg)
    except Exception as exc:  # noqa: BLE001
        raise V(exception_signature(f'{tag}:own-bytes-refused', exc), f'{what}: exabgp packs {a!r} as {b.hex()} (flags {pflag:#x}) and answers {exc!r} to that') from exc
    if type(a1) is not type(a):
        raise V(f'{tag}:decode-other-type', f'{what}: {type(a).__name__} packs to {b.hex()} which decodes as {type(a1).__name__}')
    if not companion:
        # an accepted value that pack rewrote (b != x) is compared under its own name: the canonical path must not hide behind it
        attr_same(tag + (':after-normalisation' if x is not None and b != x else ''), a, a1, f'{what} value {b.hex()}')
    try:
        tlv1 = bytes(a1.pack_attribute(neg))
    except Exception as exc:  # noqa: BLE001
        raise V(exception_signature(f'{tag}:pack', exc), f'{exc!r} re-packing {what}: {a1!r}') from exc
    if companion:
        # the 4-byte ASNs went into the AS4_ twin: what is left is the AS_TRANS view, which has to be stable from here on
        b1 = split_tlv(tag, tlv1, code)[1]
        if b1 != b:
            raise V(f'{tag}:repack-not-idempotent', f'{what}: {b.hex()} decodes to {a1!r} which packs as {b1.hex()}')
    elif tlv1 != tlv:
        raise V(f'{tag}:repack-not-idempotent', f'{what}: {tlv.hex()} decodes to {a1!r} which packs as {tlv1.hex()}')
    a2 = attr_unpack(code, uflag, b, neg)
    attr_same(tag, a1, a2, f'{what} two decodes of {b.hex()}')
    r0 = attr_render(tag, a, what)
    r1 = attr_render(tag, a1, what)
    r1b = attr_render(tag, a1, what)
    r2 = attr_render(tag, a2, what)
    for name in r1:
        if r1[name] != r1b[name]:
            raise V(f'{tag}:{name}:not-repeatable', f'{what} {b.hex()}: {r1[name][:200]} then {r1b[name][:200]}')
        if r1[name] != r2[name]:
            raise V(f'{tag}:{name}:differs-between-copies', f'{what} {b.hex()}: {r1[name][:200]} vs {r2[name][:200]}')
        if r0[name] != r1[name] and not companion:
            raise V(f'{tag}:{name}:changes-across-round-trip', f'{what} {b.hex()}: {r0[name][:250]} became {r1[name][:250]}')
    if r1['json']:
        doc = parse_json(f'{tag}:json', r1['json'], f'{what} {b.hex()}')
        attr_json_content(code, a1, b, doc, what)
    return b


def attr_json_content(code: int, a, b: bytes, doc, what: str, values: bool = True) -> None:
    """the JSON member is named after this attribute and, for the plain types, says what the bytes say"""
    tag = f'attr:{code}:json'
    if not isinstance(doc, dict) or len(doc) != 1:
        raise V(f'{tag}:content', f'{what} {b.hex()}: expected one member, got {doc}')
    key, value = next(iter(doc.items()))
    rep = AttributeCollection.representation.get(code)
    names = (rep[2],) if rep and isinstance(rep[2], str) else (tuple(rep[2]) if rep else (f'attribute-0x{code:02X}-0x{a.FLAG:02X}',))
    if key not in names:
        raise V(f'{tag}:content', f'{what} {b.hex()}: member {key!r}, expected one of {names}')
    expect = None
    if not values:
        return  # b is not canonical here: only the member name is compared
    if code in (4, 5) and len(b) == 4:
        expect = struct.unpack('!L', b)[0]
    elif code == 1 and len(b) == 1 and b[0] < 3:
        expect = ['igp', 'egp', 'incomplete'][b[0]]
    elif code == 9 and len(b) == 4:
        expect = '.'.join(str(c) for c in b)
    elif code == 10 and len(b) % 4 == 0:
        expect = ['.'.join(str(c) for c in b[i : i + 4]) for i in range(0, len(b), 4)]
    elif code == 32 and len(b) % 12 == 0 and isinstance(value, list):
        expect = sorted(list(struct.unpack('!LLL', b[i : i + 12])) for i in range(0, len(b), 12))
        value = sorted(value)
        expect = [list(t) for t in {tuple(e) for e in expect}] if len(value) != len(expect) else expect
        expect, value = sorted(expect), sorted(value)
    elif code == 8 and len(b) % 4 == 0 and isinstance(value, list):
        expect = sorted(list(struct.unpack('!HH', b[i : i + 4])) for i in range(0, len(b), 4))
        if len(value) != len(expect):
            expect = [list(t) for t in {tuple(e) for e in expect}]
        expect, value = sorted(expect), sorted(value)
    if expect is not None and value != expect:
        raise V(f'{tag}:content', f'{what} {b.hex()}: the bytes say {expect}, the JSON says {value}')


def _has_empty_segment(value: bytes, width: int) -> bool:
    pos = 0
    while pos + 2 <= len(value):
        count = value[pos + 1]
        if count == 0:
            return True
        pos += 2 + count * width
    return False


def check_attr(case: dict) -> dict:
    exa.reset_global_state()
    code, flags = case['code'], case['flags']
    tag = f'attr:{code}'
    asn4 = bool(case.get('asn4', True))
    _conf, _neighbor, neg = session('plain' if asn4 else 'asn2')
    x = bytes.fromhex(case['hex'])
    encoder = bool(case.get('encoder'))
    source = case.get('source', '?')
    classes = [f'source:{source.split(":")[0]}']
    flag = flags & ~0x10 & 0xFF
    if code in Attribute.attributes_optional:
        flag &= ~0x20 & 0xFF
    what = f'{source} attribute {code} flags {flags:#x} asn4={asn4}'
    if code in (14, 15):
        return {'nontrivial': False, 'classes': classes + ['container-attribute-see-messages']}
    if not Attribute.registered(code, flag):
        if code in Attribute.attributes_known or not flag & 0x40:
            return {'nontrivial': False, 'classes': classes + [f'{tag}:flags-not-registered']}
        # unknown optional transitive: the generic attribute is the registered fallback
        try:
            a = GenericAttribute.make_generic(code, flag | 0x20, x)
        except REFUSAL:
            return {'nontrivial': False, 'classes': classes + ['attr:generic:refused']}
        tlv = bytes(a.pack_attribute(neg))
        pflag, b, _companion = split_tlv('attr:generic', tlv, code)
        if b != x:
            raise V('attr:generic:repack-differs', f'{what}: {x.hex()} packs back as {b.hex()}')
        a1 = GenericAttribute.make_generic(code, flag | 0x20, b)
        attr_same('attr:generic', a, a1, what)
        r, r1 = attr_render('attr:generic', a, what), attr_render('attr:generic', a1, what)
        if r != r1:
            raise V('attr:generic:render-differs-between-copies', f'{what}: {r} vs {r1}')
        parse_json('attr:generic:json', r['json'], what)
        return {'nontrivial': bool(x), 'classes': classes + ['attr:generic']}
    try:
        a = attr_unpack(code, flag, x, neg)
    except REFUSAL as exc:
        if encoder:
            raise V(exception_signature(f'{tag}:encoder-bytes-refused', exc), f'{what}: {exc!r} for {x.hex()}') from exc
        return {'nontrivial': False, 'classes': classes + [f'{tag}:refused']}
    except RecursionError:
        return {'nontrivial': False, 'classes': classes + [f'{tag}:refused']}
    if a is None or getattr(a, 'ID', code) != code:
        return {'nontrivial': False, 'classes': classes + [f'{tag}:refused']}
    try:
        twin = attr_unpack(code, flag, x, neg)
    except Exception as exc:  # noqa: BLE001
        raise V(f'{tag}:second-decode:{type(exc).__name__}', f'{what}: {x.hex()} accepted once, then {exc!r}') from exc
    attr_same(tag, a, twin, f'{what} two decodes of {x.hex()}')
    r1, r1b, r2 = attr_render(tag, a, what), attr_render(tag, a, what), attr_render(tag, twin, what)
    for name in r1:
        if r1[name] != r1b[name]:
            raise V(f'{tag}:{name}:not-repeatable', f'{what} {x.hex()}: {r1[name][:200]} then {r1b[name][:200]}')
        if r1[name] != r2[name]:
            raise V(f'{tag}:{name}:differs-between-copies', f'{what} {x.hex()}: {r1[name][:200]} vs {r2[name][:200]}')
    if r1['json']:
        attr_json_content(code, a, x, parse_json(f'{tag}:json', r1['json'], f'{what} {x.hex()}'), what, values=False)
    if code in (2, 17) and not encoder and _has_empty_segment(x, 4 if (asn4 or code == 17) else 2):
        # a segment of zero AS numbers is malformed input (RFC 7606 7.2; that it is accepted is C08's listed finding): ExaBGP drops it
        # when it packs, so the object born from these bytes is not one its encoder can produce and the round-trip laws say nothing
        return {'nontrivial': False, 'classes': sorted(set(classes + [tag, f'{tag}:empty-segment:not-canonical']))}
    attr_laws(code, flag, a, neg, x, encoder, what)
    classes += [tag, f'{tag}:{type(a).__name__}']
    if not asn4:
        classes.append(f'{tag}:asn2')
    return {'nontrivial': bool(x), 'classes': sorted(set(classes))}


# ---------------------------------------------------------------------------- whole routes (text born) and whole UPDATEs


def message_round_trip(nlri, nexthop, attributes, neg, what: str, withdraw: bool = False):
    """the project's own self check (configuration.check.check_generation), with the comparison done on objects and bytes.

    Returns a list of classes when there is nothing to compare, else (classes, nlri read back, attributes read back)."""
    tag = 'message:withdraw' if withdraw else 'message:announce'

    def write(n, nh, attrs):
        if withdraw:
            return [bytes(m) for m in UpdateCollection([], [n], attrs).messages(neg)]
        return [bytes(m) for m in UpdateCollection([RoutedNLRI(n, nh)], [], attrs).messages(neg)]

    try:
        msgs = write(nlri, nexthop, attributes)
    except NotImplementedError:
        return ['message:attribute-without-encoder']  # reported by the attribute's own law
    except Exception as exc:  # noqa: BLE001
        raise V(exception_signature(f'{tag}:encode', exc), f'{exc!r} for {what}') from exc
    if len(msgs) != 1:
        return [f'message:{len(msgs)}-messages']
    m1 = msgs[0]
    try:
        upd = UpdateCollection.unpack_message(m1[19:], neg)
        got = list(upd.withdraws if withdraw else upd.announces)
        a2 = upd.attributes
    except Exception as exc:  # noqa: BLE001
        raise V(exception_signature(f'{tag}:own-bytes-refused', exc), f'{what}: exabgp wrote {m1.hex()} and answers {exc!r} to that') from exc
    if len(got) != 1:
        raise V(f'{tag}:nlri-count', f'{what}: one route written as {m1.hex()}, {len(got)} routes read back')
    n2 = got[0] if withdraw else got[0].nlri
    if type(n2) is not type(nlri):
        raise V(f'{tag}:decode-other-type', f'{what}: {type(nlri).__name__} read back as {type(n2).__name__} from {m1.hex()}')
    try:
        m2 = write(n2, None if withdraw else got[0].nexthop, a2)
    except Exception as exc:  # noqa: BLE001
        raise V(exception_signature(f'{tag}:re-encode', exc), f'{exc!r} for {what} read back from {m1.hex()}') from exc
    if m2 != [m1]:
        kind = 'repack-differs'
        try:
            w1, at1, n1 = corpus.split_update(m1[19:])
            w2, at2, n2b = corpus.split_update(m2[0][19:]) if len(m2) == 1 else (None, b'', None)
            if (w1, n1) == (w2, n2b) and at1 != at2 and sorted(split_tlvs(tag, at1)) == sorted(split_tlvs(tag, at2)):
                kind = 'attribute-order-differs'
        except (ValueError, struct.error):
            pass
        raise V(f'{tag}:{kind}', f'{what}: wrote {m1.hex()}, read it, wrote {[m.hex() for m in m2]}')
    return [tag], n2, a2


def route_laws(route, session_name: str, what: str) -> tuple[bool, list[str]]:
    conf, neighbor, neg = session(session_name)
    nlri = route.nlri
    fam = (int(nlri.afi), int(nlri.safi))
    tag = fam_tag(fam)
    classes = []
    if fam not in FAMILY_CLASS:
        return False, ['route:unregistered-family']
    addpath = session_name == 'addpath' and fam in gen.ADDPATH_FAMILIES
    has_path = bool(getattr(nlri, '_has_addpath', False))
    # a path-id the session cannot carry is dropped, a missing one is sent as 0: one normalisation, then idempotent
    normalise = has_path != addpath
    b = nlri_laws(fam, nlri, neg, addpath, Action.ANNOUNCE, None, False, what, normalise_path=normalise)
    classes += [tag, f'{tag}:{type(nlri).__name__}', f'{tag}:text']
    if addpath:
        classes.append(f'{tag}:addpath')
    # every real attribute on its own
    for code in sorted(route.attributes):
        if code > 0xFF:
            continue
        a = route.attributes[code]
        atag = f'attr:{code}'
        flag = a.FLAG & ~0x10 & 0xFF
        if code in Attribute.attributes_optional:
            flag &= ~0x20 & 0xFF
        if isinstance(a, GenericAttribute) or not Attribute.registered(code, flag):
            classes.append('attr:generic')
            continue
        if code in (14, 15):
            continue
        attr_laws(code, flag, a, neg, None, False, f'{what} attribute {code}')
        classes += [atag, f'{atag}:{type(a).__name__}', f'{atag}:text']
    # the whole UPDATE, announce and withdraw
    try:
        resolved = neighbor.resolve_self(route)
    except Exception:  # noqa: BLE001 - next-hop self with no usable local address is not this property's subject
        return not is_trivial_nlri(fam, b), classes + ['route:self-unresolved']
    nh = resolved.nexthop
    if fam in gen.IP_FAMILIES and nh is not IP.NoNextHop and int(getattr(nh, 'afi', fam[0])) != fam[0]:
        if session_name != 'plain' or fam not in ((1, 1), (1, 128), (2, 1)):
            return not is_trivial_nlri(fam, b), classes + ['route:nexthop-of-other-afi']
        conf, neighbor, neg = session('extnh')  # RFC 8950 has to be negotiated for this next hop to be legal
        classes.append('route:extended-nexthop')
    for withdraw in (False, True):
        res = message_round_trip(resolved.nlri, nh, resolved.attributes, neg, what, withdraw)
        if isinstance(res, list):
            classes += res
            continue
        mclasses, n2, a2 = res
        classes += mclasses
        if fam != (1, 1):
            classes.append('attr:15' if withdraw else 'attr:14')
        if not normalise:
            same(resolved.nlri, n2, f'{what} through a whole UPDATE')
            if bytes(Route(n2, a2, nexthop=IP.NoNextHop).index()) != bytes(Route(resolved.nlri, resolved.attributes).index()):
                raise V('route:index:changes-across-round-trip', what)
        if not withdraw:
            for code in sorted(resolved.attributes):
                if code > 0xFF or code in (3, 14, 15):
                    continue
                a = resolved.attributes[code]
                if code not in a2:
                    raise V(f'attr:{code}:message:lost', f'{what}: attribute {code} {a!r} is not in what was read back')
                if isinstance(a, GenericAttribute):
                    continue
                attr_same(f'attr:{code}:message', a, a2[code], f'{what} attribute {code} through a whole UPDATE')
    return not is_trivial_nlri(fam, b), classes


_CONF_ROUTES: dict = {}


def conf_routes(name: str) -> list:
    if name not in _CONF_ROUTES:
        path = os.path.join(corpus.ETC, name)
        routes = []
        try:
            conf = exa.Configuration([path])
            ok = conf.reload()
        except Exception:  # noqa: BLE001 - a configuration that does not load has no routes to offer
            ok = False
        if ok is True:
            for key in sorted(conf.neighbors):
                routes += list(conf.neighbors[key].routes)
        _CONF_ROUTES[name] = routes
    return _CONF_ROUTES[name]


def parse_text(conf, rec: dict, text: str):
    if rec['form'] == 'route':
        return conf.parse_route_text(text)
    section, line = text.split(' ', 1)
    conf.static.clear()
    if not conf.partial(section, line, 'announce'):
        return []
    if conf.scope.location():
        return []
    conf.scope.to_context()
    return conf.scope.pop_routes()


def flow_text(case: dict) -> str:
    ports = ' '.join(f'={p}' for p in case['ports'])
    dest = case['dest']
    rd = f'route-distinguisher {case["rd"]}; ' if case.get('rd') else ''
    return f'route {{ {rd}match {{ destination {dest}; destination-port [ {ports} ]; }} then {{ discard; }} }}'


def check_route(case: dict) -> dict:
    exa.reset_global_state()
    sess = case.get('session', 'plain')
    if case['kind'] == 'conf':
        routes = conf_routes(case['file'])
        if case['index'] >= len(routes):
            return {'nontrivial': False, 'classes': ['conf:no-such-route']}
        route = routes[case['index']]
        what = f'{case["file"]}#{case["index"]} "{route.extensive()[:160]}" session={sess}'
        nontrivial, classes = route_laws(route, sess, what)
        return {'nontrivial': nontrivial, 'classes': sorted(set(classes + ['source:conf'])), 'sample': {'case': case, 'route': route.extensive()[:200]}}
    conf, _neighbor, _neg = session(sess)
    if case['kind'] == 'flow':
        text = flow_text(case)
        try:
            conf.flow.clear()
            parsed = []
            if conf.partial('flow', text, 'announce') and not conf.scope.location():
                conf.scope.to_context()
                parsed = conf.scope.pop_routes()
        except Exception:  # noqa: BLE001 - an exception out of the parser is C18's subject
            return {'nontrivial': False, 'classes': ['text:parse-exception']}
        if len(parsed) != 1:
            return {'nontrivial': False, 'classes': ['text:refused']}
        nontrivial, classes = route_laws(parsed[0], sess, f'"flow {text[:120]}..." ({len(case["ports"])} ports) session={sess}')
        size = len(bytes(parsed[0].nlri._packed)) if hasattr(parsed[0].nlri, '_packed') else 0
        classes.append('flow:long' if size >= 240 else 'flow:short')
        return {'nontrivial': nontrivial, 'classes': sorted(set(classes + ['source:flowtext'])), 'sample': {'text': text[:200], 'session': sess, 'size': size}}
    rec = case['route']
    text = textgen.route_text(rec)
    try:
        parsed = parse_text(conf, rec, text)
    except Exception:  # noqa: BLE001 - an exception out of the parser is C18's subject
        return {'nontrivial': False, 'classes': ['text:parse-exception']}
    if len(parsed) != 1:
        return {'nontrivial': False, 'classes': ['text:refused']}
    nontrivial, classes = route_laws(parsed[0], sess, f'"{text}" session={sess}')
    return {'nontrivial': nontrivial, 'classes': sorted(set(classes + ['source:textgen'])), 'sample': {'text': text, 'session': sess}}


def check_message(case: dict) -> dict:
    """a whole UPDATE body from the qa vectors: decode, re-encode every route on its own, decode again"""
    exa.reset_global_state()
    body = bytes.fromhex(case['hex'])
    sess = 'extnh' if case.get('extnh') else ('addpath' if case.get('addpath') else ('plain' if case.get('asn4', True) else 'asn2'))
    _conf, _neighbor, neg = session(sess)
    source = case.get('source', '?')
    encoder = bool(case.get('encoder'))
    try:
        upd = UpdateCollection.unpack_message(body, neg)
        announces = list(upd.announces)
        withdraws = list(upd.withdraws)
        attributes = upd.attributes
    except REFUSAL as exc:
        if encoder:
            raise V(exception_signature('message:encoder-bytes-refused', exc), f'{source}: {exc!r} for {body.hex()} on session {sess}') from exc
        return {'nontrivial': False, 'classes': ['message:refused']}
    classes = ['source:' + source.split(':')[0]]
    done = 0
    for routed in announces[:4]:
        fam = (int(routed.nlri.afi), int(routed.nlri.safi))
        res = message_round_trip(routed.nlri, routed.nexthop, attributes, neg, f'{source} {routed.nlri!r}')
        if isinstance(res, list):
            classes += res
            continue
        _c, n2, _a2 = res
        same(routed.nlri, n2, f'{source} through a whole UPDATE')
        classes += ['message:announce', fam_tag(fam) + ':message']
        if fam != (1, 1):
            classes.append('attr:14')
        done += 1
    for nlri in withdraws[:4]:
        fam = (int(nlri.afi), int(nlri.safi))
        res = message_round_trip(nlri, IP.NoNextHop, AttributeCollection(), neg, f'{source} withdraw {nlri!r}', withdraw=True)
        if isinstance(res, list):
            classes += res
            continue
        _c, n2, _a2 = res
        same(nlri, n2, f'{source} withdraw through a whole UPDATE')
        classes += ['message:withdraw', fam_tag(fam) + ':message']
        if fam != (1, 1):
            classes.append('attr:15')
        done += 1
    return {'nontrivial': done > 0, 'classes': sorted(set(classes))}


# ---------------------------------------------------------------------------- factories (make_* / create)


def _factory_object(case: dict):
    """(family, object, [(accessor, expected packed bytes)]) for one factory call"""
    from exabgp.bgp.message.update.nlri.cidr import CIDR
    from exabgp.bgp.message.update.nlri.evpn.ethernetad import EthernetAD
    from exabgp.bgp.message.update.nlri.evpn.mac import MAC as EVPNMAC
    from exabgp.bgp.message.update.nlri.evpn.multicast import Multicast
    from exabgp.bgp.message.update.nlri.evpn.prefix import Prefix
    from exabgp.bgp.message.update.nlri.evpn.segment import EthernetSegment
    from exabgp.bgp.message.update.nlri.inet import INET
    from exabgp.bgp.message.update.nlri.ipvpn import IPVPN
    from exabgp.bgp.message.update.nlri.label import Label
    from exabgp.bgp.message.update.nlri.mup.dsd import DirectSegmentDiscoveryRoute
    from exabgp.bgp.message.update.nlri.mup.isd import InterworkSegmentDiscoveryRoute
    from exabgp.bgp.message.update.nlri.mvpn.sharedjoin import SharedJoin
    from exabgp.bgp.message.update.nlri.mvpn.sourcead import SourceAD
    from exabgp.bgp.message.update.nlri.mvpn.sourcejoin import SourceJoin
    from exabgp.bgp.message.update.nlri.qualifier import ESI, EthernetTag, Labels, PathInfo, RouteDistinguisher
    from exabgp.bgp.message.update.nlri.qualifier import MAC as MACQUAL
    from exabgp.bgp.message.update.nlri.sr_policy import SRPolicyNLRI
    from exabgp.bgp.message.update.nlri.vpls import VPLS

    what = case['what']
    h = lambda k: bytes.fromhex(case[k])  # noqa: E731
    rd = RouteDistinguisher(h('rd')) if 'rd' in case else None
    esi = ESI.make_esi(h('esi')) if 'esi' in case else None
    etag = EthernetTag.make_etag(case['etag']) if 'etag' in case else None
    labels = Labels.make_labels(case['labels']) if case.get('labels') else None
    ip = IP.create_ip(h('ip')) if case.get('ip') else None
    exp = []
    if rd is not None:
        exp.append(('rd', lambda o: bytes(o.rd.pack_rd()), h('rd')))
    if esi is not None:
        exp.append(('esi', lambda o: bytes(o.esi.pack_esi()), h('esi')))
    if etag is not None:
        exp.append(('etag', lambda o: bytes(o.etag.pack_etag()), struct.pack('!L', case['etag'])))
    if what == 'evpn-mac':
        o = EVPNMAC.make_mac(rd, esi, etag, MACQUAL(packed=h('mac')), 48, labels, ip)
        exp.append(('mac', lambda o: bytes(o.mac.pack_mac()), h('mac')))
        exp.append(('ip', lambda o: bytes(o.ip.pack_ip()) if o.ip else b'', h('ip') if case.get('ip') else b''))
        return (25, 70), o, exp
    if what == 'evpn-ead':
        return (25, 70), EthernetAD.make_ethernetad(rd, esi, etag, labels), exp
    if what == 'evpn-multicast':
        exp.append(('ip', lambda o: bytes(o.ip.pack_ip()), h('ip')))
        return (25, 70), Multicast.make_multicast(rd, etag, ip), exp
    if what == 'evpn-segment':
        exp.append(('ip', lambda o: bytes(o.ip.pack_ip()), h('ip')))
        return (25, 70), EthernetSegment.make_ethernetsegment(rd, esi, ip), exp
    if what == 'evpn-prefix':
        gw = IP.create_ip(h('gw'))
        exp.append(('ip', lambda o: bytes(o.ip.pack_ip()), h('ip')))
        exp.append(('gwip', lambda o: bytes(o.gwip.pack_ip()), h('gw')))
        exp.append(('iplen', lambda o: bytes([o.iplen]), bytes([case['iplen']])))
        return (25, 70), Prefix.make_prefix(rd, esi, etag, labels, ip, case['iplen'], gw), exp
    if what == 'vpls':
        o = VPLS.make_vpls(rd, case['endpoint'], case['base'], case['offset'], case['size'])
        exp.append(('fields', lambda o: struct.pack('!HLHH', o.endpoint, o.base, o.offset, o.block_size), struct.pack('!HLHH', case['endpoint'], case['base'], case['offset'], case['size'])))
        return (25, 65), o, exp
    if what == 'sr-policy':
        afi = 1 if len(h('ip')) == 4 else 2
        o = SRPolicyNLRI.create(AFI.from_int(afi), case['distinguisher'], case['color'], str(ip))
        exp.append(('fields', lambda o: struct.pack('!LL', o.distinguisher, o.color), struct.pack('!LL', case['distinguisher'], case['color'])))
        return (afi, 73), o, exp
    if what in ('mvpn-sourcead', 'mvpn-sourcejoin', 'mvpn-sharedjoin'):
        afi = 1 if len(h('ip')) == 4 else 2
        grp = IP.create_ip(h('group'))
        exp.append(('source', lambda o: bytes(o.source.pack_ip()), h('ip')))
        exp.append(('group', lambda o: bytes(o.group.pack_ip()), h('group')))
        if what == 'mvpn-sourcead':
            return (afi, 5), SourceAD.make_sourcead(rd, AFI.from_int(afi), ip, grp), exp
        exp.append(('source_as', lambda o: struct.pack('!L', int(o.source_as)), struct.pack('!L', case['source_as'])))
        maker = SourceJoin.make_sourcejoin if what == 'mvpn-sourcejoin' else SharedJoin.make_sharedjoin
        return (afi, 5), maker(rd, AFI.from_int(afi), ip, grp, case['source_as']), exp
    if what == 'mup-dsd':
        afi = 1 if len(h('ip')) == 4 else 2
        exp.append(('ip', lambda o: bytes(o.ip.pack_ip()), h('ip')))
        return (afi, 85), DirectSegmentDiscoveryRoute.make_dsd(rd, ip, AFI.from_int(afi)), exp
    if what == 'mup-isd':
        afi = 1 if len(h('ip')) == 4 else 2
        return (afi, 85), InterworkSegmentDiscoveryRoute.make_isd(rd, case['iplen'], ip, AFI.from_int(afi)), exp
    if what in ('inet', 'label', 'ipvpn'):
        afi = 1 if len(h('ip')) == 4 else 2
        path = PathInfo(struct.pack('!L', case['path_id'])) if 'path_id' in case else PathInfo.DISABLED
        cidr = CIDR.create_cidr(h('ip'), case['iplen'])
        if what == 'inet':
            safi = case.get('safi', 1)
            return (afi, safi), INET.from_cidr(cidr, AFI.from_int(afi), SAFI.from_int(safi), path), exp
        exp.append(('labels', lambda o: bytes(o.labels.pack_labels()), build.label_stack(case['labels'])))
        if what == 'label':
            return (afi, 4), Label.from_cidr(cidr, AFI.from_int(afi), SAFI.nlri_mpls, path, labels=labels), exp
        return (afi, 128), IPVPN.make_vpn_route(AFI.from_int(afi), SAFI.mpls_vpn, h('ip'), case['iplen'], labels, rd, path), exp
    raise RuntimeError(f'harness: unknown factory {what}')


def check_factory(case: dict) -> dict:
    exa.reset_global_state()
    try:
        fam, o, expectations = _factory_object(case)
    except RuntimeError:
        raise
    except Exception as exc:  # noqa: BLE001
        from vlib.runner import innermost_frame_is_repo

        if innermost_frame_is_repo(exc):
            raise V(exception_signature(f'factory:{case["what"]}', exc), f'{exc!r} for {case}') from exc
        raise
    sess = 'addpath' if case.get('addpath') else 'plain'
    _conf, _neighbor, neg = session(sess)
    addpath = sess == 'addpath' and fam in gen.ADDPATH_FAMILIES
    has_path = bool(getattr(o, '_has_addpath', False))
    what = f'factory {case["what"]} {json.dumps(case, sort_keys=True)[:300]}'
    for name, read, want in expectations:
        try:
            got = read(o)
        except Exception as exc:  # noqa: BLE001
            raise V(exception_signature(f'factory:{case["what"]}:{name}', exc), f'{exc!r} reading {name} of {what}') from exc
        if got != want:
            raise V(f'factory:{case["what"]}:{name}-not-kept', f'{what}: gave {want.hex()}, the object says {got.hex()}')
    b = nlri_laws(fam, o, neg, addpath, Action.ANNOUNCE, None, False, what, normalise_path=has_path != addpath)
    o1, _left = unpack_one(fam, b, Action.ANNOUNCE, addpath, neg)
    for name, read, want in expectations:
        got = read(o1)
        if got != want:
            raise V(f'factory:{case["what"]}:{name}-lost-on-the-wire', f'{what}: gave {want.hex()}, packed as {b.hex()}, read back {got.hex()}')
    tag = fam_tag(fam)
    return {'nontrivial': True, 'classes': sorted({tag, f'{tag}:{type(o).__name__}', f'{tag}:factory', f'factory:{case["what"]}'} | ({f'{tag}:addpath'} if addpath else set()))}


@st.composite
def factory_cases(draw):
    what = draw(st.sampled_from(['evpn-mac', 'evpn-mac', 'evpn-ead', 'evpn-multicast', 'evpn-segment', 'evpn-prefix', 'vpls', 'sr-policy', 'mvpn-sourcead', 'mvpn-sourcejoin', 'mvpn-sharedjoin', 'mup-dsd', 'mup-isd', 'inet', 'label', 'ipvpn']))
    case: dict = {'kind': 'factory', 'what': what}
    v6 = draw(st.booleans())
    addr = gen.ip6 if v6 else gen.ip4
    full = 128 if v6 else 32
    if what not in ('inet', 'label', 'sr-policy'):
        case['rd'] = draw(gen.rd()).hex()
    if what in ('evpn-mac', 'evpn-ead', 'evpn-segment', 'evpn-prefix'):
        case['esi'] = draw(gen.esi).hex()
    if what in ('evpn-mac', 'evpn-ead', 'evpn-multicast', 'evpn-prefix'):
        case['etag'] = draw(gen.u32)
    if what in ('evpn-mac', 'evpn-ead', 'evpn-prefix'):
        case['labels'] = [draw(st.one_of(st.sampled_from([16, 1048575]), st.integers(16, 2**20 - 1)))]
    if what == 'evpn-mac':
        case['mac'] = draw(gen.blob(6, 6)).hex()
        case['ip'] = draw(st.one_of(st.just(b''), addr)).hex()
    elif what == 'vpls':
        case.update(endpoint=draw(gen.u16), offset=draw(gen.u16), size=draw(st.integers(0, 255)), base=draw(st.integers(0, 2**20 - 256)))
    else:
        case['ip'] = draw(addr).hex()
    if what == 'evpn-prefix':
        case['gw'] = draw(addr).hex()
        case['iplen'] = draw(st.integers(0, full))
    if what == 'sr-policy':
        case.update(distinguisher=draw(gen.u32), color=draw(gen.u32))
    if what.startswith('mvpn'):
        case['group'] = draw(addr).hex()
        if what != 'mvpn-sourcead':
            case['source_as'] = draw(gen.u32)
    if what == 'mup-isd':
        case['iplen'] = draw(st.integers(0, full))
    if what in ('inet', 'label', 'ipvpn'):
        bits = draw(st.integers(0, full))
        n = int.from_bytes(bytes.fromhex(case['ip']), 'big')
        n &= ((1 << full) - 1) ^ ((1 << (full - bits)) - 1)
        case['ip'] = n.to_bytes(full // 8, 'big').hex()
        case['iplen'] = bits
        if what == 'inet':
            case['safi'] = draw(st.sampled_from([1, 1, 2]))
        else:
            case['labels'] = draw(st.lists(st.integers(16, 2**20 - 1), min_size=1, max_size=2))
        if draw(st.booleans()):
            case['path_id'] = draw(gen.u32)
        case['addpath'] = draw(st.booleans())
    return case


# ---------------------------------------------------------------------------- AS paths built from segments, over both AS widths


def check_aspath(case: dict) -> dict:
    """a path made with ASPath.make_aspath (all four segment types, AS numbers on both sides of 65535) is written for the session
    (AS_PATH alone, or AS_PATH with AS_TRANS + AS4_PATH for a 2-byte peer) and read back through AttributeCollection.unpack,
    which is where RFC 6793 4.2.3 puts the two halves together: the path, its text and its JSON must come back, and re-encode alike"""
    exa.reset_global_state()
    from exabgp.bgp.message.open.asn import ASN
    from exabgp.bgp.message.update.attribute.aspath import AS2Path, CONFED_SEQUENCE, CONFED_SET, SEQUENCE, SET

    kinds = {1: SET, 2: SEQUENCE, 3: CONFED_SEQUENCE, 4: CONFED_SET}
    asn4 = bool(case['asn4'])
    _conf, _neighbor, neg = session('plain' if asn4 else 'asn2')
    segments = [kinds[t]([ASN(a) for a in asns]) for t, asns in case['segments']]
    what = f'as-path {case["segments"]} asn4={asn4}'
    try:
        original = AS2Path.make_aspath(segments, asn4=True)
        wire = bytes(original.pack_attribute(neg))
    except Exception as exc:  # noqa: BLE001
        raise V(exception_signature('aspath:pack', exc), f'{exc!r} for {what}') from exc
    try:
        decoded = AttributeCollection.unpack(wire, neg)
        got = decoded[Attribute.CODE.AS_PATH]
    except Exception as exc:  # noqa: BLE001
        raise V(exception_signature('aspath:own-bytes-refused', exc), f'{exc!r} reading back {wire.hex()} written for {what}') from exc

    def shape(p):
        return [(seg.ID, [int(a) for a in seg]) for seg in p.aspath]

    if shape(got) != shape(original):
        raise V('aspath:round-trip-differs', f'{what}: wrote {wire.hex()}, read back {shape(got)}')
    for name, fn in (('text', lambda p: p.string()), ('json', lambda p: p.json())):
        if fn(got) != fn(original):
            raise V(f'aspath:{name}:changes-across-round-trip', f'{what}: {fn(original)[:200]} became {fn(got)[:200]}')
    again = bytes(got.pack_attribute(neg))
    if again != wire:
        raise V('aspath:repack-differs', f'{what}: wrote {wire.hex()}, what was read back packs as {again.hex()}')
    big = any(a > 65535 for _, asns in case['segments'] for a in asns)
    confed = any(t in (3, 4) for t, _ in case['segments'])
    classes = ['attr:2', 'aspath-from-segments', f'aspath:asn4:{asn4}'] + (['aspath:4-byte-asn'] if big else []) + (['aspath:confederation-segment'] if confed else [])
    if big and not asn4:
        classes.append('aspath:as4-path-written')
        if confed:
            classes.append('aspath:as4-path-written:confederation-segment')
    return {'nontrivial': bool(case['segments']), 'classes': classes}


@st.composite
def aspath_cases(draw):
    asn = st.one_of(st.sampled_from([1, 64512, 65535, 65536, 4200000001, 4294967295]), st.integers(1, 65535), st.integers(65536, 4294967295))
    n = draw(st.integers(1, 4))
    segments = []
    for i in range(n):
        # confederation segments lead a path (RFC 5065); sets and sequences follow in any order
        t = draw(st.sampled_from([3, 3, 4] if i == 0 and draw(st.integers(0, 2)) == 0 else [2, 2, 2, 1]))
        size = draw(st.sampled_from([1, 1, 2, 3, 5]))
        # RFC 6793 3: confederation segments never go into AS4_PATH, so a member AS above 65535 towards a 2-byte peer has no encoding
        segments.append([t, draw(st.lists(st.integers(1, 65535) if t in (3, 4) else asn, min_size=size, max_size=size))])
    return {'kind': 'aspath', 'segments': segments, 'asn4': draw(st.sampled_from([False, False, True]))}


# ---------------------------------------------------------------------------- histories: what was decoded before must not matter

_ISO: list = []
_ALONE: dict = {}
CACHED_CODES = [8, 16, 25, 32]  # the community types keep instance caches


def _iso():
    if not _ISO:
        from vlib.forkiso import ForkServer

        _ISO.append(ForkServer('vlib.c15_iso'))
    return _ISO[0]


def _item_key(item: dict) -> tuple:
    if item['kind'] == 'attr':
        return ('attr', item['code'], item['flags'], item['hex'], item['asn4'])
    return ('nlri', item['afi'], item['safi'], item['hex'], item['addpath'], item['action'])


def _item_tag(item: dict) -> str:
    return f'attr:{item["code"]}' if item['kind'] == 'attr' else fam_tag((item['afi'], item['safi']))


def check_history(case: dict) -> dict:
    """every item of every sequence, decoded after the ones before it in one process, must look exactly as it does decoded alone in a fresh one"""
    sequences = case['sequences']
    if len(_ALONE) > 50000:
        _ALONE.clear()
    need = [i for i in {_item_key(i): i for items in sequences for i in items}.values() if _item_key(i) not in _ALONE]
    answers = _iso().run([{'items': [i]} for i in need] + [{'items': items} for items in sequences])
    for i, a in zip(need, answers):
        _ALONE[_item_key(i)] = a[0]
    classes = {f'source:{case.get("source", "?")}', 'history'}
    accepted = set()
    for items, seq in zip(sequences, answers[len(need) :]):
        for n, item in enumerate(items):
            alone, here = _ALONE[_item_key(item)], seq[n]
            tag = _item_tag(item)
            if alone['outcome'] == 'ok':
                accepted.add(_item_key(item))
                classes.add(tag)
            for field in sorted(alone.keys() | here.keys()):
                if alone.get(field) != here.get(field):
                    raise V(
                        f'{tag}:history-dependent:{field}',
                        f'item {n} of {items} decoded alone in a fresh process gives {field}={str(alone.get(field))[:200]!r}, decoded in that order in one process gives {str(here.get(field))[:200]!r}',
                    )
        if any(items[n] == items[m] for n in range(len(items)) for m in range(n)):
            classes.add('history:value-repeated')
    if len(accepted) >= 2:
        classes.add('history:two-distinct-accepted-values')
    return {'nontrivial': len(accepted) >= 2, 'classes': sorted(classes)}


def _flip(item: dict, byte: int, bit: int) -> dict | None:
    raw = bytearray(bytes.fromhex(item['hex']))
    if not raw:
        return None
    raw[byte % len(raw)] ^= 1 << bit
    return dict(item, hex=bytes(raw).hex())


def _strip(case: dict) -> dict:
    keep = ('kind', 'code', 'flags', 'hex', 'asn4') if case['kind'] == 'attr' else ('kind', 'afi', 'safi', 'hex', 'addpath', 'action')
    return {k: case[k] for k in keep}


@st.composite
def history_cases(draw):
    if draw(st.integers(0, 9)) < 7:
        base = draw(attr_cases())
        if draw(st.booleans()):
            code = draw(st.sampled_from(CACHED_CODES))
            generator = gen.attr_generator(code, True)
            seeds = corpus.ATTR_SEEDS.get(code, [])
            if generator is not None and (not seeds or draw(st.booleans())):
                base = {'kind': 'attr', 'code': code, 'flags': ATTR_FLAG[code], 'hex': draw(generator).hex(), 'asn4': draw(st.booleans())}
            elif seeds:
                seed = draw(st.sampled_from(seeds))
                base = {'kind': 'attr', 'code': code, 'flags': seed['flags'], 'hex': seed['hex'], 'asn4': seed['asn4']}
    else:
        base = draw(nlri_cases())
    base = _strip(base)
    size = max(1, len(base['hex']) // 2)
    others = []
    for _ in range(draw(st.integers(1, 3))):
        how = draw(st.sampled_from(['bit', 'bit', 'bit', 'width', 'flags', 'family']))
        if how == 'family' and base['kind'] == 'nlri':
            # the same bytes read as the sibling family (IPv4 / IPv6 flavours of one decoder class share type codes, not meanings)
            siblings = SAME_CLASS.get((base['afi'], base['safi']), [])
            if siblings:
                g = draw(st.sampled_from(siblings))
                others.append(dict(base, afi=g[0], safi=g[1], addpath=base['addpath'] and g in gen.ADDPATH_FAMILIES))
            continue
        if how == 'width' and base['kind'] == 'attr':
            others.append(dict(base, asn4=not base['asn4']))
            continue
        if how == 'flags' and base['kind'] == 'attr' and base['flags'] & 0x80:
            others.append(dict(base, flags=base['flags'] ^ 0x20))
            continue
        byte = draw(st.one_of(st.sampled_from([0, 1, 2, 3]), st.integers(0, size - 1), st.integers(0, size // 4).map(lambda k: 4 * k), st.integers(0, size // 8).map(lambda k: 8 * k)))
        bit = draw(st.one_of(st.sampled_from([7, 6, 0]), st.integers(0, 7)))
        u = _flip(base, byte, bit)
        if u is not None:
            others.append(u)
    orders = {'vuv': [base] + others + [base], 'uv': others + [base], 'vu': [base] + others, 'vuuv': [base] + others + list(reversed(others)) + [base]}
    picked = draw(st.lists(st.sampled_from(sorted(orders)), min_size=1, max_size=2, unique=True))
    return {'kind': 'history', 'sequences': [orders[o] for o in picked], 'source': 'generated-history'}


def history_fixed_cases() -> list:
    """every attribute value of the qa vectors next to the values one type/flag bit away from it, in both orders"""
    cases = []

    def add(base: dict, source: str) -> None:
        us = [u for u in (_flip(base, byte, bit) for byte, bit in ((0, 7), (0, 6), (1, 0), (-1, 0))) if u is not None]
        if us:
            cases.append({'kind': 'history', 'sequences': [[base] + us + [base], us + [base] + us], 'source': source})

    for code in sorted(corpus.ATTR_SEEDS):
        if code in (14, 15):
            continue
        for seed in corpus.ATTR_SEEDS[code][: 8 if code in CACHED_CODES else 2]:
            add({'kind': 'attr', 'code': code, 'flags': seed['flags'], 'hex': seed['hex'], 'asn4': seed['asn4']}, 'seed-history')
    # one NLRI of every family that shares its decoder class with another family, read as each of them in turn
    for fam in FAMILIES:
        for seed in [e for e in SINGLES.get(fam, []) if not e['addpath']][:3]:
            for g in SAME_CLASS.get(fam, []):
                a = {'kind': 'nlri', 'afi': fam[0], 'safi': fam[1], 'hex': seed['hex'], 'addpath': False, 'action': seed['action']}
                b = dict(a, afi=g[0], safi=g[1])
                cases.append({'kind': 'history', 'sequences': [[a, b, a], [b, a, b]], 'source': 'family-history'})
    # FlowSpec component types mean different things per family (3: protocol / next-header, 11: dscp / traffic-class)
    for raw in ('03038106', '030b812e', '0603810607812e', '05038106' + '0b812e'):
        for fams in (((1, 133), (2, 133)), ((1, 134), (2, 134))):
            hexes = raw if fams[0][1] == 133 else None
            if hexes is None:
                continue
            a = {'kind': 'nlri', 'afi': fams[0][0], 'safi': fams[0][1], 'hex': hexes, 'addpath': False, 'action': 'announce'}
            b = dict(a, afi=fams[1][0], safi=fams[1][1])
            cases.append({'kind': 'history', 'sequences': [[a, b, a], [b, a, b]], 'source': 'family-history'})
    for raw in ('0002fde800000064', '0102c0a8000100c8', '0202000fde800064', '030c000000000000', '800600007fc00000'):
        base = {'kind': 'attr', 'code': 16, 'flags': 0xC0, 'hex': raw, 'asn4': True}
        add(base, 'pinned-history')
        for bit in (7, 6):
            u = _flip(base, 0, bit)
            cases.append({'kind': 'history', 'sequences': [[{**base, 'hex': base['hex'] + u['hex']}, {**base, 'hex': u['hex'] + base['hex']}]], 'source': 'pinned-history'})
    return cases


def check(case: dict) -> dict:
    try:
        return _dispatch(case)
    except Violation as v:
        labels = (case.get('route') or {}).get('labels') or []
        if case.get('kind') == 'text' and len(labels) >= 2 and labels[0] in (0, 524288) and not v.signature.endswith('first-label-0-ends-the-stack'):
            # the listed root cause (a first label of 0 or 524288 is taken for an RFC 3107 marker that ends the stack), met through a whole route
            klass = 'IPVPNBase' if case['route'].get('safi') == 128 else 'INETBase'
            raise V(f'nlri:{klass}.unpack_nlri:first-label-0-ends-the-stack', f'{v.message} [law: {v.signature}]') from None
        raise


def _dispatch(case: dict) -> dict:
    kind = case['kind']
    if kind == 'nlri':
        return check_nlri(case)
    if kind == 'attr':
        return check_attr(case)
    if kind in ('conf', 'text', 'flow'):
        return check_route(case)
    if kind == 'message':
        return check_message(case)
    if kind == 'factory':
        return check_factory(case)
    if kind == 'history':
        return check_history(case)
    if kind == 'aspath':
        return check_aspath(case)
    raise RuntimeError(f'harness: unknown case kind {kind}')


# ---------------------------------------------------------------------------- corpora -> cases


def _split_singles() -> dict:
    """each seed field cut into single NLRIs with exabgp's own decoder (shapes the generator only; the laws re-decode)"""
    singles: dict = {}
    for fam, seeds in sorted(corpus.NLRI_SEEDS.items()):
        if fam not in FAMILY_CLASS:
            continue
        for seed in seeds:
            addpath = seed['addpath'] and fam in gen.ADDPATH_FAMILIES
            try:
                _c, _n, neg = session('addpath' if addpath else 'plain')
            except Exception:  # noqa: BLE001
                raise
            action = Action.WITHDRAW if seed['action'] == 'withdraw' else Action.ANNOUNCE
            data = bytes.fromhex(seed['hex'])
            for _ in range(16):
                if not data:
                    break
                got = try_unpack(fam, data, action, addpath, neg)
                if got is None:
                    break
                x = data[: len(data) - len(got[1])]
                data = got[1]
                entry = {'hex': x.hex(), 'addpath': addpath, 'action': seed['action'], 'source': seed['source'], 'encoder': seed['encoder']}
                bucket = singles.setdefault(fam, [])
                if not any(e['hex'] == entry['hex'] and e['addpath'] == addpath for e in bucket):
                    bucket.append(entry)
    # BGP-LS VPN and IPv6 FlowSpec VPN have no vector of their own: the plain family's NLRI with a route distinguisher put in
    rd8 = bytes.fromhex('0000fde800000001')
    for e in list(singles.get((16388, 71), [])):
        raw = bytes.fromhex(e['hex'])
        made = raw[:2] + struct.pack('!H', len(raw) - 4 + 8) + rd8 + raw[4:]
        singles.setdefault((16388, 72), []).append(dict(e, hex=made.hex(), source='derived:' + e['source'], encoder=False))
    for src, dst in (((2, 133), (2, 134)), ((1, 133), (1, 134))):
        for e in list(singles.get(src, [])):
            parts = gen.unframe(src, bytes.fromhex(e['hex']))
            made = gen.frame(dst, b'', rd8 + parts[1]) if parts else None
            if made:
                singles.setdefault(dst, []).append(dict(e, hex=made.hex(), source='derived:' + e['source'], encoder=False))
    return singles


SINGLES = _split_singles()
SAME_CLASS = {f: [g for g in FAMILIES if g != f and FAMILY_CLASS[g] is FAMILY_CLASS[f]] for f in FAMILIES}


def standard_variants(fam) -> list[dict]:
    out = [{'kind': 'rd', 'pos': 5, 'xor': 1}, {'kind': 'pathid', 'pos': 3, 'xor': 1}, {'kind': 'prefix'}, {'kind': 'prefix', 'pos': 1}, {'kind': 'prefix', 'pos': 7}, {'kind': 'label', 'xor': 0x10}]
    out += [{'kind': 'family', 'fam': list(g)} for g in SAME_CLASS.get(fam, [])]
    return out


def nlri_fixed_cases() -> list:
    # shapes the mutations keep finding: pinned so that every tier meets them whatever the seed
    cases = [
        {'kind': 'nlri', 'afi': 25, 'safi': 65, 'hex': '00120001c0a8c901007b000500010008029c4100', 'addpath': False, 'action': 'announce', 'source': 'pinned:vpls-longer-than-17', 'encoder': False},
        {'kind': 'nlri', 'afi': 16388, 'safi': 72, 'hex': '0103002f0000fde8000000010100000000000000040100001a020000040000fc13020100040000008b02030006192168251231', 'addpath': False, 'action': 'announce', 'source': 'pinned:bgp-ls-vpn-unknown-type', 'encoder': False},
    ]
    for fam, raw, variant in (
        ((25, 70), '0119000200000000000000000000000000000000000000000039d1', {'kind': 'byte', 'pos': 14, 'xor': 16}),  # EVPN type 1, one ESI bit
        ((25, 70), '0423000100004ec400ff00000000000000000000800000000000000000000000000000003c', {'kind': 'byte', 'pos': 12, 'xor': 4}),  # EVPN type 4, one ESI bit
        ((1, 85), '010004100000006400000064370a000001003039', {'kind': 'byte', 'pos': 12, 'xor': 4}),  # MUP type 2 session transformed, endpoint length
        ((16388, 71), '020300300200000000000002bc0100001a0200000400003e34020100040000000002030006010135000041010900051e0a860258', {'kind': 'family', 'fam': [16388, 72]}),
    ):
        cases.append({'kind': 'nlri', 'afi': fam[0], 'safi': fam[1], 'hex': raw, 'addpath': False, 'action': 'announce', 'source': 'pinned:pair', 'encoder': False, 'variants': [variant]})
    # families the vectors on disk do not reach: one hand-written NLRI each, so that no registered family depends on the random part
    for fam, raw in (((1, 2), '18e00001'), ((2, 2), '20ff0e0000'), ((2, 4), '3800064120010db8'), ((1, 132), '600000fde80002fde800000001'), ((1, 132), '00')):
        cases.append({'kind': 'nlri', 'afi': fam[0], 'safi': fam[1], 'hex': raw, 'addpath': False, 'action': 'announce', 'source': 'pinned:hand-written', 'encoder': False, 'variants': standard_variants(fam)})
    for fam in FAMILIES:
        for seed in corpus.NLRI_SEEDS.get(fam, []):
            cases.append({'kind': 'nlri', 'afi': fam[0], 'safi': fam[1], 'hex': seed['hex'], 'addpath': seed['addpath'], 'action': seed['action'], 'source': seed['source'], 'encoder': seed['encoder']})
        for e in SINGLES.get(fam, []):
            variants = standard_variants(fam)
            raw = bytes.fromhex(e['hex'])
            variants += [{'kind': 'byte', 'pos': p, 'xor': 1 << (p % 8)} for p in range(0, len(raw), max(1, len(raw) // 12))]
            cases.append({'kind': 'nlri', 'afi': fam[0], 'safi': fam[1], 'hex': e['hex'], 'addpath': e['addpath'], 'action': e['action'], 'source': e['source'], 'encoder': e['encoder'], 'variants': variants})
    return cases


def attr_fixed_cases() -> list:
    cases = [
        {'kind': 'attr', 'code': 40, 'flags': 0xC0, 'hex': '0500220001001e8020010db8000200020000000000000000000018000c0006401810000000', 'asn4': True, 'source': 'pinned:srv6-unknown-sub-sub-tlv', 'encoder': False},
        {'kind': 'attr', 'code': 23, 'flags': 0xC0, 'hex': '000f00240c050000000000640d06100005dc01008000110009060000000000010106000003e81100', 'asn4': True, 'source': 'pinned:sr-policy-unknown-sub-tlv', 'encoder': False},
        {'kind': 'attr', 'code': 16, 'flags': 0xC0, 'hex': '800600007fc00000', 'asn4': True, 'source': 'pinned:traffic-rate-nan', 'encoder': False},
        # (an AS_PATH with an empty segment, value 0100, is not canonical input - RFC 7606 calls it malformed - and is not pinned: acceptance of malformed attributes is C08's subject)
    ]
    # attribute codes the vectors on disk do not reach
    for code, flags, raw, asn4 in (
        (17, 0xC0, '02020000fde800010000', False),
        (18, 0xC0, '0001000001020304', False),
        (22, 0xC0, '000600064001020304', True),
        (22, 0xC0, '0000000000', True),
        (26, 0x80, '01000b0000000000000064', True),
        (25, 0xC0, '000220010db80000000000000000000000010064', True),
        (7, 0xC0, 'fde801020304', False),
        (2, 0x40, '0202fde80001', False),
    ):
        cases.append({'kind': 'attr', 'code': code, 'flags': flags, 'hex': raw, 'asn4': asn4, 'source': 'pinned:hand-written', 'encoder': False})
    for code in sorted(corpus.ATTR_SEEDS):
        for seed in corpus.ATTR_SEEDS[code]:
            cases.append({'kind': 'attr', 'code': code, 'flags': seed['flags'], 'hex': seed['hex'], 'asn4': seed['asn4'], 'source': seed['source'], 'encoder': seed['encoder']})
    return cases


def _flow_of_size(total: int, v6: bool, rd: bool) -> dict:
    """a flow rule whose NLRI value (route distinguisher, destination, destination-port tests) is exactly `total` octets"""
    base = (7 if v6 else 5) + (8 if rd else 0) + 1
    room = total - base
    two = {0: 0, 2: 1, 1: 2}[room % 3]  # room = 3 * three + 2 * two
    three = (room - 2 * two) // 3
    ports = [1000 + i for i in range(three)] + [10 + i for i in range(two)]
    case = {'kind': 'flow', 'dest': '2001:db8::/32' if v6 else '10.0.0.0/24', 'ports': ports, 'session': 'plain'}
    if rd:
        case['rd'] = '65000:1'
    return case


def route_fixed_cases() -> list:
    cases = [_flow_of_size(total, v6, rd) for total in (238, 239, 240, 241, 242, 255, 256, 257, 4094, 4095) for v6 in (False, True) for rd in (False, True)]
    cases += [
        {'kind': 'flow', 'dest': '10.0.0.0/24', 'ports': list(range(1000, 1070)), 'session': 'plain'},
        {'kind': 'flow', 'dest': '10.0.0.0/24', 'ports': list(range(1000, 1080)), 'session': 'plain'},  # 4 + 3 * 80 = 244 bytes: the two-byte length form
        {'kind': 'flow', 'dest': '10.0.0.0/24', 'ports': list(range(1000, 1130)), 'session': 'plain'},  # 394 bytes
        {'kind': 'text', 'route': {'afi': 1, 'safi': 1, 'prefix': '10.0.0.0/24', 'form': 'route', 'nexthop': '10.9.8.7', 'attrs': {'as_path': [[2, [65000, 1]]]}}, 'session': 'asn2'},
        {'kind': 'text', 'route': {'afi': 1, 'safi': 1, 'prefix': '10.0.0.0/24', 'form': 'route', 'nexthop': '10.9.8.7', 'attrs': {'aggregator': [65536, '1.2.3.4']}}, 'session': 'asn2'},
        {'kind': 'text', 'route': {'afi': 1, 'safi': 1, 'prefix': '10.0.0.0/24', 'form': 'route', 'nexthop': '10.9.8.7', 'attrs': {'aggregator': [65536, '1.2.3.4'], 'originator': '1.2.3.4'}}, 'session': 'asn2'},
        {'kind': 'text', 'route': {'afi': 1, 'safi': 4, 'prefix': '10.0.0.0/24', 'form': 'route', 'labels': [0, 100], 'nexthop': '10.9.8.7', 'attrs': {}}, 'session': 'plain'},
        {'kind': 'text', 'route': {'afi': 1, 'safi': 128, 'prefix': '10.0.0.0/24', 'form': 'route', 'labels': [0, 100], 'rd': ['asn2', 65000, 1], 'nexthop': '10.9.8.7', 'attrs': {}}, 'session': 'plain'},
    ]
    for name in corpus.CONF_FILES:
        for i in range(len(conf_routes(name))):
            cases.append({'kind': 'conf', 'file': name, 'index': i, 'session': 'plain'})
            cases.append({'kind': 'conf', 'file': name, 'index': i, 'session': 'addpath'})
    return cases


def message_fixed_cases() -> list:
    return [dict(m, kind='message') for m in corpus.MESSAGES]


# ---------------------------------------------------------------------------- strategies


@st.composite
def variants(draw, fam):
    out = []
    for _ in range(draw(st.integers(1, 3))):
        kind = draw(st.sampled_from(['rd', 'pathid', 'prefix', 'label', 'byte', 'byte', 'byte', 'family']))
        v = {'kind': kind, 'pos': draw(st.integers(0, 63)), 'xor': draw(st.sampled_from([1, 2, 4, 8, 16, 32, 64, 128, 255]))}
        if kind == 'family':
            if not SAME_CLASS.get(fam):
                continue
            v['fam'] = list(draw(st.sampled_from(SAME_CLASS[fam])))
        out.append(v)
    return out


@st.composite
def nlri_cases(draw):
    fam = draw(st.sampled_from(FAMILIES))
    addpath = fam in gen.ADDPATH_FAMILIES and draw(st.booleans())
    seeds = [e for e in SINGLES.get(fam, []) if e['addpath'] == addpath]
    generator = gen.nlri_generator(fam, addpath)
    how = draw(st.sampled_from(['generate', 'generate', 'mutate', 'mutate', 'seed']))
    if how == 'generate' and generator is None:
        how = 'mutate'
    if how != 'generate' and not seeds:
        how = 'generate' if generator is not None else None
    action = draw(st.sampled_from(['announce', 'announce', 'withdraw']))
    if how is None:
        raw, source, encoder = b'', 'none', False
    elif how == 'generate':
        raw, source, encoder = draw(generator), 'generated', False
        if draw(st.integers(0, 3)) == 0:
            raw, source = draw(gen.mutate(raw, None if fam in gen.IP_FAMILIES else fam)), 'generated-mutated'
    else:
        seed = draw(st.sampled_from(seeds))
        raw, source, encoder, action = bytes.fromhex(seed['hex']), 'seed:' + seed['source'], seed['encoder'], seed['action']
        if how == 'mutate':
            raw, source, encoder = draw(gen.mutate(raw, None if fam in gen.IP_FAMILIES else fam)), 'mutated:' + seed['source'], False
    if draw(st.integers(0, 5)) == 0 and how == 'generate':
        # several NLRIs in one field
        more = draw(generator)
        raw = raw + more
    return {'kind': 'nlri', 'afi': fam[0], 'safi': fam[1], 'hex': raw.hex(), 'addpath': addpath, 'action': action, 'source': source, 'encoder': encoder, 'variants': draw(variants(fam))}


@st.composite
def attr_cases(draw):
    code = draw(st.sampled_from([c for c in ATTR_CODES if c not in (14, 15)]))
    asn4 = draw(st.sampled_from([True, True, False]))
    seeds = corpus.ATTR_SEEDS.get(code, [])
    generator = gen.attr_generator(code, asn4)
    how = draw(st.sampled_from(['generate', 'generate', 'mutate', 'seed']))
    if how == 'generate' and generator is None:
        how = 'mutate'
    if how != 'generate' and not seeds:
        how = 'generate' if generator is not None else None
    flags = ATTR_FLAG[code]
    if how is None:
        value, source, encoder = b'', 'none', False
    elif how == 'generate':
        value, source, encoder = draw(generator), 'generated', False
        if draw(st.integers(0, 3)) == 0:
            value, source = draw(gen.mutate(value)), 'generated-mutated'
    else:
        seed = draw(st.sampled_from(seeds))
        value, source, encoder, flags, asn4 = bytes.fromhex(seed['hex']), 'seed:' + seed['source'], seed['encoder'], seed['flags'], seed['asn4']
        if how == 'mutate':
            value, source, encoder = draw(gen.mutate(value)), 'mutated:' + seed['source'], False
    if flags & 0x80 and draw(st.integers(0, 7)) == 0:
        flags |= 0x20  # PARTIAL on an optional attribute is legal on the wire
    return {'kind': 'attr', 'code': code, 'flags': flags, 'hex': value.hex(), 'asn4': asn4, 'source': source, 'encoder': encoder}


@st.composite
def flow_cases(draw):
    n = draw(st.sampled_from([1, 2, 5, 40, 79, 80, 85, 86, 120, 127, 128, 200]))
    ports = draw(st.lists(st.one_of(st.integers(1, 255), st.integers(256, 65535)), min_size=n, max_size=n))
    v6 = draw(st.integers(0, 3)) == 0
    case = {'kind': 'flow', 'dest': '2001:db8::/32' if v6 else '10.0.0.0/24', 'ports': ports, 'session': 'plain'}
    if draw(st.integers(0, 3)) == 0:
        case['rd'] = '65000:1'
    return case


@st.composite
def text_cases(draw):
    if draw(st.integers(0, 9)) == 0:
        return draw(flow_cases())
    rec = draw(textgen.routes(rich=True))
    if rec['afi'] == 1 and rec['nexthop'] != 'self' and ':' in rec['nexthop']:
        rec['nexthop'] = '10.9.8.7'  # an IPv6 next hop for IPv4 NLRI needs RFC 8950, which is not what is measured here
    if rec['nexthop'] == 'self':
        rec['nexthop'] = '10.9.8.7' if rec['afi'] == 1 else '2001:db8::7'
    rec['attrs'].pop('generic', None)
    sess = draw(st.sampled_from(['plain', 'addpath', 'asn2']))
    return {'kind': 'text', 'route': rec, 'session': sess}


ENGINES = [
    Engine('nlri-seeds', None, check, quick=0, thorough=0, fixed_cases=nlri_fixed_cases),
    Engine('attr-seeds', None, check, quick=0, thorough=0, fixed_cases=attr_fixed_cases),
    Engine('conf-routes', None, check, quick=0, thorough=0, fixed_cases=route_fixed_cases),
    Engine('messages', None, check, quick=0, thorough=0, fixed_cases=message_fixed_cases),
    Engine('nlri', nlri_cases, check, quick=1500, thorough=40000, batch=500),
    Engine('attr', attr_cases, check, quick=900, thorough=25000, batch=450),
    Engine('text', text_cases, check, quick=250, thorough=6000, batch=125),
    Engine('factory', factory_cases, check, quick=400, thorough=10000, batch=200),
    Engine('aspath', aspath_cases, check, quick=300, thorough=8000, batch=150),
    Engine('history', history_cases, check, quick=50, thorough=4000, batch=50, fixed_cases=history_fixed_cases),
]


# ---------------------------------------------------------------------------- evidence


def extra_coverage(merged) -> dict:
    classes = merged.classes
    per_type = {}
    missing = []
    for fam in FAMILIES:
        label = fam_tag(fam)
        per_type[label] = classes.get(label, 0)
        if not classes.get(label):
            missing.append(label)
    for code in ATTR_CODES:
        label = f'attr:{code}'
        per_type[label] = classes.get(label, 0)
        if not classes.get(label):
            missing.append(label)
    # a type whose every case breaks a law has no passing case to count: name it from the failing cases instead
    failing = set()
    for v in getattr(merged, 'violations', []):
        case = v.get('case') or {}
        if case.get('kind') == 'nlri':
            failing.add(f'nlri:{case["afi"]}/{case["safi"]}')
        elif case.get('kind') == 'attr':
            failing.add(f'attr:{case["code"]}')
    return {
        'registered_but_met_only_in_failing_cases': sorted(m for m in missing if m in failing),
        'registered_families': [list(f) for f in FAMILIES],
        'registered_attribute_codes': ATTR_CODES,
        'cases_per_registered_type': per_type,
        'registered_but_not_exercised': sorted(m for m in missing if m not in failing),
    }
