"""C04 - Adj-RIB-Out converges: the peer ends up with exactly the routes ExaBGP reports"""

from __future__ import annotations

import fnmatch
import json
import os

from hypothesis import strategies as st

from vlib import exa
from vlib.refwire import build, codec
from vlib.runner import Engine, Violation, exception_signature

PROPERTY = 'C04'
RULE = (
    'history = list of <= 50 operations over a small universe (6 prefixes in IPv4 unicast / IPv6 unicast / IPv4 labeled, 4 attribute sets, 3 next hops, 2 labels, '
    '2 path-ids on ADD-PATH sessions, 2 watchdog names): announce (the API call chain), announce of a configured watchdog route (add_to_rib_watchdog, optionally initially withdrawn), '
    'withdraw (bare / with next hop / with attributes), announce_watchdog, withdraw_watchdog, resend (plain or enhanced, one family or all), clear (rib.withdraw()), '
    'begin (create the generator the way Peer._send_route_updates / Protocol.new_update_generator do: only when none is open and pending(); include_withdraw False for the first one of a session), '
    'step n (send n wire messages), finish. Operations interleave freely with an open generator (schedule quantifier). Session: ADD-PATH on/off, group-updates on/off, first generator of the session or not, and one in five without Adj-RIB-Out (announce / withdraw / flush operations only, clause 2 only). '
    'Every wire message is applied in order by an independent model peer. At every quiescent point (no generator, pending() false) and after the final drain: '
    '(1) the model table equals the table derived from cached_routes() (each cached route encoded alone and decoded by refwire: same keys, attributes, next hop, label); '
    '(2) the model table equals what the last operation on every key asked for (no stale announce survives, nothing withdrawn is back). In between: nothing in the model table that was never requested. '
    'Non-trivial = a key announced with >= 2 different attribute sets, or an announce after a withdraw of the same key inside one flush window, or a RIB operation executed while a generator was open'
)
ASSUMPTIONS = [
    'refwire decoder is trusted; the label is not part of the route identity (RFC 8277), it is compared as part of the value',
    'minimality of the UPDATE stream is not demanded (duplicates are fine); ordering between different prefixes is not demanded',
    'ROUTE-REFRESH (BoRR/EoRR) messages, End-of-RIB markers and UPDATEs without NLRI are ignored by the model peer',
    'a generator is only created when none is open and pending() is true, as Peer._send_route_updates does; the first generator of a session runs with include_withdraw=False and the peer table is empty then',
    'watchdog-tagged routes enter through add_to_rib_watchdog (configuration load / reload path); plain announces and withdraws go through Configuration.announce_route / withdraw_route (API path)',
    'what an operation asks for (clause 2): announce sets the key, withdraw and clear remove it, announce_watchdog announces every route of the group which is down, '
    'withdraw_watchdog withdraws the prefix of every route of the group which is up (whoever announced it last); the value of an announce is that route encoded alone by exabgp (C01 decides that encoding)',
    'the signature names the root cause with the help of two diagnoses which do not take part in the verdict: a look at the announce queues when a snapshot is taken '
    '(a superseded announce still queued) and which withdraws a generator running with include_withdraw=False left out',
    'environment variable C04_EXCLUDE (comma separated fnmatch patterns) mutes listed signatures; it is used only by sensitivity runs to look behind already reported root causes',
]

# ------------------------------------------------------------------------------------------------ universe

PREFIXES = [
    ('10.0.0.0/24', 1, 1),
    ('10.0.1.0/24', 1, 1),
    ('2001:db8:1::/48', 2, 1),
    ('2001:db8:2::/48', 2, 1),
    ('10.4.0.0/24', 1, 4),
    ('10.5.0.0/16', 1, 4),
]
ATTRS = ['med 1', 'med 2', 'med 1 community [ 65000:1 ]', 'as-path [ 65001 65002 ] med 1']
NH4 = ['10.9.9.1', '10.9.9.2', 'self']
NH6 = ['2001:db8:ffff::1', '2001:db8:ffff::2', '2001:db8:ffff::3']
LABELS = [100, 200]
WATCHDOGS = ['wa', 'wb']
FAMILIES = [(1, 1), (2, 1), (1, 4)]
FAMILY_TEXT = {(1, 1): 'ipv4 unicast', (2, 1): 'ipv6 unicast', (1, 4): 'ipv4 nlri-mpls'}
LOCAL_IP = '127.0.0.1'

MUTATING = {'announce', 'announce_wd', 'withdraw', 'announce_watchdog', 'withdraw_watchdog', 'resend', 'clear'}


def excluded(signature: str) -> bool:
    pats = [p for p in os.environ.get('C04_EXCLUDE', '').split(',') if p]
    return any(fnmatch.fnmatchcase(signature, p) for p in pats)


# ------------------------------------------------------------------------------------------------ session

_NEIGHBORS: dict = {}


def neighbor_for(session: dict):
    """one real Neighbor per (addpath, group) - RIB objects are shared process-wide by neighbor name"""
    key = (bool(session['addpath']), bool(session['group']), bool(session.get('cache', True)))
    if key not in _NEIGHBORS:
        fams = [FAMILY_TEXT[f] for f in FAMILIES]
        idx = 1 + int(key[0]) * 2 + int(key[1]) + (0 if key[2] else 4)
        text = exa.neighbor_text(
            peer_ip=f'127.4.0.{idx}',
            local_ip=LOCAL_IP,
            local_as=65000,
            peer_as=65000,
            families=fams,
            # no Adj-RIB-Out is only kept off with route-refresh off (the configuration turns it back on otherwise)
            capability={'asn4': 'enable', 'route-refresh': 'enable' if key[2] else 'disable', 'add-path': 'send/receive' if key[0] else 'disable'},
            addpath_families=fams if key[0] else None,
            extra=f'  adj-rib-out {"true" if key[2] else "false"};\n  group-updates {"true" if key[1] else "false"};',
        )
        conf, neighbor = exa.neighbor_from_text(text)
        caps = [build.cap_mp(a, s) for a, s in FAMILIES] + [build.cap_asn4(65000), build.cap_refresh(), build.cap_erefresh()]
        if key[0]:
            caps.append(build.cap_addpath([(a, s, 3) for a, s in FAMILIES]))
        neg = exa.negotiate(neighbor, build.open_with_caps(65000, 90, 0x0A000002, caps), exa.Direction.IN)  # the daemon makes its one Negotiated per session with Direction.IN (reactor/protocol.py) and encodes with it
        if bool(neighbor.group_updates) != key[1] or bool(neighbor.adj_rib_out) != key[2]:
            raise RuntimeError('harness: neighbor options not applied')
        for fam in FAMILIES:
            if bool(neg.addpath.send(*_family(fam))) != key[0]:
                raise RuntimeError(f'harness: add-path negotiation for {fam} is not {key[0]}')
        _NEIGHBORS[key] = (conf, neighbor, neg)
    return _NEIGHBORS[key]


def _family(fam):
    from exabgp.protocol.family import AFI, SAFI

    return AFI.from_int(fam[0]), SAFI.from_int(fam[1])


# ------------------------------------------------------------------------------------------------ model peer


def route_key(e: dict) -> tuple:
    # RFC 8277 2.4: the label is not part of the identity of a route
    return (e['afi'], e['safi'], e.get('path_id'), e['prefix'], e.get('rd'))


class ModelPeer:
    """what a receiving speaker holds after applying the UPDATEs in order (RFC 4271 4.3 / 9, RFC 4760)"""

    def __init__(self, addpath: bool) -> None:
        self.addpath = lambda afi, safi: addpath
        self.table: dict[tuple, dict] = {}
        self.announces = 0
        self.withdraws = 0

    def apply_message(self, msg: bytes) -> str:
        if len(msg) < 19 or msg[:16] != codec.MARKER or int.from_bytes(msg[16:18], 'big') != len(msg):
            raise Violation('wire:bad-header', msg[:19].hex())
        if msg[18] == codec.ROUTE_REFRESH:
            return 'refresh'
        if msg[18] != codec.UPDATE:
            raise Violation('wire:unexpected-message-type', f'type {msg[18]}')
        body = msg[19:]
        if codec.is_eor(body):
            return 'eor'
        try:
            u = codec.decode_update(body, True, self.addpath)
        except codec.Malformed as exc:
            raise Violation('wire:undecodable', f'{exc}: {msg.hex()}') from None
        view = codec.PeerTable.attr_view(u['attrs'])
        withdrawn = list(u['withdrawn'])
        if codec.MP_UNREACH in u['attrs']:
            withdrawn += u['attrs'][codec.MP_UNREACH].get('nlri', [])
        for e in withdrawn:
            self.table.pop(route_key(e), None)
            self.withdraws += 1
        # same prefix in both: the announce wins, which applying the announces last gives
        for e in u['nlri']:
            attrs = {k: v for k, v in view.items() if k != codec.NEXT_HOP}
            self.table[route_key(e)] = {'attrs': attrs, 'nexthop': u['attrs'].get(codec.NEXT_HOP), 'labels': None}
            self.announces += 1
        if codec.MP_REACH in u['attrs']:
            mp = u['attrs'][codec.MP_REACH]
            attrs = {k: v for k, v in view.items() if k != codec.NEXT_HOP}
            for e in mp.get('nlri', []):
                self.table[route_key(e)] = {'attrs': attrs, 'nexthop': mp['nexthop'][0] if mp.get('nexthop') else None, 'labels': e.get('labels')}
                self.announces += 1
        return 'update'


def canon(value: dict) -> str:
    return json.dumps(value, sort_keys=True, default=str)


# ------------------------------------------------------------------------------------------------ driver


class Driver:
    def __init__(self, session: dict) -> None:
        from exabgp.rib.outgoing import OutgoingRIB

        self.session = session
        self.addpath = bool(session['addpath'])
        self.conf, self.neighbor, self.neg = neighbor_for(session)
        # a fresh Adj-RIB-Out built the way RIB.__init__ builds it (the old one also keeps watchdog state across clear())
        self.neighbor.rib.outgoing = OutgoingRIB(self.neighbor.adj_rib_out, set(self.neighbor.families()))
        self.rib = self.neighbor.rib.outgoing
        self.peers = [self.neighbor.name()]
        self.model = ModelPeer(self.addpath)
        self.generator = None
        self.include_withdraw = not session['first']
        self.sent: list[str] = []
        self.requested: dict[tuple, set] = {}  # key -> canonical values ever requested
        self._single: dict[int, tuple] = {}  # id(route) -> (route, key, value)
        self.window = 0
        self.window_withdrawn: set = set()
        self.superseded: set = set()  # keys with a superseded announce still queued at a snapshot since the last passed comparison
        self.dropped_withdraws: set = set()  # keys whose withdraw a generator running with include_withdraw=False left out
        self.classes: set[str] = set()
        self.nontrivial = False
        self.attr_sets: dict[tuple, set] = {}
        self.intended: dict[tuple, dict] = {}  # last announce / withdraw of a key decides (history clause)
        self.groups: dict[str, dict[str, dict]] = {}  # watchdog name -> '+' / '-' -> key -> value
        self.dirty = False
        self.comparisons = 0
        self.configured: list = []

    # ---- routes

    def path_info(self, pid: int) -> str:
        return f' path-information 0.0.0.{pid + 1}' if self.addpath else ''

    def key_of(self, p: int, pid: int) -> tuple:
        prefix, afi, safi = PREFIXES[p]
        return (afi, safi, (pid + 1) if self.addpath else None, prefix, None)

    def announce_text(self, p: int, a: int, nh: int, pid: int, label: int, watchdog: str | None = None, withdrawn: bool = False) -> str:
        prefix, afi, safi = PREFIXES[p]
        hop = (NH4 if afi == 1 else NH6)[nh]
        text = f'route {prefix} next-hop {hop}'
        if safi == 4:
            text += f' label {LABELS[label]}'
        text += self.path_info(pid) + ' ' + ATTRS[a]
        if watchdog:
            text += f' watchdog {watchdog}'
            if withdrawn:
                text += ' withdraw'
        return text

    def withdraw_text(self, p: int, pid: int, variant: int, label: int) -> str:
        prefix, afi, safi = PREFIXES[p]
        text = f'route {prefix}'
        if variant >= 1:
            text += f' next-hop {(NH4 if afi == 1 else NH6)[0]}'
        if safi == 4:
            text += f' label {LABELS[label]}'
        text += self.path_info(pid)
        if variant >= 2:
            text += ' ' + ATTRS[0]
        return text

    def parse(self, text: str, action: str):
        try:
            routes = self.conf.parse_route_text(text, action)
        except Exception as exc:  # noqa: BLE001
            raise Violation(exception_signature('parse', exc), f'{exc!r} for "{text}"') from exc
        if len(routes) != 1:
            raise RuntimeError(f'harness: "{text}" parsed to {len(routes)} routes: {self.conf.error}')
        return routes[0]

    def single(self, route) -> tuple:
        """(key, value) of one route: encoded on its own and decoded by refwire"""
        from exabgp.bgp.message.update.collection import RoutedNLRI, UpdateCollection

        hit = self._single.get(id(route))
        if hit is not None and hit[0] is route:
            return hit[1], hit[2]
        try:
            msgs = [bytes(m) for m in UpdateCollection([RoutedNLRI(route.nlri, route.nexthop)], [], route.attributes).messages(self.neg)]
        except Exception as exc:  # noqa: BLE001
            raise Violation(exception_signature('encode-single', exc), f'{exc!r} for {route!r}') from exc
        peer = ModelPeer(self.addpath)
        for m in msgs:
            peer.apply_message(m)
        if len(peer.table) != 1:
            raise Violation('encode-single:not-one-route', f'{len(peer.table)} routes on the wire for {route!r}')
        key, value = next(iter(peer.table.items()))
        self._single[id(route)] = (route, key, value)
        return key, value

    # ---- operations

    def call(self, what: str, fn, *args):
        try:
            return fn(*args)
        except Violation:
            raise
        except Exception as exc:  # noqa: BLE001
            raise Violation(exception_signature(f'rib:{what}', exc), repr(exc)[:300]) from exc

    def note_request(self, route, p: int, a: int, nh: int, pid: int) -> tuple:
        key, value = self.single(route)
        if key != self.key_of(p, pid):
            raise Violation('encode-single:wrong-key', f'{key} for {self.key_of(p, pid)}')
        self.requested.setdefault(key, set()).add(canon(value))
        return key, value

    def note_announce(self, key: tuple, a: int, nh: int) -> None:
        sets = self.attr_sets.setdefault(key, set())
        sets.add(a)
        if len(sets) >= 2:
            self.nontrivial = True
            self.classes.add('reannounced-other-attributes')
        if key in self.window_withdrawn:
            self.nontrivial = True
            self.classes.add('announce-after-withdraw-in-window')

    def op_announce(self, p, a, nh, pid, label) -> None:
        route = self.parse(self.announce_text(p, a, nh, pid, label), 'announce')
        resolved = self.call('resolve_self', self.neighbor.resolve_self, route)
        key, value = self.note_request(resolved, p, a, nh, pid)
        # the API chain: announce_route() -> Configuration.announce_route() -> add_to_rib(neighbor.resolve_self(route))
        if not self.call('announce', self.conf.announce_route, self.peers, route):
            raise RuntimeError('harness: announce_route matched no neighbor')
        self.note_announce(key, a, nh)
        self.intended[key] = value
        if self.window == 0:
            # announced before anything was sent: these stand for the routes of the configuration file (Neighbor.routes),
            # which enter the Adj-RIB-Out the same way and are handed to replace_restart at every establishment
            self.configured.append(resolved)

    def op_announce_wd(self, p, a, nh, pid, label, w, withdrawn) -> None:
        route = self.parse(self.announce_text(p, a, nh, pid, label, WATCHDOGS[w], bool(withdrawn)), 'announce')
        # the configuration chain: _post_routes() resolve_self, _init_neighbor() resolve_self + add_to_rib_watchdog
        route = self.call('resolve_self', self.neighbor.resolve_self, route)
        key, value = self.note_request(route, p, a, nh, pid)
        if route.nlri.family().afi_safi() not in self.neighbor.families():
            raise RuntimeError('harness: family not configured')
        self.call('add_to_rib_watchdog', self.rib.add_to_rib_watchdog, route)
        self.classes.add('watchdog-route')
        group = self.groups.setdefault(WATCHDOGS[w], {'+': {}, '-': {}})
        if withdrawn:
            self.classes.add('watchdog-route-initially-withdrawn')
            group['-'][key] = (value, a, nh)
        else:
            group['+'][key] = (value, a, nh)
            self.note_announce(key, a, nh)
            self.intended[key] = value

    def op_announce_watchdog(self, w) -> None:
        self.call('announce_watchdog', self.rib.announce_watchdog, WATCHDOGS[w])
        self.classes.add('announce_watchdog')
        group = self.groups.get(WATCHDOGS[w])
        if group:
            # every route of the group which is down is announced
            for key, (value, a, nh) in list(group['-'].items()):
                self.note_announce(key, a, nh)
                self.intended[key] = value
                group['+'][key] = group['-'].pop(key)
                self.classes.add('announce_watchdog-effective')

    def op_withdraw_watchdog(self, w) -> None:
        self.call('withdraw_watchdog', self.rib.withdraw_watchdog, WATCHDOGS[w])
        self.classes.add('withdraw_watchdog')
        group = self.groups.get(WATCHDOGS[w])
        if group:
            # every route of the group which is up is withdrawn
            for key in list(group['+']):
                self.window_withdrawn.add(key)
                self.intended.pop(key, None)
                group['-'][key] = group['+'].pop(key)
                self.classes.add('withdraw_watchdog-effective')

    def op_withdraw(self, p, pid, variant, label) -> None:
        from exabgp.protocol.ip import IP

        route = self.parse(self.withdraw_text(p, pid, variant, label), 'withdraw')
        # the API chain: withdraw_route() -> Configuration.withdraw_route() -> del_from_rib(neighbor.resolve_self(route))
        if route.nexthop is IP.NoNextHop:
            route = route.with_nexthop(IP.from_string('0.0.0.0'))
        if not self.call('withdraw', self.conf.withdraw_route, self.peers, route):
            raise RuntimeError('harness: withdraw_route matched no neighbor')
        key = self.key_of(p, pid)
        self.window_withdrawn.add(key)
        self.intended.pop(key, None)
        self.classes.add(f'withdraw-variant-{variant}')

    def op_resend(self, enhanced, fam) -> None:
        family = None if fam is None else _family(FAMILIES[fam])
        # Peer.resend(enhanced, family) as called by the route-refresh handler and by `flush adj-rib out`
        self.call('resend', self.rib.resend, bool(enhanced), family)
        self.classes.add('resend-enhanced' if enhanced else 'resend')
        if fam is not None:
            self.classes.add('resend-one-family')

    def op_clear(self) -> None:
        # Reactor.neighbor_rib_out_withdraw
        self.call('clear', self.rib.withdraw)
        self.classes.add('clear')
        self.window_withdrawn.update(self.attr_sets)
        self.intended.clear()

    def op_session_loss(self) -> None:
        """(used by C11's rib-histories engine, never drawn for C04) the session is lost and established again: Peer._reset ->
        Neighbor.reset_rib -> RIB.reset, the open update generator dies with the Protocol, the remote forgets everything; at the next
        establishment Peer._main calls replace_restart(previous, configured routes) and the first generator runs without withdraws"""
        self.generator = None
        self.call('reset', self.neighbor.rib.reset)
        self.model.table.clear()
        self.call('replace_restart', self.rib.replace_restart, [], list(self.configured))
        self.include_withdraw = False
        self.superseded.clear()
        self.dropped_withdraws.clear()
        self.window_withdrawn = set()
        self.classes.add('session-loss')
        self.dirty = True

    # ---- transmission

    def wire(self):
        # Protocol.new_update_generator
        include_withdraw = self.include_withdraw
        updates = self.rib.updates(self.neighbor.group_updates, paths_limit=self.neg.paths_limit or None)
        for update in updates:
            if not include_withdraw and getattr(update, 'withdraws', None):
                # diagnosis only (names the root cause in the signature): which keys lose their withdraw here
                probe = ModelPeer(self.addpath)
                before = dict.fromkeys(self.requested, {})
                probe.table = dict(before)
                for message in update.messages(self.neg, True):
                    probe.apply_message(bytes(message))
                self.dropped_withdraws.update(set(before) - set(probe.table))
            for message in update.messages(self.neg, include_withdraw):
                yield bytes(message)

    def note_superseded(self) -> None:
        """diagnosis only (names the root cause in the signature, the oracle never looks here): which keys have an
        entry in the per-attribute announce queue that is not the route the per-route queue holds, when the snapshot is taken"""
        current = getattr(self.rib, '_new_nlri', {})
        for per_family in getattr(self.rib, '_new_attr_af_nlri', {}).values():
            for routes in per_family.values():
                for index, route in routes.items():
                    if current.get(index) is not route:
                        self.superseded.add(self.single(route)[0])
                        self.classes.add('superseded-in-window')

    def begin(self) -> bool:
        # Peer._send_route_updates: `if not new_routes and rib.outgoing.pending()`
        if self.generator is not None or not self.call('pending', self.rib.pending):
            return False
        self.note_superseded()
        self.generator = self.wire()
        self.window += 1
        self.window_withdrawn = set()
        if not self.include_withdraw:
            self.classes.add('first-generator-no-withdraw')
        self.classes.add('flush')
        # the reactor always runs the first __anext__ right after creating the generator (this takes the snapshot)
        self.step(1)
        return True

    def step(self, n: int) -> None:
        if self.generator is None:
            return
        for _ in range(n):
            try:
                msg = next(self.generator)
            except StopIteration:
                self.generator = None
                self.include_withdraw = True
                return
            except Violation:
                raise
            except Exception as exc:  # noqa: BLE001
                raise Violation(exception_signature('rib:updates', exc), repr(exc)[:300]) from exc
            self.dirty = True
            kind = self.model.apply_message(msg)
            if len(self.sent) < 400:
                self.sent.append(msg.hex())
            self.classes.add(f'wire-{kind}')
            self.check_no_invention()

    def finish(self) -> None:
        guard = 0
        while self.generator is not None:
            self.step(50)
            guard += 1
            if guard > 200:
                raise Violation('drain:generator-does-not-end', 'more than 10000 messages from one generator')

    # ---- oracle

    def check_no_invention(self) -> None:
        for key, value in self.model.table.items():
            asked = self.requested.get(key)
            if asked is None:
                self.fail('invented:route-never-announced', f'{key} is in the peer table, it was never announced')
            elif canon(value) not in asked:
                self.fail('invented:attributes-never-requested', f'{key} is in the peer table with {value}, never requested so')

    def fail(self, signature: str, message: str) -> None:
        if excluded(signature):
            return
        raise Violation(signature, message + f' | session {self.session}')

    def quiescent(self) -> bool:
        return self.generator is None and not self.call('pending', self.rib.pending)

    def compare(self, where: str) -> None:
        """at a quiescent point: the peer's table == the table derived from cached_routes() == what the last operation on every key asked for"""
        self.comparisons += 1
        expected: dict[tuple, dict] = {}
        for route in self.call('cached_routes', lambda: list(self.rib.cached_routes())):
            key, value = self.single(route)
            if key in expected:
                self.fail('adj-rib-out:two-routes-one-key', f'{key} twice in cached_routes()')
            expected[key] = value
        got = self.model.table
        problems = []

        def differs(g: dict, e: dict) -> str | None:
            if g['attrs'] != e['attrs']:
                return 'attributes'
            if g['nexthop'] != e['nexthop']:
                return 'nexthop'
            if g['labels'] != e['labels']:
                return 'label'
            return None

        # clause 1: the peer's table equals the Adj-RIB-Out ExaBGP reports (when one is kept)
        for key in sorted(set(got) | set(expected), key=str) if self.session.get('cache', True) else []:
            if key not in expected:
                problems.append(('converge:route-at-peer-not-in-adj-rib-out', key, f'peer holds {got[key]}, cached_routes() has no such route'))
            elif key not in got:
                problems.append(('converge:adj-rib-out-route-not-at-peer', key, f'cached_routes() has {expected[key]}, the peer holds nothing'))
            else:
                what = differs(got[key], expected[key])
                if what:
                    problems.append((f'converge:{what}-differ', key, f'peer holds {got[key]}, cached_routes() says {expected[key]}'))
        # clause 2: the last announce or withdraw of a key decides what the peer holds
        for key in sorted(set(got) | set(self.intended), key=str):
            if key not in self.intended:
                problems.append(('history:withdrawn-route-at-peer', key, f'peer holds {got[key]}, the last operation on the key was a withdraw'))
            elif key not in got:
                problems.append(('history:announced-route-not-at-peer', key, f'the last operation announced {self.intended[key]}, the peer holds nothing'))
            else:
                what = differs(got[key], self.intended[key])
                if what:
                    problems.append((f'history:stale-{what}-survive-reannounce', key, f'peer holds {got[key]}, the last announce said {self.intended[key]}'))
        for kind, key, text in problems:
            if key in self.superseded:
                # a superseded announce of this key was still queued when a snapshot was taken
                signature = 'converge:stale-announce-after-reannounce'
            elif key in self.dropped_withdraws and kind in ('converge:route-at-peer-not-in-adj-rib-out', 'history:withdrawn-route-at-peer'):
                signature = 'converge:withdraw-dropped-by-first-generator'
            else:
                signature = kind
            self.fail(signature, f'{where}: {key}: {text} | wire {self.sent[-12:]}')
        if not problems:
            self.superseded = set()
            self.dropped_withdraws = set()
        self.dirty = False

    def drain(self) -> None:
        for _ in range(6):
            self.finish()
            if not self.begin():
                break
        self.finish()
        if self.call('pending', self.rib.pending):
            raise Violation('drain:still-pending', 'pending() is still true after 6 complete flushes')


def check(case: dict) -> dict:
    exa.reset_global_state()
    d = Driver(case['session'])
    for op in case['ops']:
        name, args = op[0], op[1:]
        if name in MUTATING and d.generator is not None:
            d.nontrivial = True
            d.classes.add('op-while-generator-open')
            d.classes.add(f'open:{name}')
        if name == 'announce':
            d.op_announce(*args)
        elif name == 'announce_wd':
            d.op_announce_wd(*args)
        elif name == 'withdraw':
            d.op_withdraw(*args)
        elif name == 'announce_watchdog':
            d.op_announce_watchdog(*args)
        elif name == 'withdraw_watchdog':
            d.op_withdraw_watchdog(*args)
        elif name == 'resend':
            d.op_resend(*args)
        elif name == 'clear':
            d.op_clear()
        elif name == 'session_loss':
            if d.generator is not None:
                d.classes.add('session-loss-mid-generator')
                d.nontrivial = True
            d.op_session_loss()
        elif name == 'begin':
            d.begin()
        elif name == 'step':
            d.step(args[0])
        elif name == 'finish':
            d.finish()
        else:
            raise RuntimeError(f'harness: unknown operation {name}')
        if d.dirty and d.quiescent():
            d.classes.add('quiescent-mid-history')
            d.compare(f'after op {name}')
    d.drain()
    d.compare('after the final drain')
    if d.addpath:
        d.classes.add('addpath')
    if case['session']['group']:
        d.classes.add('group-updates')
    if not case['session'].get('cache', True):
        d.classes.add('no-adj-rib-out')
    if d.model.table:
        d.classes.add('final-table-not-empty')
    if d.model.withdraws:
        d.classes.add('wire-withdraw')
    sample = {'session': case['session'], 'ops': case['ops'][:12], 'messages': len(d.sent), 'final_routes': len(d.model.table), 'comparisons': d.comparisons}
    return {'nontrivial': d.nontrivial, 'classes': sorted(d.classes), 'sample': sample}


# ------------------------------------------------------------------------------------------------ generator

P = st.sampled_from([0, 0, 0, 1, 2, 2, 3, 4, 4, 5])
A = st.integers(0, len(ATTRS) - 1)
NH = st.sampled_from([0, 0, 1, 2])
PID = st.integers(0, 1)
LABEL = st.sampled_from([0, 0, 0, 1])
W = st.integers(0, 1)

OPS = st.one_of(
    st.tuples(st.just('announce'), P, A, NH, PID, LABEL),
    st.tuples(st.just('announce'), P, A, NH, PID, LABEL),
    st.tuples(st.just('announce'), P, A, NH, PID, LABEL),
    st.tuples(st.just('announce_wd'), P, A, NH, PID, LABEL, W, st.booleans()),
    st.tuples(st.just('withdraw'), P, PID, st.sampled_from([0, 0, 1, 2]), LABEL),
    st.tuples(st.just('withdraw'), P, PID, st.sampled_from([0, 0, 1, 2]), LABEL),
    st.tuples(st.just('announce_watchdog'), W),
    st.tuples(st.just('withdraw_watchdog'), W),
    st.tuples(st.just('resend'), st.booleans(), st.sampled_from([None, None, 0, 1, 2])),
    st.tuples(st.just('clear')),
    st.tuples(st.just('begin')),
    st.tuples(st.just('begin')),
    st.tuples(st.just('step'), st.integers(1, 3)),
    st.tuples(st.just('step'), st.integers(1, 3)),
    st.tuples(st.just('finish')),
)


@st.composite
def cases(draw):
    session = {'addpath': draw(st.booleans()), 'group': draw(st.booleans()), 'first': draw(st.booleans())}
    chunks = draw(st.lists(st.lists(OPS, min_size=1, max_size=12), min_size=1, max_size=6))
    ops = [list(op) for chunk in chunks for op in chunk][:50]
    if draw(st.integers(0, 4)) == 0:
        # a neighbor that keeps no Adj-RIB-Out (adj-rib-out false + route-refresh disable): nothing to re-send or clear from,
        # clause 2 (the last announce or withdraw of a key decides what the peer holds) is what remains
        session['cache'] = False
        ops = [op for op in ops if op[0] in ('announce', 'withdraw', 'begin', 'step', 'finish')]
        if not ops:
            ops = [['announce', 0, 0, 0, 0, 0]]
    return {'session': session, 'ops': ops}


def fixed_cases() -> list:
    """the minimal histories of the root causes met so far plus their passing neighbours (run in every tier)"""
    plain = {'addpath': False, 'group': True, 'first': False}
    first = {'addpath': False, 'group': True, 'first': True}
    other = {'addpath': True, 'group': False, 'first': True}
    out = []
    for session in (plain, other):
        out.append({'note': 'x, y, x inside one window', 'session': session, 'ops': [['announce', 0, 0, 0, 0, 0], ['announce', 0, 1, 0, 0, 0], ['announce', 0, 0, 0, 0, 0]]})
        out.append({'note': 'x, y, withdraw inside one window', 'session': session, 'ops': [['announce', 0, 0, 0, 0, 0], ['announce', 0, 1, 0, 0, 0], ['withdraw', 0, 0, 0, 0]]})
        out.append({'note': 'x, y inside one window (passes: emitted in this order)', 'session': session, 'ops': [['announce', 0, 0, 0, 0, 0], ['announce', 0, 1, 0, 0, 0]]})
        out.append({'note': 'announce, flush, withdraw + announce in one window', 'session': session, 'ops': [['announce', 2, 0, 0, 0, 0], ['begin'], ['finish'], ['withdraw', 2, 0, 0, 0], ['announce', 2, 1, 0, 0, 0]]})
        out.append({'note': 'same labeled prefix announced again with another label', 'session': session, 'ops': [['announce', 4, 0, 0, 0, 0], ['announce', 4, 0, 0, 0, 1]]})
        out.append({'note': 'x queued and being sent, y and x arrive while the generator is open', 'session': session, 'ops': [['announce', 1, 0, 0, 0, 0], ['announce', 0, 0, 0, 0, 0], ['announce', 2, 0, 0, 0, 0], ['begin'], ['announce', 0, 1, 0, 0, 0], ['announce', 0, 0, 0, 0, 0], ['withdraw', 2, 0, 0, 0], ['finish']]})
    out.append({'note': 'refresh then withdraw before the first generator of the session', 'session': first, 'ops': [['announce', 0, 0, 0, 0, 0], ['resend', False, None], ['withdraw', 0, 0, 0, 0]]})
    out.append({'note': 'refresh then withdraw, not the first generator (passes)', 'session': plain, 'ops': [['announce', 0, 0, 0, 0, 0], ['resend', False, None], ['withdraw', 0, 0, 0, 0]]})
    out.append({'note': 'enhanced refresh then withdraw before the first generator, labeled', 'session': other, 'ops': [['announce', 4, 0, 0, 0, 0], ['resend', True, None], ['withdraw', 4, 0, 0, 0]]})
    out.append({'note': 'watchdog group down, up, route replaced through the API, group down', 'session': plain, 'ops': [['announce_wd', 0, 0, 0, 0, 0, 0, True], ['announce_watchdog', 0], ['begin'], ['finish'], ['announce', 0, 1, 1, 0, 0], ['withdraw_watchdog', 0], ['announce_watchdog', 0]]})
    return out


ENGINES = [Engine('histories', cases, check, quick=1500, thorough=24000, batch=500, fixed_cases=fixed_cases, thorough_s=1200.0)]
