"""C11 - after any session loss the peer is fully resynchronised"""

from __future__ import annotations

from hypothesis import strategies as st

from vlib import netharness as nh
from vlib import scenario as sc
from vlib import vloop
from vlib.refwire import codec
from vlib.runner import Engine, Inconclusive, Violation

PROPERTY = 'C11'
RULE = (
    'history = configured routes + API announce/withdraw lines before the first establishment, establish, more API lines, the session is CUT at a drawn point '
    '(during the OPEN exchange; after k >= 0 UPDATEs of the initial or of a later batch were read by the remote; idle) by EOF / RST / NOTIFICATION / hold-timer expiry, '
    'API lines while down, re-establish, possibly a second cut and re-establishment. Oracle: the table the remote rebuilds from the bytes of the LAST session equals the intended table '
    '(configured routes plus API announces not since withdrawn), an End-of-RIB arrives for every negotiated family after that family is complete, nothing withdrawn while down is announced. '
    'Non-trivial = the cut fell inside a batch (after >= 1 and before all of its messages) or lines were issued while down'
)
ASSUMPTIONS = [
    'refwire PeerTable (apply UPDATEs in order) is the model of the remote speaker',
    'bounded liveness: the re-established session is given 30 virtual seconds to drain; running out of that is counted as inconclusive, not as a violation',
    'adj-rib-out is kept (true); graceful-restart stale-route semantics and the order among routes are not demanded',
]

PREFIXES = ['50.0.0.0/24', '50.0.1.0/24', '50.0.2.0/24', '50.1.0.0/16', '2001:db8:50::/48', '2001:db8:51::/48']
NH = {4: '1.2.3.4', 6: '2001:db8::9'}


def route_text(p: int, med: int) -> str:
    prefix = PREFIXES[p]
    nh = NH[6 if ':' in prefix else 4]
    return f'route {prefix} next-hop {nh} med {med}'


@st.composite
def api_ops(draw, max_size=5):
    ops = []
    for _ in range(draw(st.integers(0, max_size))):
        p = draw(st.integers(0, len(PREFIXES) - 1))
        if draw(st.integers(0, 3)) == 0:
            ops.append(['withdraw', p])
        else:
            ops.append(['announce', p, draw(st.integers(1, 3))])
    return ops


@st.composite
def cut(draw):
    return {
        'point': draw(st.sampled_from(['during-open', 'after-k', 'after-k', 'after-k', 'idle', 'idle'])),
        'k': draw(st.integers(0, 12)),
        'kind': draw(st.sampled_from(['eof', 'rst', 'notification', 'hold-expiry'])),
    }


@st.composite
def cases(draw):
    configured = draw(st.lists(st.tuples(st.integers(0, len(PREFIXES) - 1), st.integers(1, 3)), max_size=4, unique_by=lambda t: t[0]))
    bulk = draw(st.sampled_from([0, 0, 30, 120]))
    return {
        'configured': [list(c) for c in configured],
        'bulk': bulk,
        'ops1': draw(api_ops(3)),
        'ops2': draw(api_ops(4)),
        'cut1': draw(cut()),
        'ops3': draw(api_ops(4)),
        'second': draw(st.booleans()),
        'cut2': draw(cut()),
        'ops4': draw(api_ops(3)),
        'group': draw(st.booleans()),
        # the peer's OPEN of a session that gets cut may offer IPv4 unicast only (a peer reconfigured in between): whatever that
        # session carries, the final one - every family offered again - must bring the whole table
        'narrow': [draw(st.sampled_from([False, False, False, True])), draw(st.sampled_from([False, False, True]))],
    }


def apply(intended: dict, ops: list) -> None:
    for op in ops:
        if op[0] == 'announce':
            intended[PREFIXES[op[1]]] = op[2]
        else:
            intended.pop(PREFIXES[op[1]], None)


def lines(ops: list) -> list[bytes]:
    out = []
    for op in ops:
        if op[0] == 'announce':
            out.append(f'peer * announce {route_text(op[1], op[2])}\n'.encode())
        else:
            prefix = PREFIXES[op[1]]
            nh = NH[6 if ':' in prefix else 4]
            out.append(f'peer * withdraw route {prefix} next-hop {nh}\n'.encode())
    return out


def table_of(remote: nh.Remote) -> tuple[dict, list, list]:
    """(prefix -> med, EOR log [(index, family)], per-message log) rebuilt from one session's bytes"""
    t = codec.PeerTable(asn4=True)
    eors = []
    for i, (_, ty, body) in enumerate(remote.messages):
        if ty != 2:
            continue
        before = len(t.eors)
        try:
            t.apply(body)
        except codec.Malformed as exc:
            raise Violation('resync:undecodable-update', f'{exc}: {body.hex()}') from None
        if len(t.eors) > before:
            eors.append((i, t.eors[-1], {k[3]: v['attrs'].get(4) for k, v in t.table.items()}))
    return {k[3]: v['attrs'].get(4) for k, v in t.table.items()}, eors, t.log


def check(case: dict) -> dict:
    out: dict = {}
    bulk = [f'route 60.{i // 250}.{i % 250}.0/24 next-hop 1.2.3.4 med 9' for i in range(case['bulk'])]

    async def send_ops(hn, ops):
        for line in lines(ops):
            hn.api_write(line)
            await hn.sleep(0.05)
        await hn.sleep(0.3)
        hn.api_read()

    async def do_cut(hn, runner, r, c, est_at):
        if c['kind'] == 'eof':
            r.close()
        elif c['kind'] == 'rst':
            r.close(reset=True)
        elif c['kind'] == 'notification':
            await r.send_msg(codec.NOTIFICATION, bytes([6, 4]))
            await r.wait_for(lambda: r.closed_at is not None, timeout=3.0)
            r.close()
        else:
            # stay silent until the hold timer fires
            await r.wait_for(lambda: r.closed_at is not None, timeout=20.0)
            r.close()

    async def session(hn, runner, c, first_ops, label):
        """bring one session up (or to the cut point); returns the Remote"""
        ok = await hn.remotes[-1].wait_for(lambda: runner.alive() is not None, timeout=70.0) if hn.remotes else True
        r = runner.alive()
        waited = 0.0
        while r is None and waited < 70.0:
            await hn.sleep(0.5)
            waited += 0.5
            r = runner.alive()
        if r is None:
            raise Inconclusive(f'{label}: exabgp did not reconnect within 70 s')
        if c is not None and c['point'] == 'during-open':
            await r.wait_message(codec.OPEN, 1, 5.0)
            await do_cut(hn, runner, r, dict(c, kind='eof' if c['kind'] == 'hold-expiry' else c['kind']), None)
            return r, False
        narrow = c is not None and bool(c.get('narrow'))
        from vlib.refwire import build as _build

        if not await nh.establish(r, sc.open_body('valid', hold=9, without=[_build.cap_mp(2, 1)] if narrow else None), timeout=8.0):
            raise Inconclusive(f'{label}: establishment did not complete')
        return r, True

    async def main(loop):
        routes = [route_text(p, m) for p, m in case['configured']] + bulk
        text = sc.config(hold=9, routes=routes, extra='  adj-rib-out true;' + ('\n  group-updates true;' if case['group'] else '\n  group-updates false;'))
        with nh.Harness(loop, config_text=text, env={'bgp.openwait': 10}) as hn:
            if not hn.reload_ok:
                raise RuntimeError(f'configuration refused: {hn.reactor.configuration.error}')
            runner = sc.Runner(hn)
            runner.policy = False  # not reachable yet
            hn.start()
            await hn.sleep(0.3)
            intended = {PREFIXES[p]: m for p, m in case['configured']}
            for i in range(case['bulk']):
                intended[f'60.{i // 250}.{i % 250}.0/24'] = 9
            await send_ops(hn, case['ops1'])
            apply(intended, case['ops1'])
            runner.policy = True
            narrow = case.get('narrow') or [False, False]
            cuts = [dict(case['cut1'], narrow=narrow[0])] + ([dict(case['cut2'], narrow=narrow[1])] if case['second'] else [])
            during = [case['ops2'], case['ops4'] if case['second'] else []]
            down_ops = [case['ops3'], []]
            partial = False
            downtime = False
            for n, c in enumerate(cuts):
                r, up = await session(hn, runner, c, None, f'session {n + 1}')
                if up:
                    if c['point'] == 'after-k':
                        # cut after k UPDATEs of the batch in flight have been read by the remote
                        base = len(r.of_type(2))
                        await r.wait_for(lambda: len(r.of_type(2)) >= base + c['k'] or r.closed_at is not None, timeout=3.0)
                        total_hint = len(intended)
                        if 0 < len(r.of_type(2)) < total_hint:
                            partial = True
                    else:
                        await hn.sleep(1.0)
                        await send_ops(hn, during[n])
                        apply(intended, during[n])
                        if c['point'] == 'after-k' or c['k'] % 2:
                            pass
                    await do_cut(hn, runner, r, c, None)
                await hn.sleep(0.2)
                if down_ops[n]:
                    downtime = True
                    await send_ops(hn, down_ops[n])
                    apply(intended, down_ops[n])
            # the final session: establish and let it drain
            r, up = await session(hn, runner, None, None, 'final session')
            fams = {(1, 1), (2, 1)}
            done = await r.wait_for(lambda: {f for _, f, _ in table_of(r)[1]} >= fams or r.closed_at is not None, timeout=30.0)
            await hn.sleep(1.0)
            table, eors, log = table_of(r)
            out.update(intended=intended, table=table, eors=eors, closed=r.closed_at, partial=partial, downtime=downtime, sessions=len(hn.remotes), n_updates=len(r.of_type(2)), keepalive=len(r.of_type(4)))

    try:
        vloop.run(main)
    except vloop.Deadlock as exc:
        raise Violation('reactor:stalls', str(exc)) from None

    intended, table, eors = out['intended'], out['table'], out['eors']
    if out['closed'] is not None:
        raise Inconclusive('the final session closed while draining')
    fams_seen = [f for _, f, _ in eors]
    for fam in ((1, 1), (2, 1)):
        if fam not in fams_seen:
            if table == intended:
                raise Violation(f'resync:no-end-of-rib:{fam[0]}/{fam[1]}', f'table complete ({len(table)} routes) but no EOR for {fam}; EORs {fams_seen}')
            raise Violation('resync:incomplete-and-no-end-of-rib', f'peer has {len(table)} of {len(intended)} routes; missing {sorted(set(intended) - set(table))[:4]} extra {sorted(set(table) - set(intended))[:4]}')
    if table != intended:
        missing = sorted(set(intended) - set(table))
        extra = sorted(set(table) - set(intended))
        wrong = sorted(k for k in set(table) & set(intended) if table[k] != intended[k])
        kind = 'route-missing' if missing else ('withdrawn-route-announced' if extra else 'stale-attributes')
        raise Violation(f'resync:{kind}', f'missing {missing[:4]} extra {extra[:4]} wrong {[(k, table[k], intended[k]) for k in wrong[:4]]}')
    # each family's EOR comes after that family is complete
    for idx, fam, snapshot in eors:
        want = {k: v for k, v in intended.items() if (':' in k) == (fam[0] == 2)}
        got = {k: v for k, v in snapshot.items() if (':' in k) == (fam[0] == 2)}
        first = [e for e in eors if e[1] == fam][0]
        if (idx, fam) == (first[0], first[1]) and set(want) - set(got):
            raise Violation(f'resync:end-of-rib-before-routes:{fam[0]}/{fam[1]}', f'EOR at message {idx} while {sorted(set(want) - set(got))[:4]} not yet announced')
    nontrivial = out['partial'] or out['downtime']
    classes = [f'cut1:{case["cut1"]["point"]}:{case["cut1"]["kind"]}', f'sessions:{out["sessions"]}']
    if out['partial']:
        classes.append('cut-inside-batch')
    if out['downtime']:
        classes.append('ops-while-down')
    if case['bulk']:
        classes.append('bulk-routes')
    if any((case.get('narrow') or [False, False])[: 2 if case['second'] else 1]):
        classes.append('a-session-negotiated-fewer-families')
    return {'nontrivial': nontrivial, 'classes': classes}


ENGINES = [Engine('histories', cases, check, quick=120, thorough=5000, batch=100, thorough_s=1200.0)]


# ---------------------------------------------------------------------------- the same clause at the level of the Adj-RIB-Out
#
# C04's driver (a real OutgoingRIB, every emitted UPDATE applied to a model peer) with one more operation: the session is lost
# - at any point, also while an update generator is half consumed - and established again, the way Peer._reset and Peer._main
# drive the RIB (RIB.reset, then replace_restart, then a first generator without withdraws).  At every quiescent point the table
# the peer rebuilt from the bytes must be the Adj-RIB-Out and must be what the last announce / withdraw of each route asked for.
# Thousands of histories per minute, where the engine above (whole reactor, sockets, virtual clock) does a hundred.


@st.composite
def rib_cases(draw):
    from props import c04

    case = draw(c04.cases())
    if not case['session'].get('cache', True):
        case['session']['cache'] = True  # without an Adj-RIB-Out nothing is kept for a new session (documented: see DESIGN 5)
    ops = [list(o) for o in case['ops']]
    for _ in range(draw(st.sampled_from([1, 1, 2, 3]))):
        ops.insert(draw(st.integers(0, len(ops))), ['session_loss'])
    case['ops'] = ops[:60]
    if not any(o[0] == 'session_loss' for o in case['ops']):
        case['ops'].append(['session_loss'])
    return case


def check_rib(case: dict) -> dict:
    from props import c04

    try:
        info = c04.check(case)
    except Violation as v:
        raise Violation('rib-resync:' + v.signature, v.message) from None
    info['classes'] = ['rib-level'] + list(info.get('classes', []))
    info['nontrivial'] = True
    return info


def rib_fixed() -> list:
    plain = {'addpath': False, 'group': True, 'first': True}
    return [
        {'session': plain, 'ops': [['announce', 0, 0, 0, 0, 0], ['begin'], ['finish'], ['withdraw', 0, 0, 0, 0], ['announce', 0, 0, 0, 0, 0], ['withdraw', 0, 0, 0, 0], ['session_loss']]},
        {'session': plain, 'ops': [['announce', 0, 0, 0, 0, 0], ['announce', 1, 1, 0, 0, 0], ['begin'], ['session_loss'], ['withdraw', 1, 0, 0, 0]]},
        {'session': plain, 'ops': [['announce', 2, 0, 0, 0, 0], ['session_loss'], ['announce', 2, 1, 0, 0, 0], ['session_loss']]},
        {'session': {'addpath': True, 'group': False, 'first': True}, 'ops': [['announce_wd', 0, 0, 0, 0, 0, 0, False], ['begin'], ['finish'], ['withdraw_watchdog', 0], ['session_loss'], ['announce_watchdog', 0]]},
    ]


ENGINES.append(Engine('rib-histories', rib_cases, check_rib, quick=400, thorough=12000, batch=200, fixed_cases=rib_fixed, thorough_s=900.0))
