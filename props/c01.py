"""C01 - sent UPDATEs say exactly what the operator asked for"""

from __future__ import annotations

import ipaddress

from hypothesis import strategies as st

from vlib import exa, textgen
from vlib.refwire import build, codec
from vlib.runner import Engine, Violation, exception_signature

PROPERTY = 'C01'
RULE = (
    'route record drawn first (family, prefix, path-id, labels, rd, next hop or self, every attribute keyword with boundary-biased values), '
    'rendered to text in the plain `route` or the `<afi> <safi>` spelling; session built the production way from two OPENs '
    '(local/peer AS incl. 4-byte and AS_TRANS, ASN4 offered by either side, ADD-PATH send/receive, extended next hop, extended message, IPv4 or IPv6 transport); '
    'the bytes from UpdateCollection.messages() are decoded by refwire and compared with the record. '
    'Non-trivial = >= 2 explicit attributes, or a family other than IPv4 unicast, or a session other than (2-byte iBGP without ADD-PATH)'
)
ASSUMPTIONS = [
    'refwire decoder and the expectation model in vlib/textgen.py are trusted',
    'a text the parser refuses is not a C01 case (C18 decides acceptance); it is counted as class refused',
    'next-hop self on a session whose transport address is of the other AFI: any address is accepted (documented fallback)',
    'a redundant NEXT_HOP attribute beside MP_REACH is tolerated when it does not contradict the MP next hop',
    'LOCAL_PREF given explicitly on eBGP: presence is not compared (RFC forbids sending it, the operator asked for it)',
    'order of members inside a community attribute is not compared',
]

# 23456 is AS_TRANS: RFC 6793 reserves it, it is never a real local or peer AS
ASNS = [1, 65000, 65535, 65536, 4200000000]


@st.composite
def sessions(draw, rec):
    local_as = draw(st.sampled_from(ASNS))
    ibgp = draw(st.booleans())
    peer_as = local_as if ibgp else draw(st.sampled_from([a for a in ASNS if a != local_as]))
    v6 = draw(st.integers(0, 4)) == 0
    return {
        'local_as': local_as,
        'peer_as': peer_as,
        'our_asn4': draw(st.booleans()) or local_as > 65535,
        'peer_asn4': draw(st.booleans()) or peer_as > 65535,
        'our_addpath': draw(st.sampled_from([0, 0, 1, 2, 3, 3])),
        'peer_addpath': draw(st.sampled_from([0, 1, 1, 2, 3, 3])),
        'ext_nh': draw(st.booleans()),
        'ext_msg_ours': draw(st.booleans()),
        'ext_msg_peer': draw(st.booleans()),
        'v6_transport': v6,
        'daemon_negotiated': draw(st.sampled_from([True, True, False])),
    }


@st.composite
def cases(draw):
    rec = draw(textgen.routes())
    sess = draw(sessions(rec))
    if rec['afi'] == 1 and rec['nexthop'] != 'self' and ':' in rec['nexthop']:
        # an IPv6 next hop for IPv4 NLRI is only a valid request when RFC 8950 is negotiated
        sess['ext_nh'] = True
        if rec['safi'] == 2:
            rec['nexthop'] = '10.9.8.7'
    case = {'route': rec, 'session': sess}
    if draw(st.integers(0, 2)) == 0:
        # the same parsed route (one object, as one API line puts it into several Adj-RIB-Out) is then sent on a second
        # session of the other kind: what the first session was sent must not be what the second one gets
        other = dict(sess)
        if draw(st.integers(0, 3)) == 0 and sess['peer_as'] <= 65535 and sess['local_as'] <= 65535:
            # the same pair of AS numbers, the other AS width (two routers of one peer AS, one of them an old speaker)
            other['peer_asn4'] = not sess['peer_asn4']
            other['our_asn4'] = True
            other['same_as_pair_other_width'] = True
            other['alt_local'] = draw(st.booleans())
            case['also'] = other
            return case
        if sess['local_as'] == sess['peer_as']:
            other['peer_as'] = 64999 if sess['local_as'] != 64999 else 64998
        else:
            other['peer_as'] = sess['local_as']
            if other['peer_as'] > 65535:
                other['peer_asn4'] = True
        other['peer_asn4'] = other['peer_asn4'] if draw(st.booleans()) else sess['peer_asn4'] or other['peer_as'] > 65535
        # ... and, half of the time, a session with another local address (`next-hop self` is resolved per session)
        other['alt_local'] = draw(st.booleans())
        case['also'] = other
    return case


def config_and_open(case: dict):
    rec, sess = case['route'], case['session']
    fam = (rec['afi'], rec['safi'])
    fams = sorted({fam, (1, 1), (2, 1)})
    nh_lines = []
    if sess['ext_nh'] and rec['afi'] == 1 and rec['safi'] in (1, 4, 128):
        v6fam = (2, rec['safi'])
        if v6fam not in fams:
            fams.append(v6fam)
        nh_lines = [f'ipv4 {textgen.FAMILY_TEXT[fam].split(" ")[1]} ipv6']
    fam_text = [textgen.FAMILY_TEXT[f] for f in fams]
    if sess['v6_transport']:
        peer_ip, local_ip = '2001:db8::2', '2001:db8::1'
    else:
        peer_ip, local_ip = '127.0.0.2', '127.0.0.1'
    if sess.get('alt_local'):
        peer_ip, local_ip = ('2001:db8::3', '2001:db8::9') if sess['v6_transport'] else ('127.0.0.3', '127.0.0.9')
    cap = {
        'asn4': 'enable' if sess['our_asn4'] else 'disable',
        'add-path': {0: 'disable', 1: 'receive', 2: 'send', 3: 'send/receive'}[sess['our_addpath']],
        'extended-message': 'enable' if sess['ext_msg_ours'] else 'disable',
        'aigp': 'enable',
        'nexthop': 'enable' if nh_lines else 'disable',
    }
    text = exa.neighbor_text(
        peer_ip=peer_ip,
        local_ip=local_ip,
        local_as=sess['local_as'],
        peer_as=sess['peer_as'],
        router_id='1.2.3.4',
        families=fam_text,
        capability=cap,
        nexthop=nh_lines or None,
    )
    caps = [build.cap_mp(a, s) for a, s in fams]
    if sess['peer_asn4']:
        caps.append(build.cap_asn4(sess['peer_as']))
    if sess['peer_addpath']:
        caps.append(build.cap_addpath([(a, s, sess['peer_addpath']) for a, s in fams if (a, s) in [(1, 1), (2, 1), (1, 4), (2, 4), (1, 128), (2, 128)]]))
    if nh_lines:
        caps.append(build.cap_ext_nh([(1, rec['safi'], 2)]))
    if sess['ext_msg_peer']:
        caps.append(build.cap_ext_msg())
    asn2 = sess['peer_as'] if sess['peer_as'] <= 65535 else 23456
    body = build.open_with_caps(asn2, 90, 0x0A000002, caps)
    return text, body, local_ip


def parse(conf, rec: dict, text: str):
    if rec['form'] == 'route':
        return conf.parse_route_text(text)
    section, line = text.split(' ', 1)
    conf.static.clear()
    if not conf.partial(section, line, 'announce'):
        return []
    if conf.scope.location():
        return []
    conf.scope.to_context()
    return conf.scope.pop_routes()


def check(case: dict) -> dict:
    holder: dict = {}
    first = _check(case, holder)
    if case.get('also') and 'parsed' in holder:
        second = _check({'route': case['route'], 'session': case['also']}, holder)
        first['classes'] = list(first['classes']) + ['same-route-object-on-a-second-session', 'second:' + ('ebgp' if case['also']['local_as'] != case['also']['peer_as'] else 'ibgp')]
        if case['also'].get('same_as_pair_other_width'):
            first['classes'].append('second:same-as-pair-other-as-width')
        if case['also'].get('alt_local'):
            first['classes'].append('second:other-local-address')
            if case['route']['nexthop'] == 'self':
                first['classes'].append('second:other-local-address:nh-self')
        first['nontrivial'] = first['nontrivial'] or second['nontrivial']
    return first


def _check(case: dict, holder: dict) -> dict:
    from exabgp.bgp.message.update.collection import RoutedNLRI, UpdateCollection

    rec, sess = case['route'], case['session']
    conf_text, peer_open, local_ip = config_and_open(case)
    try:
        conf, neighbor = exa.neighbor_from_text(conf_text)
    except exa.ConfigError as exc:
        raise RuntimeError(f'harness: neighbor configuration refused: {exc}\n{conf_text}') from None
    # the daemon keeps ONE Negotiated per session, made with Direction.IN (reactor/protocol.py), and encodes with it;
    # `exabgp encode` and the configuration self-check make theirs with Direction.OUT: both are real callers
    neg = exa.negotiate(neighbor, peer_open, exa.Direction.IN if sess.get('daemon_negotiated', True) else exa.Direction.OUT)
    text = textgen.route_text(rec)
    classes = [f'family:{rec["afi"]}/{rec["safi"]}', f'form:{rec["form"]}']
    try:
        parsed = holder['parsed'] if 'parsed' in holder else parse(conf, rec, text)
    except Exception:  # noqa: BLE001 - an exception out of the parser is C18's subject
        return {'nontrivial': False, 'classes': classes + ['parse-exception']}
    if not parsed:
        return {'nontrivial': False, 'classes': classes + ['refused']}
    if len(parsed) != 1:
        return {'nontrivial': False, 'classes': classes + ['several-routes']}

    asn4 = sess['our_asn4'] and sess['peer_asn4']
    fam = (rec['afi'], rec['safi'])
    addpath_fams = [(1, 1), (2, 1), (1, 4), (2, 4), (1, 128), (2, 128)]
    addpath = bool(sess['our_addpath'] & 2) and bool(sess['peer_addpath'] & 1) and fam in addpath_fams
    if bool(neg.asn4) != asn4:
        raise RuntimeError('harness: asn4 negotiation differs from the session model (C07 decides that)')

    holder['parsed'] = parsed
    route = parsed[0]
    self_mismatch = rec['nexthop'] == 'self' and ((rec['afi'] == 1) != (':' not in local_ip))
    try:
        try:
            route = neighbor.resolve_self(route)
        except TypeError:
            if self_mismatch:
                # documented refusal: next-hop self needs a transport address of the route's family
                return {'nontrivial': False, 'classes': classes + ['self-other-afi-refused']}
            raise
        msgs = [bytes(m) for m in UpdateCollection([RoutedNLRI(route.nlri, route.nexthop)], [], route.attributes).messages(neg)]
    except Exception as exc:  # noqa: BLE001
        raise Violation(exception_signature('encode', exc), f'{exc!r} for "{text}" on {sess}') from exc
    if not msgs:
        raise Violation('no-message', f'nothing emitted for "{text}"')

    def ap(afi, safi):
        return bool(sess['our_addpath'] & 2) and bool(sess['peer_addpath'] & 1) and (afi, safi) in addpath_fams

    max_size = 65535 if (sess['ext_msg_ours'] and sess['ext_msg_peer']) else 4096
    announced = []
    for m in msgs:
        if m[:16] != codec.MARKER or int.from_bytes(m[16:18], 'big') != len(m) or m[18] != 2:
            raise Violation('bad-header', m[:19].hex())
        if len(m) > max_size:
            raise Violation('oversized', f'{len(m)} > {max_size}')
        try:
            u = codec.decode_update(m[19:], asn4, ap)
        except codec.Malformed as exc:
            raise Violation('undecodable', f'{exc}: {m.hex()} for "{text}"') from None
        if u['withdrawn'] or 15 in u['attrs']:
            raise Violation('withdraw-invented', m.hex())
        for e in u['nlri']:
            announced.append((e, u['attrs'].get(3), u))
        if 14 in u['attrs']:
            mp = u['attrs'][14]
            if 'nlri' not in mp:
                raise Violation('family-wrong', f'MP_REACH for {mp["afi"]}/{mp["safi"]} for "{text}"')
            for e in mp['nlri']:
                announced.append((e, mp['nexthop'], u))
    if len(announced) != 1:
        raise Violation('nlri-count', f'{len(announced)} NLRIs on the wire for one route: "{text}"')
    entry, nexthop, u = announced[0]

    # ---- NLRI
    want = textgen.expected_nlri(rec, addpath)
    got = {k: entry.get(k) for k in want}
    if rec['form'] == 'route' and rec['afi'] == 1 and rec['safi'] == 2 and entry['safi'] == 1:
        # a class-D prefix under the plain `route` keyword names no family: IPv4 unicast NLRI is accepted too
        got['safi'] = 2
    extra = set(entry) - set(want) - {'bos'}
    if got != want or extra:
        field = next((k for k in want if got.get(k) != want[k]), 'extra:' + ','.join(sorted(extra)))
        raise Violation(f'nlri:{field}', f'wire {entry} expected {want} for "{text}" addpath={addpath}')
    if 'labels' in entry and not entry.get('bos'):
        raise Violation('nlri:bottom-of-stack', f'{entry}')

    # ---- next hop
    in_mp = 14 in u['attrs']
    v4_plain = rec['afi'] == 1 and rec['safi'] in (1, 2) and (rec['nexthop'] == 'self' or ':' not in rec['nexthop'])
    if v4_plain and in_mp:
        pass  # MP_REACH for IPv4 unicast is legal (RFC 4760); the values are compared all the same
    if rec['nexthop'] == 'self':
        local_is_v4 = ':' not in local_ip
        if (rec['afi'] == 1) == local_is_v4:
            want_nh = str(ipaddress.ip_address(local_ip))
        else:
            want_nh = None  # documented fallback: not compared
    else:
        want_nh = str(ipaddress.ip_address(rec['nexthop']))
    got_nh = nexthop[0] if isinstance(nexthop, list) else nexthop
    if want_nh is not None and got_nh != want_nh:
        raise Violation('nexthop:value', f'wire {nexthop} expected {want_nh} for "{text}"')
    if got_nh is None:
        raise Violation('nexthop:missing', f'"{text}"')
    if in_mp and 3 in u['attrs'] and want_nh is not None and ':' not in want_nh and u['attrs'][3] != want_nh:
        raise Violation('nexthop:contradicting-NEXT_HOP', f'{u["attrs"][3]} vs {want_nh}')

    # ---- attributes
    exp = textgen.expected_attrs(rec, sess['local_as'], sess['peer_as'], asn4)
    gota = codec.PeerTable.attr_view(u['attrs'])
    gota.pop(3, None)
    if 2 in gota:
        gota[2] = [(k, list(v)) for k, v in gota[2]]
    if 17 in gota:
        gota[17] = [(k, list(v)) for k, v in gota[17]]
    ebgp = sess['local_as'] != sess['peer_as']
    if ebgp and 'local_pref' in rec['attrs']:
        gota.pop(5, None)
        exp.pop(5, None)
    if exp.get(10) is not None:
        exp[10] = list(exp[10])
    for code in sorted(set(exp) | set(gota)):
        if code not in gota:
            raise Violation(f'attribute:{code}:missing', f'expected {exp[code]} for "{text}" session {sess}')
        if code not in exp:
            raise Violation(f'attribute:{code}:invented', f'wire has {gota[code]} for "{text}" session {sess}')
        g, w = gota[code], exp[code]
        if isinstance(w, list) and w and isinstance(w[0], tuple) and code in (2, 17):
            g = [(k, list(v)) for k, v in g]
            w = [(k, list(v)) for k, v in w]
        if isinstance(g, tuple):
            g = tuple(g)
            w = tuple(w)
        if g != w:
            raise Violation(f'attribute:{code}:value', f'wire {g} expected {w} for "{text}" session {sess}')
    # flags and order (RFC 4271 5: well-known transitive, optional bits; ascending order is a SHOULD, not checked)
    for code, fl in u['flags'].items():
        if code in codec.FLAGS:
            opt, trans = codec.FLAGS[code]
            if bool(fl & 0x80) != bool(opt) or bool(fl & 0x40) != bool(trans):
                raise Violation(f'attribute:{code}:flags', f'flags {fl:#x} for "{text}"')
    if 'generic' in rec['attrs']:
        code, flags, _ = rec['attrs']['generic']
        if (u['flags'].get(code, 0) & 0xE0) != (flags & 0xE0):
            raise Violation('attribute:generic:flags', f'{u["flags"].get(code)} vs {flags}')

    n_attr = len(rec['attrs'])
    nontrivial = n_attr >= 2 or fam != (1, 1) or ebgp or asn4 or addpath
    classes += ['ebgp' if ebgp else 'ibgp', 'asn4' if asn4 else 'asn2']
    if addpath:
        classes.append('addpath')
    if 17 in gota:
        classes.append('as4_path-emitted')
    if rec['nexthop'] == 'self':
        classes.append('nh-self')
    if rec['afi'] == 1 and rec['nexthop'] != 'self' and ':' in rec['nexthop']:
        classes.append('ext-nexthop')
    if sess['local_as'] > 65535:
        classes.append('local-as4')
    if sess['v6_transport']:
        classes.append('v6-transport')
    classes.append('negotiated:direction-in(daemon)' if sess.get('daemon_negotiated', True) else 'negotiated:direction-out(encode)')
    if bool(sess['our_addpath'] & 2 and sess['peer_addpath'] & 1) != bool(sess['our_addpath'] & 1 and sess['peer_addpath'] & 2):
        classes.append('addpath-one-direction-only')
    return {'nontrivial': nontrivial, 'classes': classes, 'sample': {'text': text, 'session': sess, 'wire': msgs[0].hex()}}


ENGINES = [Engine('routes', cases, check, quick=1500, thorough=20000, batch=500)]
