# one claim() per property that has a working check (exec'd by gen_manifest.py)
claim(
    'C07',
    'refwire + Hypothesis',
    'property-based testing: Hypothesis-generated (neighbor configuration text, peer OPEN bytes) pairs; oracles = independent OPEN decoder (round trip, advertised set), 15-line reference negotiation function, RFC refusal table',
    'Generated-input search over configuration x peer OPEN pairs; every negotiated field is compared with an independent reference function and every sent OPEN is decoded by an independent reader. Absence of violations is evidence over the explored cases only.',
    'refwire codec and refneg() are trusted; peers are self-consistent (2-byte field = AS or AS_TRANS); a 4-byte local AS is only generated with asn4 enabled; host names compared up to the documented 64-byte limit',
    'DESIGN.md 3/C07',
)
