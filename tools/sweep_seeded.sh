#!/bin/bash
# tools/sweep_seeded.sh [name-glob]  - every stored seeded change against the check of its property (quick tier, scratch worktree of /repo
# HEAD, repository tests skipped): prints one RESULT line per seed; a seed whose meta names another property's check is run with that one
cd "$(dirname "$0")/.."
for d in seeded/${1:-*}/; do
  n=$(basename "$d")
  p=${n%%-*}
  case "$n" in
    C11-reused-rib-keeps-old-family-set) p=C17 ;;
    C18-shared-redirect-community-object) p=C16 ;;
  esac
  r=$(SKIP_TESTS=1 tools/eval_seeded.sh $p "$d" 2>&1 | grep "^RESULT" | tail -1)
  echo "$n with=$p $r"
done
