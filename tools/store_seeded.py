#!/venv/bin/python
"""tools/store_seeded.py <Cxx> <src dir> <name> <caught:yes|no> "<by which signature(s)>" "<notes>" """
import json, os, shutil, subprocess, sys
prop, src, name, caught, by, notes = sys.argv[1:7]
dst = os.path.join('/verif/seeded', f'{prop}-{name}')
os.makedirs(dst, exist_ok=True)
for f in os.listdir(src):
    if f.startswith(('patch', 'demo', 'meta')):
        shutil.copy(os.path.join(src, f), os.path.join(dst, f))
meta = json.load(open(os.path.join(dst, 'meta.json')))
head = subprocess.run(['git', '-C', '/repo', 'rev-parse', '--short', 'HEAD'], capture_output=True, text=True).stdout.strip()
meta.update({
    'property': prop,
    'origin': 'fresh sub-agent given only the property text and a scratch worktree',
    'confirmed': {
        'repo_head_when_confirmed': head,
        'ran': f'tools/eval_seeded.sh {prop} seeded/{prop}-{name}  (scratch worktree of /repo HEAD: demo on the clean tree exits 0, patch applies, demo with the change exits non-zero, repository unit+fuzz tests pass with the change, ./check {prop} run against the changed tree through VERIF_REPO_SRC)',
        'check_detects': caught == 'yes',
        'detected_by': by,
        'notes': notes,
    },
})
json.dump(meta, open(os.path.join(dst, 'meta.json'), 'w'), indent=1)
print('stored', dst)
