#!/venv/bin/python
"""tools/register_fixed.py <Cxx> ...

Takes the replay files tools/harvest_fixed.sh collected under /tmp/pristine-replays/<Cxx>/ (inputs that fail on the tree
as found), replays each on the CURRENT tree, and registers those that now pass as `fixed` entries of known_findings.json
(id Cxx-pristine-<signature slug>), unless an entry with the same engine+case already exists. Those that still fail
are printed: they are either listed `known` findings or need attention.
"""

import json
import os
import re
import subprocess
import sys

HERE = os.path.dirname(os.path.dirname(os.path.abspath(__file__)))
sys.path.insert(0, HERE)
ENV = dict(os.environ, PYTHONPATH=f'/repo/src:{HERE}:{HERE}/.deps', PYTHONHASHSEED='0', exabgp_log_enable='false')


def replay(prop, engine, case):
    payload = json.dumps({'engine': engine, 'case': case}).encode()
    p = subprocess.run(['/venv/bin/python', '-m', 'vlib.cli', prop, '--replay-stdin'], input=payload, capture_output=True, cwd=HERE, env=ENV, timeout=900)
    for line in p.stdout.decode().splitlines():
        if line.startswith('REPLAY-RESULT '):
            return json.loads(line[len('REPLAY-RESULT '):])
    raise RuntimeError(p.stderr.decode()[-500:])


path = os.path.join(HERE, 'known_findings.json')
data = json.load(open(path))
for prop in sys.argv[1:]:
    d = f'/tmp/pristine-replays/{prop}'
    if not os.path.isdir(d):
        continue
    for name in sorted(os.listdir(d)):
        r = json.load(open(os.path.join(d, name)))
        if any(f['property'] == prop and f['engine'] == r['engine'] and f['case'] == r['case'] for f in data['findings']):
            continue
        now = replay(prop, r['engine'], r['case'])
        slug = re.sub(r'[^a-zA-Z0-9]+', '-', r['signature']).strip('-')[:60]
        if now['violation']:
            print(f'STILL-FAILS {prop} {r["signature"]} -> now {now["signature"]}')
            continue
        entry = {
            'id': f'{prop}-pristine-{slug}',
            'property': prop,
            'status': 'fixed',
            'engine': r['engine'],
            'signature': r['signature'],
            'what': f'failed on the tree as found ({r["signature"]}: {r["message"][:160]}); repaired by the fix: commits listed in DESIGN.md section 5',
            'case': r['case'],
        }
        data['findings'] = [f for f in data['findings'] if f['id'] != entry['id']]
        data['findings'].append(entry)
        print('fixed', entry['id'])
json.dump(data, open(path, 'w'), indent=1)
