#!/venv/bin/python
"""tools/add_finding.py <replay.json> <id> <known|fixed> "<what>" [--sig PATTERN] [--commit SHA]
registers the case of a replay file in known_findings.json (never run by checks)"""
import argparse, json, os
HERE = os.path.dirname(os.path.dirname(os.path.abspath(__file__)))
ap = argparse.ArgumentParser()
ap.add_argument('replay'); ap.add_argument('id'); ap.add_argument('status', choices=['known', 'fixed']); ap.add_argument('what')
ap.add_argument('--sig'); ap.add_argument('--commit')
a = ap.parse_args()
r = json.load(open(a.replay))
path = os.path.join(HERE, 'known_findings.json')
data = json.load(open(path)) if os.path.exists(path) else {'findings': []}
data['findings'] = [f for f in data['findings'] if f['id'] != a.id]
entry = {'id': a.id, 'property': r['property'], 'status': a.status, 'engine': r['engine'], 'signature': a.sig or r['signature'], 'what': a.what, 'case': r['case']}
if a.commit:
    entry['commit'] = a.commit
data['findings'].append(entry)
json.dump(data, open(path, 'w'), indent=1)
print('registered', a.id)
