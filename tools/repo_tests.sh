#!/bin/bash
# runs the repository's own suite (guard off) the way the baseline does (sequential; xdist reorders tests that share global state)
cd /repo && /venv/bin/python -m pytest -q -p no:cacheprovider --timeout=900 --continue-on-collection-errors \
  --deselect tests/unit/test_gates_are_wired.py::test_a_clean_tree_exits_zero "$@" 2>&1 | tail -15
