#!/bin/bash
# runs every claimed check against the pristine snapshot of /repo (first commit) and collects the replay files it writes:
# they are the inputs that failed before the "fix:" commits. tools/register_fixed.py then lists those that pass on the
# current tree as `fixed` entries of known_findings.json.
set -u
base=$(git -C /repo rev-list --max-parents=0 HEAD | tail -1)
wt=/tmp/pristine-$$
git -C /repo worktree add -q --detach "$wt" "$base" || exit 3
trap 'git -C /repo worktree remove --force "$wt" 2>/dev/null; rm -rf "$wt"' EXIT
out=/tmp/pristine-replays; rm -rf "$out"; mkdir -p "$out"
cd /verif
for prop in "$@"; do
  keep=/tmp/harvest-keep-$$; rm -rf "$keep"; mkdir -p "$keep"
  [ -f "evidence/$prop.json" ] && cp "evidence/$prop.json" "$keep/"
  [ -d "replays/$prop" ] && cp -r "replays/$prop" "$keep/replays"
  rm -rf "replays/$prop"
  VERIF_REPO_SRC="$wt/src" timeout 900 ./check "$prop" > "$out/$prop.out" 2>&1
  echo "$prop rc=$? $(grep -c '^VIOLATION' "$out/$prop.out") violations"
  mkdir -p "$out/$prop"; cp replays/$prop/*.json "$out/$prop/" 2>/dev/null
  rm -rf "replays/$prop"; [ -d "$keep/replays" ] && cp -r "$keep/replays" "replays/$prop"
  [ -f "$keep/$prop.json" ] && cp "$keep/$prop.json" "evidence/$prop.json"
  rm -rf "$keep"
done
