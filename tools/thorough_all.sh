#!/bin/bash
# tools/thorough_all.sh [Cxx ...]  - thorough tier of the named properties (default: all) one after the other, one summary line each
cd "$(dirname "$0")/.."
./setup.sh >/dev/null 2>&1
props="${@:-C01 C02 C03 C04 C05 C06 C07 C08 C09 C10 C11 C12 C13 C14 C15 C16 C17 C18 C19 C20}"
for p in $props; do
  start=$(date +%s)
  ./check $p --tier thorough > thorough-$p.log 2>&1; rc=$?
  echo "$p rc=$rc $(($(date +%s)-start))s $(tail -1 thorough-$p.log)"
  grep -E "^(violation:|VIOLATION|HARNESS)" thorough-$p.log | cut -c1-400
done
