#!/bin/bash
# tools/coverage_gaps.sh <Cxx> [check args...]  - development aid: runs the check with line coverage of exabgp switched on in
# every shard (VERIF_COVERAGE) and lists, for the files the property is anchored in, the lines the check never executes.
# Output: /tmp/cov-<Cxx>/report.txt ; evidence and replays of the run are put back as they were.
set -u
prop="$1"; shift
out="/tmp/cov-$prop"; rm -rf "$out"; mkdir -p "$out"
cd "$(dirname "$0")/.."
cp "evidence/$prop.json" "$out/evidence.keep" 2>/dev/null
COVERAGE_CORE=sysmon VERIF_COVERAGE="$out" ./check "$prop" "$@" > "$out/check.txt" 2>&1
tail -1 "$out/check.txt"
[ -f "$out/evidence.keep" ] && cp "$out/evidence.keep" "evidence/$prop.json"
cd "$out"
/venv/bin/python -m coverage combine --data-file="$out/cov.all" "$out"/cov.$prop.* >/dev/null 2>&1
files=$(/venv/bin/python - "$prop" <<'P'
import json,sys
for l in open('/verif/properties.jsonl'):
    p=json.loads(l)
    if p['id']==sys.argv[1]:
        print(','.join('/repo/'+f for f in p['anchors']['files']))
P
)
/venv/bin/python -m coverage report --data-file="$out/cov.all" -m --include="$files" > "$out/report.txt" 2>&1
/venv/bin/python -m coverage report --data-file="$out/cov.all" > "$out/report_all.txt" 2>&1
cat "$out/report.txt" | cut -c1-400
