#!/bin/bash
# tools/confirm_seed_tests.sh <seeded dir>...  - applies each patch.diff to a scratch worktree of /repo HEAD, runs the repository's
# unit + fuzz tests and the demo both ways, prints one line per seed (used when eval_seeded.sh was run with SKIP_TESTS=1)
for d in "$@"; do
  d=$(cd "$d" && pwd)
  name=$(basename "$d")
  wt=$(mktemp -d /tmp/seedtest.XXXXXX)
  git -C /repo worktree add -q --detach "$wt" HEAD || { echo "$name worktree-failed"; continue; }
  mkdir -p "$wt/seeded"; cp "$d"/demo* "$wt/seeded/" 2>/dev/null
  ( cd "$wt"; PYTHONPATH=src timeout 600 /venv/bin/python seeded/demo.py >/dev/null 2>&1 ); clean=$?
  if git -C "$wt" apply "$d/patch.diff" 2>/dev/null; then
    ( cd "$wt"; PYTHONPATH=src timeout 600 /venv/bin/python seeded/demo.py >/dev/null 2>&1 ); patched=$?
    ( cd "$wt"; PYTHONPATH=src timeout 1500 /venv/bin/python -m pytest -q -p no:cacheprovider tests/unit tests/fuzz -x -q --deselect tests/unit/test_gates_are_wired.py::test_a_clean_tree_exits_zero >/dev/null 2>&1 ); tests=$?
    echo "$name demo_clean=$clean demo_patched=$patched tests=$tests"
  else
    echo "$name patch-does-not-apply"
  fi
  git -C /repo worktree remove --force "$wt"
done
