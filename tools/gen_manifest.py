#!/venv/bin/python
"""writes MANIFEST.json from the table below (keeps the file valid at all times)"""

import json
import os

HERE = os.path.dirname(os.path.dirname(os.path.abspath(__file__)))

TITLES = {}
with open(os.path.join(HERE, 'properties.jsonl')) as fh:
    for line in fh:
        p = json.loads(line)
        TITLES[p['id']] = p['title']

# property -> (engine, technique, level text, level note, design ref)
CHECKS = {}


def claim(pid, engine, technique, text, note, ref):
    CHECKS[pid] = (engine, technique, text, note, ref)


exec(open(os.path.join(HERE, 'tools', 'claims.py')).read())

NOT_BUILT = {}
if os.path.exists(os.path.join(HERE, 'tools', 'not_applicable.json')):
    NOT_BUILT = json.load(open(os.path.join(HERE, 'tools', 'not_applicable.json')))

checks = []
for pid in sorted(CHECKS):
    engine, technique, text, note, ref = CHECKS[pid]
    checks.append(
        {
            'property_id': pid,
            'quick_cmd': f'./check {pid} --tier quick',
            'thorough_cmd': f'./check {pid} --tier thorough',
            'evidence_file': f'evidence/{pid}.json',
            'replay_cmd_template': f'./check {pid} --replay {{path}}',
            'engine': engine,
            'level_claimed': {'category': 'exploration', 'text': text, 'design_ref': ref},
            'level_note': note,
            'technique': technique,
        }
    )

not_applicable = []
for pid in sorted(TITLES):
    if pid not in CHECKS:
        not_applicable.append({'property_id': pid, 'reason': NOT_BUILT.get(pid, 'check not built yet in this round; the property is not claimed until its check exists (see DESIGN.md section 3 for the planned generator and oracle)')})

manifest = {
    'version': 1,
    'setup_cmd': './setup.sh',
    'hooks': {
        'guard': 'EXABGP_VERIF',
        'enable': 'no source hooks: every observation point is reached by wrapping from outside; checks import exabgp from /repo/src (PYTHONPATH) so they always run the working tree',
        'baseline_off_cmd': 'cd /repo && /venv/bin/python -m pytest -ra -q -p no:cacheprovider --timeout=900 --continue-on-collection-errors',
        'source_commits': [],
        'add_only': True,
    },
    'engines': [
        {'name': 'refwire', 'path': 'vlib/refwire', 'serves_properties': sorted(CHECKS), 'kind_free_text': 'independent RFC wire codec (reader + separate byte builders), no exabgp import; the oracle for everything on the wire'},
        {'name': 'runner', 'path': 'vlib/runner.py', 'serves_properties': sorted(CHECKS), 'kind_free_text': 'Hypothesis driver: seeded, sharded, continue-after-failure by root-cause signature, known-finding replay, evidence'},
        {'name': 'netharness', 'path': 'vlib/netharness.py', 'serves_properties': [p for p in sorted(CHECKS) if p in ('C05', 'C06', 'C10', 'C11', 'C12', 'C14', 'C17')], 'kind_free_text': 'virtual-time asyncio loop + scripted remote speaker + fake API process around the unmodified Reactor/Peer/Protocol'},
    ],
    'checks': checks,
    'not_applicable': not_applicable,
    'notes': 'All checks are property-based tests / fuzzing (Hypothesis strategies and rule-based machines, atheris) against independent oracles; see DESIGN.md. Exit 2 = harness error (never a VIOLATION).',
}
with open(os.path.join(HERE, 'MANIFEST.json'), 'w') as fh:
    json.dump(manifest, fh, indent=1)
    fh.write('\n')
print(f'{len(checks)} checks claimed, {len(not_applicable)} not claimed')
