#!/bin/bash
# tools/eval_seeded.sh <Cxx> <dir with patch.diff demo.py meta.json> [check args...]
# confirms a seeded change in a scratch worktree of /repo HEAD (applies, runs the repo tests, the demo with/without) and
# runs the property's check against it through VERIF_REPO_SRC. Never touches /repo's working tree.
set -u
prop="$1"; dir="$(cd "$2" && pwd)"; shift 2
wt="/tmp/eval-$prop-$$"
git -C /repo worktree add -q --detach "$wt" HEAD || exit 3
cleanup() { git -C /repo worktree remove --force "$wt" 2>/dev/null; rm -rf "$wt"; }
trap cleanup EXIT
cd "$wt"
# demos locate the sources relative to their own path (../src): run a copy placed inside the scratch worktree
mkdir -p "$wt/seeded"; cp "$dir"/demo* "$wt/seeded/" 2>/dev/null
demo="$wt/seeded/demo.py"
echo "== demo on the unchanged tree"
( cd "$wt" && PYTHONPATH="$wt/src" timeout 300 /venv/bin/python "$demo" > /tmp/eval-demo-clean.txt 2>&1 ); rc_clean=$?
echo "   rc=$rc_clean"
if ! git apply --check "$dir/patch.diff" 2>/tmp/eval-apply.txt; then echo "PATCH-DOES-NOT-APPLY"; cat /tmp/eval-apply.txt | head -5; exit 4; fi
git apply "$dir/patch.diff"
echo "== demo with the change"
( cd "$wt" && PYTHONPATH="$wt/src" timeout 300 /venv/bin/python "$demo" > /tmp/eval-demo-patched.txt 2>&1 ); rc_patched=$?
echo "   rc=$rc_patched"
if [ "${SKIP_TESTS:-0}" != "1" ]; then
  echo "== repository tests with the change"
  ( cd "$wt" && PYTHONPATH="$wt/src" /venv/bin/python -m pytest -q -p no:cacheprovider tests/unit tests/fuzz -x -q --deselect tests/unit/test_gates_are_wired.py::test_a_clean_tree_exits_zero > /tmp/eval-tests.txt 2>&1 ); rc_tests=$?
  tail -1 /tmp/eval-tests.txt; echo "   rc=$rc_tests"
fi
echo "== ./check $prop against the change"
cd /verif
keep="/tmp/eval-keep-$$"; mkdir -p "$keep"
[ -f "evidence/$prop.json" ] && cp "evidence/$prop.json" "$keep/"
[ -d "replays/$prop" ] && cp -r "replays/$prop" "$keep/replays"
VERIF_REPO_SRC="$wt/src" ./check "$prop" "$@" > /tmp/eval-check.txt 2>&1; rc_check=$?
grep -E "^(violation:|VIOLATION|HARNESS)" /tmp/eval-check.txt | cut -c1-300 | head -6
tail -1 /tmp/eval-check.txt
mkdir -p "/tmp/eval-replays-$prop"; cp -r replays/$prop/. "/tmp/eval-replays-$prop/" 2>/dev/null
rm -rf "replays/$prop"; [ -d "$keep/replays" ] && cp -r "$keep/replays" "replays/$prop"
[ -f "$keep/$prop.json" ] && cp "$keep/$prop.json" "evidence/$prop.json"
rm -rf "$keep"
echo "RESULT prop=$prop demo_clean=$rc_clean demo_patched=$rc_patched tests=${rc_tests:-skipped} check=$rc_check"
