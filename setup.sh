#!/bin/bash
# offline setup: hypothesis into /venv (idempotent), atheris into /verif/.deps
set -e
cd "$(dirname "$0")"
export PIP_NO_INDEX=1
/venv/bin/python -c "import hypothesis" 2>/dev/null || /venv/bin/pip install -q --no-index --find-links /opt/veriftools/wheels hypothesis
mkdir -p .deps
if ! PYTHONPATH=.deps /venv/bin/python -c "import atheris" 2>/dev/null; then
  /venv/bin/pip install -q --no-index --find-links /opt/veriftools/wheels --target .deps atheris || echo "atheris not installed: C03/C13 fall back to Hypothesis-only"
fi
/venv/bin/python -c "import hypothesis; print('hypothesis', hypothesis.__version__)"
