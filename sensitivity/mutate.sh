#!/bin/bash
# usage: sensitivity/mutate.sh <Cxx> <file-relative-to-src> <python-regex-old> <new> [check args...]
# copies /repo/src to a scratch dir, applies one textual mutation, runs the quick check against it, removes the copy.
# exit 0 = the mutation was caught (check exited 1), 1 = missed
set -u
prop="$1"; file="$2"; old="$3"; new="$4"; shift 4
scratch="$(mktemp -d /tmp/mut.XXXXXX)"
cp -r /repo/src "$scratch/src"
find "$scratch/src" -name __pycache__ -prune -exec rm -rf {} + 2>/dev/null
OLD="$old" NEW="$new" /venv/bin/python - "$scratch/src/$file" <<'PY'
import os, sys
p = sys.argv[1]
s = open(p).read()
old, new = os.environ['OLD'], os.environ['NEW']
if s.count(old) < 1:
    print('MUTATION-DID-NOT-APPLY', old); sys.exit(3)
open(p, 'w').write(s.replace(old, new, 1))
PY
rc=$?
if [ $rc -ne 0 ]; then rm -rf "$scratch"; exit 3; fi
cd "$(dirname "$0")/.."
VERIF_REPO_SRC="$scratch/src" ./check "$prop" "$@" > "$scratch/out.txt" 2>&1
rc=$?
grep -E "^(VIOLATION|violation:|HARNESS)" "$scratch/out.txt" | head -4
tail -1 "$scratch/out.txt"
rm -rf "$scratch"
# a mutated run writes evidence/replays for the mutant: restore the committed ones
git checkout -q -- evidence replays 2>/dev/null
git clean -fdq replays 2>/dev/null
if [ $rc -eq 1 ]; then echo "CAUGHT $prop $file"; exit 0; fi
echo "MISSED(rc=$rc) $prop $file: $old"; exit 1
