#!/bin/bash
# usage: sensitivity/mutate.sh <Cxx> <file-relative-to-src> <python-regex-old> <new> [check args...]
# copies /repo/src to a scratch dir, applies one textual mutation, runs the quick check against it, removes the copy.
# exit 0 = the mutation was caught (check exited 1), 1 = missed
set -u
prop="$1"; file="$2"; old="$3"; new="$4"; shift 4
scratch="$(mktemp -d /tmp/mut.XXXXXX)"
cp -r /repo/src "$scratch/src"
find "$scratch/src" -name __pycache__ -prune -exec rm -rf {} + 2>/dev/null
OLD="$old" NEW="$new" /venv/bin/python - "$scratch/src/$file" <<'PY'
import os, sys
p = sys.argv[1]
s = open(p).read()
old, new = os.environ['OLD'], os.environ['NEW']
if s.count(old) < 1:
    print('MUTATION-DID-NOT-APPLY', old); sys.exit(3)
open(p, 'w').write(s.replace(old, new, 1))
PY
rc=$?
if [ $rc -ne 0 ]; then rm -rf "$scratch"; exit 3; fi
cd "$(dirname "$0")/.."
# a mutated run rewrites this property's evidence and replays: keep the real ones aside and put them back
mkdir -p "$scratch/keep"
[ -f "evidence/$prop.json" ] && cp "evidence/$prop.json" "$scratch/keep/"
[ -d "replays/$prop" ] && cp -r "replays/$prop" "$scratch/keep/replays"
VERIF_REPO_SRC="$scratch/src" ./check "$prop" "$@" > "$scratch/out.txt" 2>&1
rc=$?
rm -rf "replays/$prop"
[ -d "$scratch/keep/replays" ] && cp -r "$scratch/keep/replays" "replays/$prop"
[ -f "$scratch/keep/$prop.json" ] && cp "$scratch/keep/$prop.json" "evidence/$prop.json"
grep -E "^(VIOLATION|violation:|HARNESS)" "$scratch/out.txt" | head -4
tail -1 "$scratch/out.txt"
rm -rf "$scratch"
if [ $rc -eq 1 ]; then echo "CAUGHT $prop $file"; exit 0; fi
echo "MISSED(rc=$rc) $prop $file: $old"; exit 1
