#!/venv/bin/python
"""fuzz_decode.py - atheris (libFuzzer) target for C03: any bytes as the body of any message type under any negotiated set.

input layout:  byte 0 & 7 -> message type (0..5 -> 1..6, 6 -> 7 (unassigned), 7 -> 255)
               byte 1 % len(NEG_TABLE) -> negotiated parameter set
               bytes 2.. -> the message body, cut at msg_size - 19

run:   PYTHONPATH=/repo/src:/verif:/verif/.deps /venv/bin/python fuzz/fuzz_decode.py <corpus-dir> -runs=N -seed=S -max_len=4096
       (fuzz/run_fuzz.sh [runs] [seed] makes a fresh temporary corpus seeded from the qa vectors and calls this)

A violation is saved as a replayable case of the C03 'bytes' engine in $VERIF_C03_FINDINGS (default /verif/fuzz/findings)
under <sha1 of the case>.json and announced on stdout as 'C03-FINDING <json>'.  Signatures matching $VERIF_C03_KNOWN
(comma separated fnmatch patterns), or already reported in this process, do not stop the run; a new signature raises (libFuzzer
then writes its crash artifact) unless VERIF_C03_FUZZ_CONTINUE=1, the mode the check's short campaign uses.

--write-seeds DIR : only write the seed corpus into DIR and exit (no atheris needed).
"""

from __future__ import annotations

import hashlib
import json
import os
import sys
import time

HERE = os.path.dirname(os.path.abspath(__file__))
ROOT = os.path.dirname(HERE)
os.environ.setdefault('exabgp_log_enable', 'false')
os.environ.setdefault('exabgp_log_level', 'CRITICAL')
if ROOT not in sys.path:
    sys.path.insert(0, ROOT)

TYPE_OF = [1, 2, 3, 4, 5, 6, 7, 255]
FINDINGS = os.environ.get('VERIF_C03_FINDINGS', os.path.join(HERE, 'findings'))
CONTINUE = os.environ.get('VERIF_C03_FUZZ_CONTINUE', '') == '1'
STATS_EVERY = int(os.environ.get('VERIF_C03_STATS_EVERY', '500'))


def split_input(data: bytes, table_size: int) -> tuple[int, int, bytes]:
    if len(data) < 2:
        return 4, 0, b''
    return TYPE_OF[data[0] & 7], data[1] % table_size, data[2:]


def join_input(msg_type: int, neg: int, body: bytes) -> bytes:
    return bytes([TYPE_OF.index(msg_type) if msg_type in TYPE_OF else 7, neg]) + body


def write_seeds(directory: str, target) -> int:
    """every qa message under every negotiated set that decodes it (and under 'opensent'), plus the small messages"""
    from vlib import c03_corpus

    os.makedirs(directory, exist_ok=True)
    n = 0
    seeds = []
    for m in c03_corpus.MESSAGES:
        body = bytes.fromhex(m['hex'])
        outcomes = [target.measured(m['type'], body, target.negotiated_for(i))[0][0] for i in range(len(target.NEG_TABLE))]  # measured: bounded work
        # the sets that decode it, else the sets under which it is not refused either (a defect is a good seed too)
        oks = [i for i, o in enumerate(outcomes) if o == 'ok'] or [i for i, o in enumerate(outcomes) if o == 'violation']
        for i in oks[:2] or [0]:
            seeds.append(join_input(m['type'], i, body))
    seeds += [join_input(4, 1, b''), join_input(5, 1, b'\x00\x01\x00\x01'), join_input(3, 1, b'\x06\x02\x03abc'), join_input(6, 1, b'\x00\x01\x00\x06\x00\x01\x01abc')]
    seeds += [join_input(6, 1, b'\x00\x03\x00\x0b\x00\x01\x01\x01\x02\x03\x04\x00\x00\x00\x01'), join_input(255, 1, b'')]
    for s in seeds:
        with open(os.path.join(directory, hashlib.sha1(s).hexdigest()), 'wb') as fh:
            fh.write(s)
        n += 1
    return n


def main() -> None:
    if len(sys.argv) >= 3 and sys.argv[1] == '--write-seeds':
        from vlib import c03_target

        print(write_seeds(sys.argv[2], c03_target))
        return

    import atheris

    with atheris.instrument_imports(include=['exabgp']):
        import exabgp  # noqa: F401
        from vlib import c03_corpus, c03_target

        # the decoders import their helpers lazily: touch every path the seeds reach while the import hook is active
        # (under an alarm: a decoder that never returns - a mutated tree - must not hang the start-up)
        import signal

        class WarmupStuck(BaseException):  # not an Exception: decode_and_force must not turn it into an outcome
            pass

        def _give_up(_signo, _frame):
            raise WarmupStuck()

        signal.signal(signal.SIGVTALRM, _give_up)
        signal.setitimer(signal.ITIMER_VIRTUAL, 15)
        try:
            for m in c03_corpus.MESSAGES:
                for i in (c03_target.NEG_INDEX['all-extmsg'], c03_target.NEG_INDEX['all-asn2'], c03_target.NEG_INDEX['ext-nexthop'], 0):
                    c03_target.decode_and_force(m['type'], bytes.fromhex(m['hex']), c03_target.negotiated_for(i))
            for t, b in ((3, b'\x06\x02\x03abc'), (4, b''), (5, b'\x00\x01\x00\x01'), (6, b'\x00\x01\x00\x06\x00\x01\x01abc'), (6, b'\x00\x03\x00\x0b' + bytes(11)), (6, b'\xff\xff\x00\x00')):
                c03_target.decode_and_force(t, b, c03_target.negotiated_for(1))
        except WarmupStuck:
            print('C03-WARMUP-TIMEOUT', flush=True)
        finally:
            signal.setitimer(signal.ITIMER_VIRTUAL, 0)

    table_size = len(c03_target.NEG_TABLE)
    sizes = [c03_target.msg_size(i) - 19 for i in range(table_size)]
    seen: set[str] = set()
    stats = {'execs': 0, 'ok': 0, 'notify': 0, 'violation': 0, 'started': time.time()}

    def report_stats() -> None:
        out = dict(stats)
        out['seconds'] = round(time.time() - out.pop('started'), 2)
        out['signatures'] = sorted(seen)
        print('C03-STATS ' + json.dumps(out), flush=True)

    class Stuck(BaseException):
        pass

    def on_cpu_alarm(_signo, _frame):
        raise Stuck()

    signal.signal(signal.SIGVTALRM, on_cpu_alarm)

    def test_one_input(data: bytes) -> None:
        msg_type, neg, body = split_input(data, table_size)
        body = body[: sizes[neg]]
        # a decode takes well under a millisecond: five CPU seconds is a decoder that does not terminate (libFuzzer's own -timeout is the second line)
        signal.setitimer(signal.ITIMER_VIRTUAL, 5)
        try:
            outcome = c03_target.decode_and_force(msg_type, body, c03_target.negotiated_for(neg))
        except Stuck:
            outcome = ('violation', 'no-termination:watchdog', 'still decoding after 5 s of CPU')
            stats['stuck'] = stats.get('stuck', 0) + 1
        finally:
            signal.setitimer(signal.ITIMER_VIRTUAL, 0)
        stats['execs'] += 1
        stats[outcome[0]] += 1
        if stats['execs'] % STATS_EVERY == 0:
            report_stats()
        if outcome[0] != 'violation':
            return
        signature = outcome[1]
        if signature in seen:
            if CONTINUE and stats.get('stuck', 0) >= 3:
                # every further input of that kind would cost five more seconds: the defect is reported, stop here
                report_stats()
                print('C03-ABORT the decoder did not terminate on three inputs', flush=True)
                os._exit(0)
            return
        seen.add(signature)
        case = {'type': msg_type, 'neg': neg, 'hex': body.hex()}
        record = {'property': 'C03', 'engine': 'bytes', 'signature': signature, 'message': outcome[2], 'case': case}
        name = hashlib.sha1(json.dumps(case, sort_keys=True).encode()).hexdigest()[:16] + '.json'
        os.makedirs(FINDINGS, exist_ok=True)
        tmp = os.path.join(FINDINGS, f'.{name}.{os.getpid()}')
        with open(tmp, 'w') as fh:
            json.dump(record, fh, indent=1, sort_keys=True)
            fh.write('\n')
        os.replace(tmp, os.path.join(FINDINGS, name))
        known = c03_target.tolerated(signature)
        print('C03-FINDING ' + json.dumps({'signature': signature, 'file': os.path.join(FINDINGS, name), 'known': known, 'case': case, 'message': outcome[2]}), flush=True)
        if known or CONTINUE:
            return
        report_stats()
        raise RuntimeError(f'C03 violation {signature}: {outcome[2]} (saved {name})')

    import atexit

    atexit.register(report_stats)
    atheris.Setup(sys.argv, test_one_input)
    atheris.Fuzz()


if __name__ == '__main__':
    main()
