#!/venv/bin/python
"""fuzz_render.py - atheris (libFuzzer) target for C13: decode, then render every API event and judge it.

input layout:  byte 0 & 7 -> message type (0..5 -> 1..6, 6 and 7 -> 2 UPDATE)
               byte 1     -> session: bit 0 asn4, bit 1 add-path (every family), bit 2 extended next hop
               bytes 2..  -> the message body (cut at 4077 octets)

run:   PYTHONPATH=/repo/src:/verif:/verif/.deps /venv/bin/python fuzz/fuzz_render.py <corpus-dir> -runs=N -seed=S -max_len=4096

What Message.unpack refuses is not C13's business and is just counted.  What decodes is rendered by the four encoders
(parsed, consolidated, packets, negotiated, down) and put through Processes.write, exactly as the corpus-render engine
of props/c13.py does it: a finding is a replayable case of that engine, announced on stdout as `C13-FINDING <json>`
(and saved under $VERIF_C13_FINDINGS when that is set).  Signatures matching $VERIF_C13_KNOWN or the known_findings.json
entries, or already reported by this process, do not stop the run; a new one raises (libFuzzer then writes its crash
artifact) unless VERIF_C13_FUZZ_CONTINUE=1, the mode the check's short campaign uses.

--write-seeds DIR : only write the seed corpus (qa vectors + the witnesses of vlib/c13_findings.py) into DIR and exit.
"""

from __future__ import annotations

import fnmatch
import hashlib
import json
import os
import sys
import time

HERE = os.path.dirname(os.path.abspath(__file__))
ROOT = os.path.dirname(HERE)
os.environ.setdefault('exabgp_log_enable', 'false')
os.environ.setdefault('exabgp_log_level', 'CRITICAL')
if ROOT not in sys.path:
    sys.path.insert(0, ROOT)

TYPE_OF = [1, 2, 3, 4, 5, 6, 2, 2]
FINDINGS = os.environ.get('VERIF_C13_FINDINGS', '')
CONTINUE = os.environ.get('VERIF_C13_FUZZ_CONTINUE', '') == '1'
STATS_EVERY = int(os.environ.get('VERIF_C13_STATS_EVERY', '1000'))
MAX_BODY = 4096 - 19


def split_input(data: bytes) -> dict:
    if len(data) < 2:
        return {'type': 4, 'body': '', 'asn4': True, 'addpath': False, 'extnh': False, 'seed': 'atheris', 'ops': ['atheris']}
    return {
        'type': TYPE_OF[data[0] & 7],
        'body': data[2 : 2 + MAX_BODY].hex(),
        'asn4': bool(data[1] & 1),
        'addpath': bool(data[1] & 2),
        'extnh': bool(data[1] & 4),
        'seed': 'atheris',
        'ops': ['atheris'],
    }


def join_input(case: dict) -> bytes:
    flags = (1 if case['asn4'] else 0) | (2 if case['addpath'] else 0) | (4 if case.get('extnh') else 0)
    return bytes([TYPE_OF.index(case['type']), flags]) + bytes.fromhex(case['body'])


def seed_inputs() -> list:
    from vlib import c13_corpus, c13_findings

    cases = c13_corpus.seed_cases() + c13_findings.cases_for('corpus-render')
    return sorted({join_input(c) for c in cases})


def write_seeds(directory: str) -> int:
    os.makedirs(directory, exist_ok=True)
    seeds = seed_inputs()
    for s in seeds:
        with open(os.path.join(directory, hashlib.sha1(s).hexdigest()), 'wb') as fh:
            fh.write(s)
    return len(seeds)


def main() -> None:
    if len(sys.argv) >= 3 and sys.argv[1] == '--write-seeds':
        print(write_seeds(sys.argv[2]))
        return

    import atheris

    with atheris.instrument_imports(include=['exabgp']):
        import exabgp  # noqa: F401
        from props import c13
        from vlib.runner import Violation

        # the decoders and the renderers import their helpers lazily: walk the seeds while the import hook is active
        for raw in seed_inputs():
            try:
                c13.check_corpus(split_input(raw))
            except Violation:
                pass

    seen: set = set()
    stats = {'execs': 0, 'decoded': 0, 'refused': 0, 'violation': 0, 'started': time.time()}
    muted = list(c13.TOLERATED)

    def report_stats() -> None:
        out = dict(stats)
        out['seconds'] = round(time.time() - out.pop('started'), 2)
        out['signatures'] = sorted(seen)
        print('C13-STATS ' + json.dumps(out), flush=True)

    def test_one_input(data: bytes) -> None:
        case = split_input(data)
        stats['execs'] += 1
        if stats['execs'] % STATS_EVERY == 0:
            report_stats()
        try:
            info = c13.check_corpus(case)
        except Violation as v:
            stats['violation'] += 1
            stats['decoded'] += 1
            signature = v.signature
            if signature in seen:
                return
            seen.add(signature)
            listed = any(fnmatch.fnmatchcase(signature, p) for p in muted) or any(c13.sig_matches(e, signature) for e in c13.known_entries())
            record = {'property': 'C13', 'engine': 'corpus-render', 'signature': signature, 'message': v.message[:600], 'case': case, 'known': listed}
            if FINDINGS:
                os.makedirs(FINDINGS, exist_ok=True)
                name = hashlib.sha1(json.dumps(case, sort_keys=True).encode()).hexdigest()[:16] + '.json'
                with open(os.path.join(FINDINGS, name), 'w') as fh:
                    json.dump(record, fh, indent=1, sort_keys=True)
                    fh.write('\n')
            print('C13-FINDING ' + json.dumps(record), flush=True)
            if listed or CONTINUE:
                return
            report_stats()
            raise RuntimeError(f'C13 violation {signature}: {v.message[:300]}') from None
        if any(c.startswith('refused') for c in info['classes']):
            stats['refused'] += 1
        else:
            stats['decoded'] += 1

    import atexit

    atexit.register(report_stats)
    atheris.Setup(sys.argv, test_one_input)
    atheris.Fuzz()


if __name__ == '__main__':
    main()
