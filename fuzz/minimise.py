#!/venv/bin/python
"""minimise.py - shrink a C03 finding ({'type','neg','hex'}) while it keeps its signature.

usage: PYTHONPATH=/repo/src:/verif /venv/bin/python fuzz/minimise.py <finding.json | replay.json> [...]

1. structure-aware: delete whole TLVs (enclosing lengths repaired), largest first, then empty them
2. byte-level ddmin: delete chunks of decreasing size
3. normalise: set every byte that does not matter to zero
Prints one line per input: signature, type, negotiated set, minimal hex.
"""

from __future__ import annotations

import json
import os
import sys

sys.path.insert(0, os.path.dirname(os.path.dirname(os.path.abspath(__file__))))
os.environ.setdefault('exabgp_log_enable', 'false')

from vlib import c03_mutate as mut  # noqa: E402
from vlib import c03_target as target  # noqa: E402


def signature_of(msg_type: int, neg: int, body: bytes) -> str | None:
    outcome, meter = target.measured(msg_type, body, target.negotiated_for(neg))
    if outcome[0] == 'violation':
        return outcome[1]
    bad = target.cost_violation(meter, len(body))
    return bad[1] if bad else None


def minimise(msg_type: int, neg: int, body: bytes, want: str) -> bytes:
    def holds(candidate: bytes) -> bool:
        return signature_of(msg_type, neg, candidate) == want

    progress = True
    while progress:
        progress = False
        flat = mut.flatten(mut.tree_for(msg_type, body))
        for node, chain in sorted(flat, key=lambda x: x[0]['start'] - x[0]['end']):
            for op in ('delete', 'empty'):
                candidate = mut.apply(body, node, chain, op, 0, 0)
                if len(candidate) < len(body) and holds(candidate):
                    body = candidate
                    progress = True
                    break
            if progress:
                break
    chunk = max(1, len(body) // 2)
    while chunk >= 1:
        pos = 0
        while pos < len(body):
            candidate = body[:pos] + body[pos + chunk :]
            if holds(candidate):
                body = candidate
            else:
                pos += chunk
        chunk //= 2
    for i in range(len(body)):
        if body[i] and holds(body[:i] + b'\x00' + body[i + 1 :]):
            body = body[:i] + b'\x00' + body[i + 1 :]
    return body


def main() -> None:
    for path in sys.argv[1:]:
        with open(path) as fh:
            data = json.load(fh)
        case = data.get('case', data)
        if 'shape' in case:
            # a valid-unusual case is a recipe, not bytes: render it first
            from props import c03

            t, body = c03.build_unusual(case)
            case = {'type': t, 'neg': case['neg'], 'hex': body.hex()}
        if 'type' not in case:
            print(f'{path}: not a bytes case')
            continue
        msg_type, neg = int(case['type']), int(case['neg'])
        body = bytes.fromhex(case['hex'])[: target.msg_size(neg) - 19]
        want = signature_of(msg_type, neg, body)
        if want is None:
            print(f'{path}: does not reproduce')
            continue
        small = minimise(msg_type, neg, body, want)
        print(json.dumps({'signature': want, 'type': msg_type, 'neg': neg, 'neg_name': target.NEG_NAMES[neg], 'bytes': len(small), 'hex': small.hex()}))


if __name__ == '__main__':
    main()
