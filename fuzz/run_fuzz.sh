#!/bin/bash
# usage: fuzz/run_fuzz.sh [runs] [seed] [extra libFuzzer flags...]
# fresh temporary corpus seeded from the qa vectors, one libFuzzer process on fuzz_decode.py; findings go to fuzz/findings/
# VERIF_C03_KNOWN=pattern,...  mutes diagnosed signatures; VERIF_C03_FUZZ_CONTINUE=1 keeps going after a new one
here="$(cd "$(dirname "$0")/.." && pwd)"
runs="${1:-100000}"; seed="${2:-1}"; shift 2 2>/dev/null
export VERIF_REPO_SRC="${VERIF_REPO_SRC:-/repo/src}"
export PYTHONPATH="$VERIF_REPO_SRC:$here:$here/.deps" PYTHONHASHSEED=0 exabgp_log_enable=false
corpus="$(mktemp -d /tmp/c03-corpus.XXXXXX)"
trap 'rm -rf "$corpus"' EXIT
/venv/bin/python "$here/fuzz/fuzz_decode.py" --write-seeds "$corpus" > /dev/null || exit 2
/venv/bin/python "$here/fuzz/fuzz_decode.py" "$corpus" -runs="$runs" -seed="$seed" -max_len=4096 -timeout=25 -artifact_prefix="$corpus/" "$@" 2>&1 | grep -E "^C03-|Done|DONE|ERROR|Traceback|Error"
