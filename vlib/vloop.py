"""vloop.py - an asyncio event loop on virtual time.

The selector never sleeps: when no file descriptor is ready the virtual clock jumps to the next
timer.  `patched_time()` rebinds time.time / time.sleep / time.monotonic (every exabgp user does
`import time; time.time()`) to the loop clock for the duration of a case.
"""

from __future__ import annotations

import asyncio
import contextlib
import selectors
import time as _time


class Deadlock(Exception):
    """nothing is ready and no timer is scheduled: the harness wrote a schedule that cannot progress"""


class _VirtualSelector:
    def __init__(self, loop: 'VirtualLoop') -> None:
        self._sel = selectors.DefaultSelector()
        self._loop = loop

    def __getattr__(self, name: str):
        return getattr(self._sel, name)

    def select(self, timeout=None):
        loop = self._loop
        events = self._sel.select(0)
        if events:
            loop._idle_spins = 0
            return events
        if timeout is None:
            raise Deadlock('no I/O ready and no timer scheduled')
        if timeout > 0:
            loop._vtime += timeout
            loop._idle_spins = 0
            return []
        # timeout == 0: something is runnable right now.  exabgp's main loop (and a passive peer) spin on
        # sleep(0); when the only runnable things are such spinners, nothing will happen before the next timer
        # or I/O, and the clock jumps there as it would on an idle loop.  Anything else runnable = real work:
        # it costs a little virtual time and never skips a timer.
        loop._total_spins += 1
        if loop._only_spinners_ready():
            loop._idle_spins += 1
        else:
            loop._idle_spins = 0
        if loop._idle_spins >= loop.SPIN_LIMIT:
            nxt = loop._next_timer()
            if nxt is None:
                if loop._idle_spins > 200000:
                    raise Deadlock('spinning with no timer scheduled')
                loop._vtime += loop.SPIN_COST
            elif nxt > loop._vtime:
                loop._vtime = nxt
                loop._idle_spins = 0
            else:
                loop._vtime += loop.SPIN_COST
        else:
            loop._vtime += loop.SPIN_COST
        return []


class VirtualLoop(asyncio.SelectorEventLoop):
    EPOCH = 1_700_000_000.0

    def __init__(self) -> None:
        self._vtime = 0.0
        sel = _VirtualSelector(self)
        super().__init__(selector=sel)  # type: ignore[arg-type]
        self._clock_resolution = 1e-9
        self._idle_spins = 0
        self._total_spins = 0

    SPIN_LIMIT = 4
    SPIN_COST = 0.0001
    is_spinner = None  # callable(task) -> bool, installed by the harness

    def _only_spinners_ready(self) -> bool:
        if self.is_spinner is None:
            return False
        for handle in self._ready:
            if handle._cancelled:
                continue
            task = getattr(handle._callback, '__self__', None)
            if not isinstance(task, asyncio.Task) or not self.is_spinner(task):
                return False
        return True

    def note_activity(self) -> None:
        """the harness saw something observable happen (bytes written, state change): do not skip time yet"""
        self._idle_spins = 0

    def _next_timer(self):
        for handle in sorted(self._scheduled)[:8] if len(self._scheduled) < 64 else [self._scheduled[0]]:
            if not handle._cancelled:
                return handle._when
        return self._scheduled[0]._when if self._scheduled else None

    def time(self) -> float:
        return self._vtime

    def wall(self) -> float:
        return self.EPOCH + self._vtime


@contextlib.contextmanager
def patched_time(loop: VirtualLoop):
    saved = (_time.time, _time.sleep, _time.monotonic, _time.perf_counter)
    _time.time = loop.wall  # type: ignore[assignment]
    _time.monotonic = loop.time  # type: ignore[assignment]

    def _sleep(seconds: float) -> None:
        loop._vtime += max(0.0, seconds)

    _time.sleep = _sleep  # type: ignore[assignment]
    try:
        yield
    finally:
        _time.time, _time.sleep, _time.monotonic, _time.perf_counter = saved  # type: ignore[assignment]


def run(coro_factory, limit_virtual_s: float = 36000.0):
    """run one case to completion on a fresh virtual loop; returns the coroutine's result"""
    loop = VirtualLoop()
    asyncio.set_event_loop(loop)
    try:
        with patched_time(loop):
            return loop.run_until_complete(coro_factory(loop))
    finally:
        try:
            with patched_time(loop):
                pending = [t for t in asyncio.all_tasks(loop) if not t.done()]
                for t in pending:
                    t.cancel()
                if pending:
                    loop.run_until_complete(asyncio.gather(*pending, return_exceptions=True))
        except Exception:  # noqa: BLE001
            pass
        loop.close()
        asyncio.set_event_loop(None)
