"""c19_decode.py - the worker run inside vlib.forkiso for C19: sessions table, decode one message, canonical result.

Imported (cheaply: exabgp is only imported by `setup()`) by props/c19.py for the session descriptions, and by the
forkiso template, where `setup()` runs once and `run(job)` runs in a fork per job.

job = {'mode': 'single',   'message': [session index, message type, body hex]}            -> result
      {'mode': 'sequence', 'messages': [[session index, message type, body hex], ...]}    -> {'first': [result...],
                                     'again': [rendering repeated at once...], 'later': [rendering repeated at the end...]}

result = {'outcome': 'ok' | 'notify c/s' | 'exception Type@file:function',
          'routes', 'attributes', 'json6', 'json4', 'str', 'rib'}   (every field a string or a JSON-able list)
"""

from __future__ import annotations

import os
import re

# three sessions with different negotiated parameters (refwire.strategies session descriptions)
SESSIONS = [
# (aigp is not negotiated on the wire: it is the neighbor's `capability aigp` setting, and the AIGP decoder reads it)
    {'name': 'A', 'asn4': True, 'aigp': True, 'families': [[1, 1], [2, 1]], 'addpath': [], 'peer_as': 65001},
    {'name': 'B', 'asn4': False, 'aigp': True, 'families': [[1, 1], [1, 4]], 'addpath': [[1, 1]], 'peer_as': 65002},
    {'name': 'C', 'asn4': True, 'aigp': False, 'families': [[1, 1], [2, 1], [1, 128]], 'addpath': [[2, 1]], 'peer_as': 70000},
    # (appended: stored cases name sessions by position) FlowSpec for both address families: component types are shared, meanings are not
    {'name': 'D', 'asn4': True, 'aigp': True, 'families': [[1, 1], [1, 133], [2, 133]], 'addpath': [], 'peer_as': 65001},
    # session A's neighbor established once more, its peer now offering IPv4 unicast only: one neighbor object, two negotiation results
    {'name': 'E', 'asn4': True, 'aigp': True, 'families': [[1, 1]], 'addpath': [], 'peer_as': 65001, 'same_neighbor_as': 0},
]
PARAMETERS = ('asn4', 'aigp', 'families', 'addpath')
FAMILY_TEXT = {(1, 1): 'ipv4 unicast', (1, 2): 'ipv4 multicast', (1, 4): 'ipv4 nlri-mpls', (1, 128): 'ipv4 mpls-vpn', (2, 1): 'ipv6 unicast', (2, 4): 'ipv6 nlri-mpls', (2, 128): 'ipv6 mpls-vpn', (1, 133): 'ipv4 flow', (2, 133): 'ipv6 flow'}

OPEN, UPDATE, NOTIFICATION, KEEPALIVE, ROUTE_REFRESH = 1, 2, 3, 4, 5

_T: dict = {}  # filled by setup(): what a process has once its sessions are up

_MASKS = [
    (re.compile(r'"time": [0-9.eE+-]+'), '"time": T'),
    (re.compile(r'"host" : "[^"]*"'), '"host" : "H"'),
    (re.compile(r'"pid" : \d+'), '"pid" : P'),
    (re.compile(r'"ppid" : \d+'), '"ppid" : P'),
    (re.compile(r'"counter": \d+'), '"counter": N'),
]


def mask(text: str) -> str:
    """the event header carries time, host, pid, ppid and a per-neighbor event counter: they legitimately vary"""
    for rx, repl in _MASKS:
        text = rx.sub(repl, text, count=1)
    return text


def setup() -> dict:
    from vlib import exa
    from vlib.refwire import strategies as ws

    from exabgp.protocol.family import AFI, SAFI
    from exabgp.reactor.api.response import Response
    from exabgp.reactor.peer.context import PeerContext
    from exabgp.reactor.peer.handlers import UpdateHandler
    from exabgp.version import json as json_version
    from exabgp.version import json_v4, text_v4
    import collections

    sessions = []
    for i, s in enumerate(SESSIONS):
        fams = [FAMILY_TEXT[tuple(f)] for f in s['families']]
        ap = [FAMILY_TEXT[tuple(f)] for f in s['addpath']]
        text = exa.neighbor_text(
            # RIB objects are shared process-wide by neighbor name: every session has its own peer address
            peer_ip=f'127.19.0.{i + 1}',
            local_as=65000,
            peer_as=s['peer_as'],
            families=fams,
            capability={'asn4': 'enable', 'add-path': 'send/receive' if ap else 'disable', 'aigp': 'enable' if s['aigp'] else 'disable'},
            addpath_families=ap or None,
            extra='  adj-rib-in true;',
        )
        if 'same_neighbor_as' in s:
            neighbor = sessions[s['same_neighbor_as']]['neighbor']
        else:
            _conf, neighbor = exa.neighbor_from_text(text)
        desc = {k: s[k] for k in ('asn4', 'families', 'addpath', 'peer_as')}
        neg = exa.negotiate(neighbor, ws.peer_open_for(desc), exa.Direction.IN)
        assert bool(neg.asn4) == s['asn4'] and bool(neg.aigp) == s['aigp'], (s, neg.asn4, neg.aigp)
        for fam in s['families']:
            assert bool(neg.required(AFI.from_int(fam[0]), SAFI.from_int(fam[1]))) == (fam in s['addpath']), (s, fam)
        ctx = PeerContext(proto=None, neighbor=neighbor, negotiated=neg, refresh_enhanced=False, routes_per_iteration=25, peer_id=f'c19-{s["name"]}', stats=collections.defaultdict(int))
        sessions.append({'neighbor': neighbor, 'negotiated': neg, 'ctx': ctx, 'handler': UpdateHandler()})
    _T['sessions'] = sessions
    _T['json6'] = Response.JSON(json_version)
    _T['json4'] = Response.V4.JSON(json_v4)
    _T['text'] = Response.Text(text_v4)
    _T['repo'] = exa.REPO_SRC
    # nothing is reset here: the template is what a just-started process with its sessions up looks like
    # (negotiating decoded the three peers' OPENs, no UPDATE was ever decoded)
    return {'sessions': [s['name'] for s in SESSIONS], 'repo': exa.REPO_SRC}


def _where(exc: BaseException) -> str:
    repo = _T.get('repo', '/repo/src')
    where = 'outside-exabgp'
    tb = exc.__traceback__
    while tb is not None:  # (no traceback.extract_tb: it reads the source files)
        code = tb.tb_frame.f_code
        if code.co_filename.startswith(repo):
            where = f'{os.path.relpath(code.co_filename, repo)}:{code.co_name}'
        tb = tb.tb_next
    return where


def _exc(exc: BaseException) -> str:
    return f'exception {type(exc).__name__}@{_where(exc)}'


def _field(fn) -> object:
    try:
        return fn()
    except Exception as exc:  # noqa: BLE001 - part of the observation
        return f'{_exc(exc)}: {str(exc)[:200]}'


def _nlri_view(nlri) -> list:
    return [int(nlri.afi), int(nlri.safi), _field(nlri.extensive), _field(lambda: nlri.json()), _field(lambda: bytes(nlri.index()).hex())]


def _attribute_view(collection) -> list:
    out = []
    for code in sorted(collection.keys()):
        attr = collection[code]
        packed = getattr(attr, '_packed', None)
        out.append(
            [
                code,
                type(attr).__name__,
                _field(lambda: int(attr.ID)),
                _field(lambda: int(attr.FLAG)),
                _field(lambda: str(attr)),
                _field(lambda: attr.json()),
                bytes(packed).hex() if isinstance(packed, (bytes, bytearray, memoryview)) else None,
            ]
        )
    return out


def render(sidx: int, mtype: int, msg) -> dict:
    """everything observable about one decoded message, as the API encoders and str() show it (lazy parts forced)"""
    s = _T['sessions'][sidx]
    neighbor, neg = s['neighbor'], s['negotiated']
    j6, j4, tx = _T['json6'], _T['json4'], _T['text']
    out: dict = {'routes': [], 'attributes': []}
    if mtype == UPDATE:
        if getattr(msg, 'IS_EOR', False):
            collection = msg
            out['routes'] = _field(lambda: [['eor'] + _nlri_view(n) for n in msg.nlris])
            out['attributes'] = _field(lambda: _attribute_view(msg.attributes))
        else:
            collection = _field(lambda: msg.data)
            if isinstance(collection, str):  # the lazy parse failed: that is the observation
                return {'routes': collection, 'attributes': collection, 'json6': collection, 'json4': collection, 'str': collection}
            out['routes'] = _field(
                lambda: sorted([['announce'] + _nlri_view(r.nlri) + [str(r.nexthop)] for r in collection.announces])
                + sorted([['withdraw'] + _nlri_view(n) for n in collection.withdraws])
            )
            out['attributes'] = _field(lambda: _attribute_view(collection.attributes))
        out['json6'] = _field(lambda: mask(j6.update(neighbor, 'receive', collection, b'', b'', neg)))
        out['json4'] = _field(lambda: mask(j4.update(neighbor, 'receive', collection, b'', b'', neg)))
        out['str'] = _field(
            lambda: tx.update(neighbor, 'receive', collection, b'', b'', neg)
            + '\n'
            + repr(msg)[:40].split(' at 0x')[0]
            + '\n'
            + (str(collection) if not getattr(msg, 'IS_EOR', False) else str(collection.nlris))
            + '\n'
            + str(collection.attributes)
            + '\n'
            + bytes(collection.attributes.index()).hex()
        )
    elif mtype == OPEN:
        out['attributes'] = _field(lambda: [[int(k), type(v).__name__, int(getattr(v, 'ID', -1)), str(v), v.json()] for k, v in msg.capabilities.items()])
        out['json6'] = _field(lambda: mask(j6.open(neighbor, 'receive', msg, b'', b'', neg)))
        out['json4'] = _field(lambda: mask(j4.open(neighbor, 'receive', msg, b'', b'', neg)))
        out['str'] = _field(lambda: tx.open(neighbor, 'receive', msg, b'', b'', neg) + '\n' + str(msg))
    elif mtype == NOTIFICATION:
        out['json6'] = _field(lambda: mask(j6.notification(neighbor, 'receive', msg, b'', b'', neg)))
        out['json4'] = _field(lambda: mask(j4.notification(neighbor, 'receive', msg, b'', b'', neg)))
        out['str'] = _field(lambda: tx.notification(neighbor, 'receive', msg, b'', b'', neg) + '\n' + str(msg))
    elif mtype == KEEPALIVE:
        out['json6'] = _field(lambda: mask(j6.keepalive(neighbor, 'receive', b'', b'', neg)))
        out['json4'] = _field(lambda: mask(j4.keepalive(neighbor, 'receive', b'', b'', neg)))
        out['str'] = _field(lambda: tx.keepalive(neighbor, 'receive', b'', b'', neg) + '\n' + str(msg))
    elif mtype == ROUTE_REFRESH:
        out['json6'] = _field(lambda: mask(j6.refresh(neighbor, 'receive', msg, b'', b'', neg)))
        out['json4'] = _field(lambda: mask(j4.refresh(neighbor, 'receive', msg, b'', b'', neg)))
        out['str'] = _field(lambda: tx.refresh(neighbor, 'receive', msg, b'', b'', neg) + '\n' + str(msg))
    else:
        out['json6'] = out['json4'] = out['str'] = f'type {mtype}'
    return out


def _run_handler(sidx: int, msg) -> str:
    """the inbound UPDATE handler (Adj-RIB-In), as the peer loop runs it after the API saw the message"""
    s = _T['sessions'][sidx]
    coro = s['handler'].handle_async(s['ctx'], msg)
    try:
        coro.send(None)
    except StopIteration:
        return 'ok'
    except Exception as exc:  # noqa: BLE001
        return _exc(exc)
    coro.close()
    return 'handler awaited'


def decode(sidx: int, mtype: int, body: bytes):
    """-> (outcome, message object or None, detail)"""
    from exabgp.bgp.message import Message
    from exabgp.bgp.message.notification import Notify

    neg = _T['sessions'][sidx]['negotiated']
    try:
        return 'ok', Message.unpack(mtype, body, neg), ''
    except Notify as exc:
        return f'notify {exc.code}/{exc.subcode}', None, str(exc)[:300]
    except Exception as exc:  # noqa: BLE001 - protocol.read_message turns these into NOTIFICATION 1/0
        return _exc(exc), None, str(exc)[:300]


def process(sidx: int, mtype: int, body: bytes) -> tuple[dict, object]:
    outcome, msg, detail = decode(sidx, mtype, body)
    if msg is None:
        return {'outcome': outcome, 'routes': [], 'attributes': [], 'json6': '', 'json4': '', 'str': detail, 'rib': ''}, None
    result = render(sidx, mtype, msg)
    result['outcome'] = outcome
    result['rib'] = _run_handler(sidx, msg) if mtype == UPDATE else ''
    return result, msg


def run(job: dict):
    if job['mode'] == 'single':
        sidx, mtype, hexbody = job['message']
        return process(sidx, mtype, bytes.fromhex(hexbody))[0]
    if job['mode'] == 'sequence':
        first, again, kept = [], [], []
        for sidx, mtype, hexbody in job['messages']:
            result, msg = process(sidx, mtype, bytes.fromhex(hexbody))
            first.append(result)
            kept.append(msg)
            # the same rendering repeated at once: tells "rendering is not repeatable" from "a later message altered it"
            again.append(render(sidx, mtype, msg) if msg is not None else None)
        later = [render(sidx, mtype, msg) if msg is not None else None for (sidx, mtype, _), msg in zip(job['messages'], kept)]
        return {'first': first, 'again': again, 'later': later}
    raise ValueError(f'unknown job mode {job.get("mode")!r}')
