"""c13_corpus - the qa vectors as seed messages + light, structure-aware byte mutation (nothing here imports exabgp)

SEEDS: [ {name, type, hex (message body), asn4, addpath} ]  every `N:raw:` message of qa/encoding/*.ci and every
message of qa/decoding/* (UPDATE, OPEN; bare NLRI vectors are wrapped into an MP_REACH UPDATE).

mutated_messages() is a Hypothesis strategy for {'type', 'body' (hex), 'asn4', 'addpath', 'seed', 'ops'}: the body is
final (the replay needs nothing else).  UPDATEs are split into their attributes with refwire and re-assembled after
the mutation, so the outer lengths stay right and the damage lands inside attribute values / TLVs / NLRIs - the
"nested, partially valid" structures.  Whatever still decodes is rendered.
"""

from __future__ import annotations

import glob
import os
import re
import struct

from hypothesis import strategies as st

from vlib import c13_tlv as tlv
from vlib.refwire import build, codec

REPO = os.path.dirname(os.environ.get('VERIF_REPO_SRC', '/repo/src').rstrip('/'))
if not os.path.isdir(os.path.join(REPO, 'qa')):
    REPO = '/repo'  # a mutated scratch copy holds only src/: the vectors are read from the real tree
ETC = os.path.join(REPO, 'etc', 'exabgp')
QA_ENCODING = os.path.join(REPO, 'qa', 'encoding')
QA_DECODING = os.path.join(REPO, 'qa', 'decoding')

SEEDS: list[dict] = []


def _conf_options(conf_name: str) -> tuple[bool, bool, bool]:
    try:
        with open(os.path.join(ETC, conf_name)) as fh:
            text = re.sub(r'#.*', '', fh.read())
    except OSError:
        return False, True, False
    addpath = bool(re.search(r'add-path\s+(send|receive|send/receive)\s*;', text))
    asn4 = not re.search(r'asn4\s+disable\s*;', text)
    extnh = bool(re.search(r'nexthop\s+(true|enable)\s*;', text))
    return addpath, asn4, extnh


def _add(name: str, msg_type: int, body: bytes, asn4: bool, addpath: bool, extnh: bool = False) -> None:
    if any(s['hex'] == body.hex() and s['type'] == msg_type and s['addpath'] == addpath and s['asn4'] == asn4 for s in SEEDS):
        return
    SEEDS.append({'name': name, 'type': msg_type, 'hex': body.hex(), 'asn4': asn4, 'addpath': addpath, 'extnh': extnh})


def _hexline(line: str) -> bytes:
    return bytes.fromhex(re.sub(r'[^0-9A-Fa-f]', '', line))


def _strip_header(raw: bytes) -> tuple[int, bytes] | None:
    if len(raw) >= 19 and raw[:16] == b'\xff' * 16:
        return raw[18], raw[19:]
    return None


def _build() -> None:
    for path in sorted(glob.glob(os.path.join(QA_ENCODING, '*.ci'))):
        name = os.path.basename(path)[:-3]
        addpath, asn4, extnh = False, True, False
        n = 0
        with open(path) as fh:
            for line in fh.read().splitlines():
                if line.startswith('option:file:'):
                    addpath, asn4, extnh = _conf_options(line.split(':', 2)[2].strip())
                    continue
                m = re.match(r'^\w+:raw:([0-9A-Fa-f:]+)$', line.strip())
                if not m:
                    continue
                got = _strip_header(bytes.fromhex(m.group(1).replace(':', '')))
                if got is None:
                    continue
                n += 1
                _add(f'enc:{name}#{n}', got[0], got[1], asn4, addpath, extnh)
    for path in sorted(glob.glob(os.path.join(QA_DECODING, '*'))):
        name = os.path.basename(path)
        with open(path) as fh:
            lines = fh.read().splitlines()
        if len(lines) < 2:
            continue
        what = lines[0].split()
        try:
            raw = _hexline(lines[1])
        except ValueError:
            continue
        if what[0] == 'open':
            got = _strip_header(raw)
            if got:
                _add(f'dec:{name}', got[0], got[1], True, False)
        elif what[0] == 'update':
            got = _strip_header(raw)
            body = got[1] if got else raw
            _add(f'dec:{name}', 2, body, True, False, 'extended-nexthop' in name)
        elif what[0] == 'nlri' and what[1:] == ['bgp-ls', 'bgp-ls']:
            mp = struct.pack('!HBB', 16388, 71, 4) + build.ip('10.0.0.2') + b'\x00' + raw
            attrs = build.attribute(0x40, 1, b'\x00') + build.attribute(0x40, 2, b'') + build.attribute(0x40, 5, struct.pack('!L', 100)) + build.attribute(0x90, 14, mp)
            _add(f'dec:{name}', 2, build.update_body(b'', attrs, b''), True, False)
    # the message types the vectors do not hold
    _add('fixed:keepalive', 4, b'', True, False)
    for afi, safi, sub in ((1, 1, 0), (2, 1, 1), (1, 128, 2), (25, 70, 0), (16388, 71, 0), (9, 9, 9), (0, 0, 255)):
        _add(f'fixed:refresh-{afi}-{safi}-{sub}', 5, build.route_refresh(afi, safi, sub), True, False)
    rid = build.ip('10.0.0.2')
    for what, value in (
        (1, struct.pack('!HB', 1, 1) + b'maintenance at 10pm'),
        (2, struct.pack('!HB', 2, 1) + b'static advisory'),
        (3, struct.pack('!HB', 1, 1) + rid + struct.pack('!L', 7)),
        (4, struct.pack('!HB', 1, 1) + rid + struct.pack('!LL', 7, 1000)),
        (5, struct.pack('!HB', 2, 1) + rid + struct.pack('!L', 8)),
        (6, struct.pack('!HB', 2, 1) + rid + struct.pack('!LL', 8, 0)),
        (7, struct.pack('!HB', 1, 128) + rid + struct.pack('!L', 9)),
        (8, struct.pack('!HB', 1, 128) + rid + struct.pack('!LL', 9, 2**32 - 1)),
        (0xFFFF, struct.pack('!HB', 1, 1) + rid + struct.pack('!LH', 9, 1)),
        (13, b'\x00\x01\x02'),
    ):
        _add(f'fixed:operational-{what}', 6, struct.pack('!HH', what, len(value)) + value, True, False)
    for code, sub, data in ((6, 2, b'\x0bgoing down!'), (6, 4, b'\x00'), (2, 7, b'\x41\x04\x00\x00\xfd\xe9'), (4, 0, b''), (1, 2, b'\x00\x12'), (3, 5, b'\xc0\x08\x03\x00\x00\x00'), (6, 1, b'\x00\x01\x01\x00\x00\x03\xe8')):
        _add(f'fixed:notification-{code}-{sub}', 3, build.notification(code, sub, data), True, False)


_build()

UPDATE_SEEDS = [i for i, s in enumerate(SEEDS) if s['type'] == 2]
OTHER_SEEDS = [i for i, s in enumerate(SEEDS) if s['type'] != 2]

INTERESTING = [0x00, 0x01, 0x02, 0x03, 0x04, 0x05, 0x06, 0x07, 0x08, 0x10, 0x20, 0x22, 0x5C, 0x0A, 0x0D, 0x40, 0x7F, 0x80, 0xC3, 0xE2, 0xF0, 0xFE, 0xFF]


def split_update(body: bytes) -> tuple[bytes, list, bytes] | None:
    try:
        wlen = struct.unpack('!H', body[:2])[0]
        withdrawn = body[2 : 2 + wlen]
        alen = struct.unpack('!H', body[2 + wlen : 4 + wlen])[0]
        if 4 + wlen + alen > len(body):
            return None
        attrs = body[4 + wlen : 4 + wlen + alen]
        nlri = body[4 + wlen + alen :]
        return withdrawn, [list(p) for p in codec.split_attributes(attrs)], nlri
    except Exception:  # noqa: BLE001 - not an UPDATE refwire can split
        return None


def join_update(withdrawn: bytes, parts: list, nlri: bytes) -> bytes:
    attrs = b''.join(build.attribute(f & 0xEF, c, v, bool(f & 0x10)) for f, c, v in parts)
    return build.update_body(withdrawn, attrs, nlri)


_SPLIT: dict = {}


def seed_parts(i: int):
    if i not in _SPLIT:
        _SPLIT[i] = split_update(bytes.fromhex(SEEDS[i]['hex']))
    return _SPLIT[i]


# attribute values by code over the whole corpus: splice material
ATTR_BANK: dict = {}
for _i in UPDATE_SEEDS:
    _p = seed_parts(_i)
    if _p:
        for _f, _c, _v in _p[1]:
            bank = ATTR_BANK.setdefault(_c, [])
            if (_f, _v) not in bank:
                bank.append((_f, _v))
BANK_CODES = sorted(ATTR_BANK)


@st.composite
def mutate_bytes(draw, data: bytes, ops: list, tag: str) -> bytes:
    """one to three small edits inside `data` (its own length may change: the caller re-computes what encloses it)"""
    out = bytearray(data)
    for _ in range(draw(st.sampled_from([1, 1, 2, 3]))):
        op = draw(st.sampled_from(['set', 'set', 'flip', 'interesting', 'dup', 'delete', 'insert', 'inc', 'dec']))
        if not out and op not in ('insert',):
            op = 'insert'
        pos = draw(st.integers(0, max(0, len(out) - 1)))
        if op == 'set':
            out[pos] = draw(st.integers(0, 255))
        elif op == 'flip':
            out[pos] ^= 1 << draw(st.integers(0, 7))
        elif op == 'interesting':
            out[pos] = draw(st.sampled_from(INTERESTING))
        elif op == 'inc':
            out[pos] = (out[pos] + 1) & 0xFF
        elif op == 'dec':
            out[pos] = (out[pos] - 1) & 0xFF
        elif op == 'dup':
            end = min(len(out), pos + draw(st.sampled_from([1, 2, 3, 4, 7, 8, 12, 16, 24])))
            out[end:end] = out[pos:end]
        elif op == 'delete':
            end = min(len(out), pos + draw(st.sampled_from([1, 1, 2, 3, 4, 8])))
            del out[pos:end]
        elif op == 'insert':
            out[pos:pos] = draw(st.one_of(st.binary(min_size=1, max_size=6), st.sampled_from([b'\x00\x00', b'\xff\xff', b'"', b'\\', b'\n', b'\xc3\xa9', b'\x00\x01\x00\x00', b'\x04\x02\x00\x04'])))
        ops.append(f'{tag}:{op}')
    return bytes(out)


@st.composite
def mutated_messages(draw) -> dict:
    pick_update = draw(st.integers(0, 9)) < 8
    i = draw(st.sampled_from(UPDATE_SEEDS if pick_update else OTHER_SEEDS))
    seed = SEEDS[i]
    body = bytes.fromhex(seed['hex'])
    ops: list = []
    level = draw(st.sampled_from(['none', 'light', 'light', 'light', 'splice', 'heavy']))
    if level != 'none':
        parts = seed_parts(i) if seed['type'] == 2 else None
        if parts is None:
            body = draw(mutate_bytes(body, ops, 'body'))
        else:
            withdrawn, attrs, nlri = parts[0], [list(a) for a in parts[1]], parts[2]
            rounds = 1 if level != 'heavy' else draw(st.integers(2, 4))
            for _ in range(rounds):
                choice = draw(st.sampled_from(['attr', 'attr', 'attr', 'tlv', 'tlv', 'tlv', 'tlv', 'nlri', 'splice', 'add', 'drop', 'dup-attr', 'flags'] if level != 'splice' else ['splice', 'add', 'add', 'tlv']))
                if choice == 'tlv':
                    trees = [j for j, a in enumerate(attrs) if a[1] in tlv.ATTRIBUTE_LAYOUT or (a[1] in (14, 15) and (tlv.split_mp(a[2], a[1] == 14) or [None])[0] in tlv.NLRI_LAYOUT)]
                    if not trees:
                        choice = 'attr'
                    else:
                        k = draw(st.sampled_from(trees))
                        code = attrs[k][1]
                        if code in (14, 15):
                            fam, head, field = tlv.split_mp(attrs[k][2], code == 14)
                            new = None if seed['addpath'] else draw(tlv.mutate_tree(field, tlv.NLRI_LAYOUT[fam], ops, f'nlri{fam[0]}/{fam[1]}'))
                            if new is not None:
                                attrs[k][2] = head + new
                        else:
                            new = draw(tlv.mutate_tree(attrs[k][2], tlv.ATTRIBUTE_LAYOUT[code], ops, f'attr{code}'))
                            if new is not None:
                                attrs[k][2] = new
                        if new is None:
                            choice = 'attr'
                        else:
                            continue
                if choice == 'nlri' and not (nlri or withdrawn):
                    choice = 'attr'
                if choice in ('attr', 'flags', 'drop', 'dup-attr', 'splice') and not attrs:
                    choice = 'add'
                if choice == 'attr':
                    # the larger the value the more structure it holds: weight by length
                    k = draw(st.sampled_from([j for j, a in enumerate(attrs) for _ in range(1 + min(8, len(a[2]) // 8))]))
                    attrs[k][2] = draw(mutate_bytes(attrs[k][2], ops, f'attr{attrs[k][1]}'))
                elif choice == 'nlri':
                    if nlri and (not withdrawn or draw(st.booleans())):
                        nlri = draw(mutate_bytes(nlri, ops, 'nlri'))
                    else:
                        withdrawn = draw(mutate_bytes(withdrawn, ops, 'withdrawn'))
                elif choice == 'splice':
                    k = draw(st.integers(0, len(attrs) - 1))
                    if attrs[k][1] in ATTR_BANK:
                        f, v = draw(st.sampled_from(ATTR_BANK[attrs[k][1]]))
                        attrs[k] = [f, attrs[k][1], v]
                        ops.append(f'splice{attrs[k][1]}')
                elif choice == 'add':
                    code = draw(st.sampled_from(BANK_CODES))
                    f, v = draw(st.sampled_from(ATTR_BANK[code]))
                    if code not in [a[1] for a in attrs] or draw(st.integers(0, 3)) == 0:
                        attrs.insert(draw(st.integers(0, len(attrs))), [f, code, v])
                        ops.append(f'add{code}')
                elif choice == 'drop':
                    k = draw(st.integers(0, len(attrs) - 1))
                    ops.append(f'drop{attrs[k][1]}')
                    del attrs[k]
                elif choice == 'dup-attr':
                    k = draw(st.integers(0, len(attrs) - 1))
                    attrs.insert(k, list(attrs[k]))
                    ops.append(f'dup-attr{attrs[k][1]}')
                elif choice == 'flags':
                    k = draw(st.integers(0, len(attrs) - 1))
                    attrs[k][0] ^= draw(st.sampled_from([0x80, 0x40, 0x20]))
                    ops.append(f'flags{attrs[k][1]}')
            body = join_update(withdrawn, attrs, nlri)
    asn4 = seed['asn4'] if draw(st.integers(0, 5)) else not seed['asn4']
    addpath = seed['addpath'] if draw(st.integers(0, 7)) else not seed['addpath']
    return {'type': seed['type'], 'body': body.hex(), 'asn4': asn4, 'addpath': addpath, 'extnh': seed['extnh'], 'seed': seed['name'], 'ops': ops}


def seed_cases() -> list:
    """every vector, unmodified, with the session it was written for"""
    return [{'type': s['type'], 'body': s['hex'], 'asn4': s['asn4'], 'addpath': s['addpath'], 'extnh': s['extnh'], 'seed': s['name'], 'ops': []} for s in SEEDS]
