"""c13_render - "decode, then render every API event the way Processes does, then hand it to the real Processes.write"

render(msg_type, body, session) -> (message | None, [Event])

One Event per (encoder, event kind, consolidate) the message type allows:

  encoder   json6 = Response.JSON(version.json)            what Processes._start picks for API v6
            json4 = Response.V4.JSON(version.json_v4)      API v4, encoder json
            text4 = Response.V4.Text(version.text_v4)      API v4, encoder text
            text6 = Response.Text(version.json)            exists in the tree, Processes._start never picks it (reported apart)
  kind      open / update / eor / notification / keepalive / refresh / operational   (Processes._open, _update, ...)
            packets                                         (Processes.packets: header and body as hex)
            negotiated                                      (Processes.negotiated after a valid OPEN)
            down                                            (Processes.down with the reason Peer._reset builds for a NOTIFICATION)
  consolidate  'c' = header and body handed to the parsed event (receive-consolidate), 'p' = b'' and b'' (receive-parsed)

Every string is then given to Processes.write in async queue mode (a fake entry in _process, _async_mode True): the
bytes which land in _write_queue are what the API process would read.
"""

from __future__ import annotations

import struct
from typing import Any

from vlib import exa

MARKER = b'\xff' * 16

_ENCODERS: dict = {}
_PROCESSES: list = []


def encoders() -> dict:
    if not _ENCODERS:
        from exabgp.reactor.api.response import Response
        from exabgp.version import json as json_version
        from exabgp.version import json_v4, text_v4

        _ENCODERS['json6'] = Response.JSON(json_version)
        _ENCODERS['json4'] = Response.V4.JSON(json_v4)
        _ENCODERS['text4'] = Response.V4.Text(text_v4)
        if hasattr(Response, 'Text'):
            _ENCODERS['text6'] = Response.Text(json_version)
    return _ENCODERS


def processes():
    """the real Processes object, async queue mode, one fake process"""
    if not _PROCESSES:
        from exabgp.reactor.api.processes import Processes

        p = Processes()
        p._process['c13'] = object()  # write() only checks membership in async mode
        p._async_mode = True
        _PROCESSES.append(p)
    return _PROCESSES[0]


class Event:
    __slots__ = ('encoder', 'kind', 'mode', 'string', 'error', 'written', 'write_error', 'lines_expected', 'peer')

    def __init__(self, encoder: str, kind: str, mode: str) -> None:
        self.encoder = encoder
        self.kind = kind
        self.mode = mode  # 'c' consolidate (header/body given), 'p' parsed only
        self.string: str | None = None
        self.error: BaseException | None = None
        self.written: bytes | None = None
        self.write_error: BaseException | None = None
        self.lines_expected: int | None = None
        self.peer = ''

    @property
    def tag(self) -> str:
        return f'{self.encoder}:{self.kind}'


def header_of(msg_type: int, body: bytes) -> bytes:
    return MARKER + struct.pack('!HB', 19 + len(body), msg_type)


def through_write(ev: Event) -> None:
    p = processes()
    p._write_queue.clear()
    try:
        ok = p.write('c13', ev.string, None)
    except Exception as exc:  # noqa: BLE001 - the oracle classifies it
        ev.write_error = exc
        return
    if ev.string is None:
        return
    if not ok:
        ev.write_error = RuntimeError('Processes.write returned False')
        return
    queue = p._write_queue.get('c13')
    ev.written = b''.join(queue) if queue else b''
    p._write_queue.clear()


def text_lines_for_update(collection: Any, with_packet_line: bool) -> int:
    """v4/text.py update(): `start`, one line per announce, one per withdraw (or one per EOR nlri), [header/body line], `end`"""
    if getattr(collection, 'IS_EOR', False):
        n = len(collection.nlris)
    else:
        n = len(collection.announces) + len(collection.withdraws)
    return 2 + n + (1 if with_packet_line else 0)


def render(msg_type: int, body: bytes, neighbor: Any, negotiated: Any, direction: str = 'receive', encoders_wanted: tuple | None = None) -> tuple[Any, list[Event]]:
    """decode `body` the way Protocol.read_message does; on success render every event.  Decoding errors propagate."""
    from exabgp.bgp.message import Message

    message = Message.unpack(msg_type, body, negotiated)
    header = header_of(msg_type, body)
    peer = str(neighbor.session.peer_address)
    events: list[Event] = []

    def emit(enc_name: str, kind: str, mode: str, fn: Any, lines: int | None = 1) -> None:
        ev = Event(enc_name, kind, mode)
        ev.lines_expected = lines
        ev.peer = peer
        try:
            ev.string = fn()
        except Exception as exc:  # noqa: BLE001 - the oracle classifies it
            ev.error = exc
            events.append(ev)
            return
        through_write(ev)
        events.append(ev)

    for name, enc in encoders().items():
        if encoders_wanted and name not in encoders_wanted:
            continue
        for mode, h, b in (('p', b'', b''), ('c', header, body)):
            if msg_type == Message.CODE.OPEN:
                emit(name, 'open', mode, lambda: enc.open(neighbor, direction, message, h, b, negotiated))
            elif msg_type == Message.CODE.UPDATE:
                collection = message if getattr(message, 'IS_EOR', False) else message.data
                kind = 'eor' if getattr(message, 'IS_EOR', False) else 'update'
                lines = text_lines_for_update(collection, bool(h or b))
                emit(name, kind, mode, lambda: enc.update(neighbor, direction, collection, h, b, negotiated), lines)
            elif msg_type == Message.CODE.NOTIFICATION:
                emit(name, 'notification', mode, lambda: enc.notification(neighbor, direction, message, h, b, negotiated))
            elif msg_type == Message.CODE.KEEPALIVE:
                emit(name, 'keepalive', mode, lambda: enc.keepalive(neighbor, direction, h, b, negotiated))
            elif msg_type == Message.CODE.ROUTE_REFRESH:
                emit(name, 'refresh', mode, lambda: enc.refresh(neighbor, direction, message, h, b, negotiated))
            elif msg_type == Message.CODE.OPERATIONAL:
                emit(name, 'operational', mode, lambda: enc.operational(neighbor, direction, message.category, message, h, b, negotiated))
        emit(name, 'packets', 'c', lambda: enc.packets(neighbor, direction, int(msg_type), header, body, negotiated))
        if msg_type == Message.CODE.NOTIFICATION:
            # Peer.run: self._reset(f'notification received ({code},{subcode})', notification) -> processes.down(neighbor, message)
            reason = f'notification received ({message.code},{message.subcode})'
            emit(name, 'down', 'p', lambda: enc.down(neighbor, reason))
    return message, events


def render_negotiated(neighbor: Any, negotiated: Any) -> list[Event]:
    """Protocol.validate_open: the `negotiated` event once both OPENs are in and validate() found nothing to refuse"""
    events: list[Event] = []
    if negotiated.validate(neighbor) is not None:
        return events
    peer = str(neighbor.session.peer_address)
    for name, enc in encoders().items():
        ev = Event(name, 'negotiated', 'p')
        ev.peer = peer
        try:
            ev.string = enc.negotiated(neighbor, negotiated)
        except Exception as exc:  # noqa: BLE001
            ev.error = exc
            events.append(ev)
            continue
        through_write(ev)
        events.append(ev)
    return events


def half_negotiated(neighbor: Any, direction: Any = None) -> Any:
    """the Negotiated a Protocol holds while it reads the peer's OPEN: ours sent, theirs not yet received"""
    from exabgp.bgp.message.direction import Direction
    from exabgp.bgp.message.open.capability import Negotiated

    neg = Negotiated.make_negotiated(neighbor, direction or Direction.IN)
    neg.sent(exa.our_open(neighbor))
    return neg
