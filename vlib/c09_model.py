"""c09_model.py - pure reference model and case generator for C09 (imports nothing from exabgp).

A case is a compact JSON-able description:

    {'session': {'ext_ours','ext_peer','addpath','asn4','ibgp','families'},
     'attrs':   {'source','origin','med','atomic','n_as','as4','n_comm','n_large','generic','nh4','mode'},
     'announces': [[afi, safi, count, mix, nh, nhmod], ...],
     'withdraws': [[afi, safi, count, mix], ...],
     'include_withdraw': bool}

expand() turns it deterministically into route records (text for the real parser + what the wire must show);
attr_model() gives the attribute set in the vlib.textgen format together with the reference packed length.
"""

from __future__ import annotations

import ipaddress
import struct

from hypothesis import strategies as st

FAMILIES = [(1, 1), (2, 1), (1, 4), (1, 128)]
LOCAL_AS = 65000
PEER_AS_EBGP = 65001
NH4 = ['10.0.0.1', '10.0.0.2', '192.168.255.254']
NH6 = ['2001:db8::1', '2001:db8::2', '2001:db8:ffff::fffe']
MIX4 = [[24], [32], [8, 16, 24, 32], [0, 1, 7, 9, 15, 17, 23, 25, 31, 32], [24, 24, 24, 32, 16], [8], [16], [9]]
MIX6 = [[64], [128], [32, 48, 64, 128], [0, 1, 33, 63, 65, 127, 128], [48, 64, 64, 56], [16], [32], [80]]  # 6 and 7: 5 and 11 octets per NLRI (the enumerated sweeps only)
MAX_ROUTES = 1500
# Communities.add / LargeCommunities.add are quadratic in the text parser: keep the counts where parsing stays cheap
CAP_COMM = 300
CAP_LARGE = 330
GENERIC_CODE = 0x99
GENERIC_FLAGS = 0xC0

HEADER = 19
UPDATE_FIXED = HEADER + 2 + 2  # header, withdrawn routes length, total path attribute length


def msg_size_of(session: dict) -> int:
    return 65535 if session['ext_ours'] and session['ext_peer'] else 4096


def negotiated_families(session: dict) -> list[tuple[int, int]]:
    return [f for f in FAMILIES if list(f) in [list(x) for x in session['families']]]


# ---------------------------------------------------------------------------- attributes


def hdr(value_len: int) -> int:
    """attribute header size (RFC 4271 4.3: extended length is needed above 255)"""
    return 3 if value_len <= 255 else 4


def aspath_value_len(n: int, width: int) -> int:
    """one AS_SEQUENCE, split in segments of at most 255 (the count is one octet)"""
    total = 0
    while n > 0:
        take = min(n, 255)
        total += 2 + width * take
        n -= take
    return total


def as_numbers(a: dict) -> list[int]:
    if a['as4']:
        return [4200000000 + i for i in range(a['n_as'])]
    return [64512 + (i % 1000) for i in range(a['n_as'])]


def attr_parts(a: dict, session: dict) -> dict[int, int]:
    """attribute code -> packed length (header included) the sender must produce for this session"""
    ibgp = session['ibgp']
    asn4 = session['asn4']
    parts: dict[int, int] = {1: 4}
    n = a['n_as']
    if n == 0:
        n_eff, big = (0, False) if ibgp else (1, False)
    else:
        n_eff, big = n, a['as4']
    v = aspath_value_len(n_eff, 4 if asn4 else 2)
    parts[2] = hdr(v) + v
    if not asn4 and big:
        v4 = aspath_value_len(n_eff, 4)
        parts[17] = hdr(v4) + v4
    if a['source'] == 'v4':
        parts[3] = 7
    if a['med'] is not None:
        parts[4] = 7
    if ibgp:
        parts[5] = 7
    if a['atomic']:
        parts[6] = 3
    if a['n_comm']:
        parts[8] = hdr(4 * a['n_comm']) + 4 * a['n_comm']
    if a['n_large']:
        parts[32] = hdr(12 * a['n_large']) + 12 * a['n_large']
    if a['generic']:
        parts[GENERIC_CODE] = hdr(a['generic']) + a['generic']
    return parts


def attr_len(a: dict, session: dict) -> int:
    return sum(attr_parts(a, session).values())


def attr_textgen(a: dict) -> dict:
    """the attribute set in the vlib.textgen record format (attributes_text / expected_attrs understand it)"""
    out: dict = {}
    if a['origin'] is not None:
        out['origin'] = ['igp', 'egp', 'incomplete'][a['origin']]
    if a['n_as']:
        out['as_path'] = [[2, as_numbers(a)]]
    if a['med'] is not None:
        out['med'] = a['med']
    if a['atomic']:
        out['atomic'] = True
    if a['n_comm']:
        out['community'] = [[f'{100 + (i >> 12)}:{i & 0xFFF}', ((100 + (i >> 12)) << 16) | (i & 0xFFF)] for i in range(a['n_comm'])]
    if a['n_large']:
        out['large_community'] = [[f'65000:{i}:7', [65000, i, 7]] for i in range(a['n_large'])]
    if a['generic']:
        value = bytes((i * 7 + 1) & 0xFF for i in range(a['generic']))
        out['generic'] = [GENERIC_CODE, GENERIC_FLAGS, value.hex()]
    return out


# ---------------------------------------------------------------------------- routes


def _net4(group: int, j: int, m: int) -> str:
    block = (16 + 8 * (group % 24)) << 24
    avail = m - 5
    if avail <= 0:
        n = block
    else:
        jj = j if avail >= 11 else j % (1 << avail)
        n = block | (jj << (32 - m))
    mask = ((1 << 32) - 1) ^ ((1 << (32 - m)) - 1) if m else 0
    return f'{ipaddress.IPv4Address(n & mask)}/{m}'


def _net6(group: int, j: int, m: int) -> str:
    block = (0x20010DB8 << 96) | ((group & 0xFFFF) << 80)
    avail = m - 48
    if 24 <= m <= 48 and j:
        # short prefixes: the route number goes into the bits below 2001::/16 (only the enumerated sweeps ask for many of them)
        n = ((0x2001 << (m - 16)) + (j % (1 << (m - 16)))) << (128 - m)
    elif avail <= 0:
        n = block
    else:
        jj = j if avail >= 11 else j % (1 << avail)
        n = block | (jj << (128 - m))
    mask = ((1 << 128) - 1) ^ ((1 << (128 - m)) - 1) if m else 0
    return f'{ipaddress.IPv6Address(n & mask)}/{m}'


def rd_hex(n: int) -> str:
    return struct.pack('!HHL', 0, 65000, n).hex()


def _expand_group(group_no: int, spec: list, addpath: bool, used: set, announce: bool, nh4_fixed: int, extnh: bool = False) -> list[dict]:
    afi, safi, count, mix = spec[0], spec[1], spec[2], spec[3]
    nh, nhmod = (spec[4], spec[5]) if announce else (0, 1)
    masks = (MIX4 if afi == 1 else MIX6)[mix % 8 if mix >= 6 else mix % 6]
    out = []
    for i in range(count):
        m = masks[i % len(masks)]
        j = i // len(masks)
        prefix = _net4(group_no, j, m) if afi == 1 else _net6(group_no, j, m)
        rd = None
        if safi == 128:
            rd = group_no * 10 + i % 3
        ident = (afi, safi, prefix, rd)
        if ident in used:
            continue
        used.add(ident)
        rec: dict = {'afi': afi, 'safi': safi, 'prefix': prefix}
        text = f'route {prefix}'
        if rd is not None:
            rec['rd'] = rd_hex(rd)
            text += f' rd 65000:{rd}'
        if safi in (4, 128):
            label = 16 + ((i * 7 + group_no) % 5000)
            labels = [label, label + 1] if (mix % 2 == 1 and i % 5 == 0) else [label]
            rec['labels'] = labels
            text += ' label ' + (str(labels[0]) if len(labels) == 1 else '[ ' + ' '.join(map(str, labels)) + ' ]')
        if addpath:
            pid = [None, 1, 2][(i + group_no) % 3]
            rec['path_id'] = pid or 0
            if pid is not None:
                text += f' path-information {pid}'
        else:
            rec['path_id'] = None
        if afi == 1 and safi == 1:
            # an IPv4 unicast route travels with the NEXT_HOP attribute of its attribute set: production groups
            # routes by (attributes, next hop), so all IPv4 unicast routes of one collection share that next hop
            rec['nexthop'] = NH4[nh4_fixed]
        elif afi == 1 and extnh and i % 2 == 1:
            # RFC 8950 session: every other labelled / VPN IPv4 route comes with an IPv6 next hop, so that the MP_REACH_NLRI
            # attributes of one family carry next hops of different lengths (4 / 12 and 16 / 24 octets)
            rec['nexthop'] = NH6[(nh + i % nhmod) % 3]
        elif afi == 1:
            rec['nexthop'] = NH4[(nh + i % nhmod) % 3]
        else:
            rec['nexthop'] = NH6[(nh + i % nhmod) % 3]
        text += f' next-hop {rec["nexthop"]}'
        rec['text'] = text
        # reference wire size of this NLRI: path id, length octet, labels, RD, prefix octets
        size = (4 if addpath else 0) + 1 + 3 * len(rec.get('labels', [])) + (8 if rd is not None else 0) + (m + 7) // 8
        rec['size'] = size
        out.append(rec)
    return out


def expand(case: dict) -> tuple[list[dict], list[dict]]:
    used: set = set()
    addpath = case['session']['addpath']
    nh4_fixed = case['attrs']['nh4']
    announces: list[dict] = []
    withdraws: list[dict] = []
    g = 0
    for spec in case['announces']:
        announces += _expand_group(g, spec, addpath, used, True, nh4_fixed, bool(case['session'].get('extnh')))
        g += 1
    for spec in case['withdraws']:
        withdraws += _expand_group(g, spec, addpath, used, False, nh4_fixed)
        g += 1
    return announces, withdraws


def route_key(rec: dict) -> tuple:
    """identity of a route on this session (the label is not part of it: RFC 8277 2.4, RFC 4364)"""
    return (rec['afi'], rec['safi'], rec['path_id'], rec['prefix'], rec.get('rd'))


def wire_key(e: dict) -> tuple:
    return (e['afi'], e['safi'], e.get('path_id'), e['prefix'], e.get('rd'))


def single_announce_size(rec: dict, attrs_len: int) -> int:
    """smallest UPDATE announcing this route alone with the attribute block of attrs_len octets"""
    if rec['afi'] == 1 and rec['safi'] == 1:
        return UPDATE_FIXED + attrs_len + rec['size']
    nh = (4 if ':' not in rec['nexthop'] else 16) + (8 if rec['safi'] == 128 else 0)
    value = 2 + 1 + 1 + nh + 1 + rec['size']  # AFI, SAFI, next hop length, next hop, reserved, NLRI
    return UPDATE_FIXED + attrs_len + hdr(value) + value


# ---------------------------------------------------------------------------- strategies


@st.composite
def sessions(draw):
    ext = draw(st.sampled_from(['both', 'both', 'none', 'none', 'ours', 'peer']))
    fams = draw(st.sampled_from([FAMILIES, FAMILIES, FAMILIES, [(1, 1), (2, 1)], [(1, 1)], [(2, 1), (1, 4), (1, 128)], [(1, 1), (1, 128)], [(1, 1), (2, 1), (1, 4)]]))
    return {
        'ext_ours': ext in ('both', 'ours'),
        'ext_peer': ext in ('both', 'peer'),
        'addpath': draw(st.booleans()),
        'asn4': draw(st.sampled_from([True, True, False])),
        'ibgp': draw(st.booleans()),
        'families': [list(f) for f in fams],
        'extnh': draw(st.integers(0, 3)) == 0 and any(f in ((1, 4), (1, 128)) for f in fams),
    }


def steer(a: dict, session: dict, target: int, plan: list) -> dict:
    """fill the bulk attributes so that the packed block is exactly `target` octets when that is reachable

    plan: [(kind, fraction)] - each kind takes that fraction of what is still missing; the generic attribute
    takes the exact remainder (any length of 4 or more octets except 259 is reachable with it)."""
    a = dict(a)
    unit = {'n_comm': 4, 'n_large': 12, 'n_as': (4 if session['asn4'] else (6 if a['as4'] else 2))}
    cap = {'n_comm': CAP_COMM, 'n_large': CAP_LARGE, 'n_as': 16000}
    for kind, fraction in plan:
        missing = target - attr_len(a, session)
        if missing <= 8:
            break
        want = int(missing * fraction) // unit[kind]
        a[kind] = min(cap[kind], a[kind] + max(0, want))
        while a[kind] > 0 and attr_len(a, session) > target:
            a[kind] -= 1
    # exact remainder through the generic attribute, giving back bulk units when the remainder is unreachable
    for _ in range(8):
        a['generic'] = 0
        missing = target - attr_len(a, session)
        if missing == 0:
            return a
        if missing >= 4 and missing != 259:
            a['generic'] = missing - 3 if missing - 3 <= 255 else missing - 4
            if attr_len(a, session) == target:
                return a
        for kind in ('n_comm', 'n_as', 'n_large'):
            if a[kind] > 0:
                a[kind] -= 1
                break
        else:
            break
    a['generic'] = max(0, min(65000, target - attr_len(a, session) - 4))
    return a


MODES = ['small', 'small', 'ext-switch', 'ext-switch', 'block-250-260', 'near-limit', 'near-limit', 'near-limit', 'near-limit', 'mid', 'mid']


@st.composite
def attr_sets(draw, session, mode, source):
    msg_size = msg_size_of(session)
    a = {
        'source': source,
        'origin': draw(st.sampled_from([None, 0, 1, 2])),
        'med': draw(st.sampled_from([None, None, 0, 4294967295])),
        'atomic': draw(st.booleans()),
        'n_as': 0,
        'as4': draw(st.booleans()),
        'n_comm': 0,
        'n_large': 0,
        'generic': 0,
        'nh4': draw(st.integers(0, 2)),
    }
    a['mode'] = mode
    kinds = ['n_comm', 'n_large', 'n_as']
    if mode == 'small':
        a['n_as'] = draw(st.integers(0, 5))
        a['n_comm'] = draw(st.integers(0, 6))
        a['n_large'] = draw(st.integers(0, 3))
        a['generic'] = draw(st.sampled_from([0, 0, 1, 12]))
        return a
    if mode == 'ext-switch':
        which = draw(st.sampled_from(['n_comm', 'n_large', 'n_as', 'generic']))
        if which == 'n_comm':
            a['n_comm'] = draw(st.sampled_from([63, 64]))
        elif which == 'n_large':
            a['n_large'] = draw(st.sampled_from([21, 22]))
        elif which == 'n_as':
            w = 4 if session['asn4'] else 2
            edge = (255 - 2) // w
            a['n_as'] = draw(st.sampled_from([edge, edge + 1, 255, 256]))
        else:
            a['generic'] = draw(st.integers(253, 258))
        a['n_as'] = a['n_as'] or draw(st.integers(0, 3))
        return a
    plan = [(k, draw(st.sampled_from([0.0, 0.3, 0.6, 1.0]))) for k in draw(st.permutations(kinds))]
    if mode == 'block-250-260':
        target = draw(st.integers(250, 260))
    elif mode == 'near-limit':
        target = msg_size - UPDATE_FIXED - draw(st.integers(-2, 60))
    else:
        target = draw(st.integers(300, msg_size - 100))
    return steer(a, session, target, plan)


@st.composite
def route_groups(draw, session, near_limit: bool, announce: bool):
    if near_limit:
        budget = 40 if msg_size_of(session) == 65535 else 150
    else:
        budget = draw(st.sampled_from([20, 200, 600, MAX_ROUTES]))
    ngroups = draw(st.sampled_from([0, 1, 1, 2, 2, 3, 4] if announce else [0, 0, 1, 1, 1, 2, 3]))
    out = []
    for _ in range(ngroups):
        if budget <= 0:
            break
        # mostly families the peer offered; the others must simply stay off the wire
        afi, safi = draw(st.sampled_from(negotiated_families(session) * 3 + FAMILIES))
        count = min(budget, draw(st.sampled_from([1, 2, 3, 9, 40, 150, 400, 400, 1500])))
        budget -= count
        mix = draw(st.integers(0, 5))
        if announce:
            out.append([afi, safi, count, mix, draw(st.integers(0, 2)), draw(st.integers(1, 3))])
        else:
            out.append([afi, safi, count, mix])
    return out


@st.composite
def cases(draw):
    session = draw(sessions())
    mode = draw(st.sampled_from(MODES))
    near = mode == 'near-limit'
    announces = draw(route_groups(session, near, True))
    withdraws = draw(route_groups(session, near, False))
    source = 'v4'
    if not any(g[0] == 1 and g[1] == 1 for g in announces) and draw(st.booleans()):
        # no IPv4 unicast announce: the attribute set may come from an IPv6 route (no NEXT_HOP attribute in it)
        source = 'v6'
    attrs = draw(attr_sets(session, mode, source))
    return {
        'session': session,
        'attrs': attrs,
        'announces': announces,
        'withdraws': withdraws,
        'include_withdraw': draw(st.sampled_from([True, True, True, False])),
    }


def boundary_sweep() -> list[dict]:
    """enumerated: room left by the attributes from -2 to 48 octets x family x small route shapes (msg_size 4096),
    and the mixed-mask shapes again at 65535 for a few rooms"""
    out = []
    base_session = {'ext_ours': False, 'ext_peer': False, 'addpath': False, 'asn4': True, 'ibgp': True, 'families': [list(f) for f in FAMILIES]}
    big_session = dict(base_session, ext_ours=True, ext_peer=True)
    base_attrs = {'source': 'v4', 'origin': 0, 'med': None, 'atomic': False, 'n_as': 0, 'as4': False, 'n_comm': 0, 'n_large': 0, 'generic': 0, 'nh4': 0, 'mode': 'sweep'}
    other = {(1, 1): (2, 1), (2, 1): (1, 4), (1, 4): (1, 128), (1, 128): (2, 1)}

    def shapes(afi: int, safi: int):
        v4 = (afi, safi) == (1, 1)
        oa, os_ = other[(afi, safi)]
        yield [[afi, safi, 1, 0, 0, 1]], [], True  # one announce
        yield [[afi, safi, 1, 0, 0, 1]], [[afi, safi, 1, 0]], True  # announce and withdraw in one family
        yield [[afi, safi, 4, 2, 0, 1]], [], True  # growing masks: the longer prefixes stop fitting first
        yield [], [[afi, safi, 1, 0]], True  # a withdrawal alone
        yield [], [[afi, safi, 2, 0]], False  # withdrawals with include_withdraw off: nothing may come out
        yield [[oa, os_, 1, 5, 0, 1]], [[afi, safi, 4, 2]], True  # growing withdrawals beside an announce of another family
        if not v4:
            yield [[1, 1, 3, 0, 0, 1], [afi, safi, 1, 0, 0, 1]], [], True  # IPv4 unicast first, then an MP family
            yield [[afi, safi, 2, 0, 0, 2]], [], True  # two next hops

    for room in range(-2, 49):
        attrs = steer(base_attrs, base_session, 4096 - UPDATE_FIXED - room, [('n_as', 1.0)])
        for afi, safi in FAMILIES:
            for ann, wd, iw in shapes(afi, safi):
                out.append({'session': base_session, 'attrs': attrs, 'announces': ann, 'withdraws': wd, 'include_withdraw': iw})
    for room in (0, 1, 2, 3, 5, 20, 33, 40):
        attrs = steer(base_attrs, big_session, 65535 - UPDATE_FIXED - room, [('n_as', 0.5)])
        for afi, safi in FAMILIES:
            out.append({'session': big_session, 'attrs': attrs, 'announces': [[afi, safi, 4, 2, 0, 1]], 'withdraws': [], 'include_withdraw': True})
            out.append({'session': big_session, 'attrs': attrs, 'announces': [[afi, safi, 1, 0, 0, 1]], 'withdraws': [[afi, safi, 1, 0]], 'include_withdraw': True})
    return out


def hand_case(room: int | None, announces: list, withdraws: list, include_withdraw: bool = True, big: bool = False) -> dict:
    """plain iBGP session, every family negotiated, attributes = defaults + one generic filler leaving `room` octets"""
    session = {'ext_ours': big, 'ext_peer': big, 'addpath': False, 'asn4': True, 'ibgp': True, 'families': [list(f) for f in FAMILIES]}
    attrs = {'source': 'v4', 'origin': None, 'med': None, 'atomic': False, 'n_as': 0, 'as4': False, 'n_comm': 0, 'n_large': 0, 'generic': 0, 'nh4': 0, 'mode': 'hand'}
    if room is not None:
        attrs = steer(attrs, session, msg_size_of(session) - UPDATE_FIXED - room, [])
    return {'session': session, 'attrs': attrs, 'announces': announces, 'withdraws': withdraws, 'include_withdraw': include_withdraw}


def minimal_findings() -> list[dict]:
    """hand-made smallest inputs, one per root cause met at the pinned commit (they run in every tier)"""
    return [
        hand_case(2, [[1, 1, 2, 2, 0, 1]], []),  # 16.0.0.0/8 fits, 16.0.0.0/16 does not: sent in a 4097-octet message
        hand_case(29, [[2, 1, 2, 2, 0, 1]], []),  # 2001:db8::/32 fits, 2001:db8::/48 does not: 4098-octet MP_REACH message
        hand_case(20, [[1, 4, 1, 5, 0, 1]], [[2, 1, 4, 2]]),  # the last of four growing withdrawals: 4099-octet MP_UNREACH message
        hand_case(2, [[1, 1, 2, 2, 0, 1]], [], big=True),  # the same at 65535: struct.error out of Message._message
        hand_case(None, [], [[2, 1, 1, 0]], include_withdraw=False),  # an IPv6 withdrawal with include_withdraw off: 00000000 = End-of-RIB
        hand_case(3, [[1, 1, 1, 0, 0, 1]], [[1, 1, 1, 5]]),  # /24 cannot fit: `return`, the /8 withdrawal is never sent
        hand_case(30, [[2, 1, 1, 0, 0, 1], [1, 4, 1, 0, 0, 1]], []),  # the IPv6 route cannot fit: RuntimeError, the labeled route is lost
        hand_case(22, [[1, 1, 1, 0, 0, 1], [1, 4, 1, 0, 0, 1]], []),  # the IPv4 NLRI already sent still counts against the MP budget
        hand_case(19, [[1, 4, 1, 0, 0, 1]], [[1, 4, 1, 0]]),  # MP_REACH fills the message, MP_UNREACH of the same family raises
        hand_case(3, [], [[1, 1, 1, 0]]),  # an IPv4 withdrawal needs no attribute but is dropped for lack of room after them
        hand_case(12, [], [[1, 4, 1, 0]]),  # a labeled withdrawal is sent with all attributes: RuntimeError
    ]


def alignment_sweep() -> list[dict]:
    """enumerated: one long batch of same-sized routes of one family, enough for two or three full messages, under an attribute
    block that grows octet by octet over a whole residue cycle of the NLRI size: whatever the accounting of a section is, one of
    these fills a message (and an MP attribute of more than 255 octets) to the last octet"""
    out = []
    for afi, safi in FAMILIES:
        count = {(1, 1): 1500, (2, 1): 1000, (1, 4): 1300, (1, 128): 600}[(afi, safi)]
        for extra in range(16):
            case = hand_case(None, [[afi, safi, count, 0, 0, 1]], [])
            case['attrs'] = steer(case['attrs'], case['session'], 40 + extra, [])
            case['attrs']['mode'] = 'alignment'
            out.append(case)
        # withdrawals of unicast families travel without attributes: the mask mixes give the different alignments
        for mix in (0, 1, 4, 5):
            case = hand_case(None, [], [[afi, safi, count, mix]])
            case['attrs']['mode'] = 'alignment'
            out.append(case)
            case = hand_case(None, [[afi, safi, count // 2, (mix + 1) % 6, 0, 1]], [[afi, safi, count // 2, mix]])
            case['attrs']['mode'] = 'alignment'
            out.append(case)
    return out


def extended_length_sweep() -> list[dict]:
    """enumerated: the MP attribute's own header grows from 3 to 4 octets when its value passes 255 octets. The room left for it
    by the other attributes goes through 250..270 octets while same-sized IPv6 routes (5 octets each in MP_REACH_NLRI behind a
    21-octet header, 11 octets each in MP_UNREACH_NLRI behind a 3-octet header) fill it: every (budget, payload) pair around the
    switch is met, the one where a 256-octet value only just fits (or only just does not) included"""
    out = []
    for room in range(250, 271):
        for ann, wd in (([[2, 1, 120, 6, 0, 1]], []), ([], [[2, 1, 60, 7]]), ([[2, 1, 400, 4, 0, 1]], [[2, 1, 60, 7]])):
            case = hand_case(room, ann, wd)
            case['attrs']['mode'] = 'mp-extended-length'
            out.append(case)
    return out


def fixed_cases() -> list[dict]:
    return minimal_findings() + boundary_sweep() + alignment_sweep() + extended_length_sweep()
