"""c16_model - FlowSpec rule records: Hypothesis strategies, operator text, expectation model, text parsers.

The record is semantic (what the operator means); `render()` writes it the way an operator would and
`expected_components()` says what RFC 8955/8956 put on the wire for it.  Name tables are IANA's, not exabgp's.
Imports nothing from exabgp.
"""

from __future__ import annotations

import ipaddress
import re
import struct

from hypothesis import strategies as st

from vlib.refwire import flow as rf

# ---------------------------------------------------------------------------- vocabulary

# IANA protocol numbers / ICMP types / ICMP codes (destination unreachable, redirect, time exceeded) / TCP header flags
PROTOCOLS = {'icmp': 1, 'igmp': 2, 'tcp': 6, 'egp': 8, 'udp': 17, 'rsvp': 46, 'gre': 47, 'esp': 50, 'ah': 51, 'ospf': 89, 'ipip': 94, 'pim': 103, 'sctp': 132}
ICMP_TYPES = {
    'echo-reply': 0,
    'unreachable': 3,
    'redirect': 5,
    'echo-request': 8,
    'router-advertisement': 9,
    'router-solicit': 10,
    'time-exceeded': 11,
    'parameter-problem': 12,
    'timestamp': 13,
    'timestamp-reply': 14,
    'photuris': 40,
    'experimental-mobility': 41,
    'extended-echo-request': 42,
    'extended-echo-reply': 43,
    'experimental-one': 253,
    'experimental-two': 254,
}
ICMP_CODES = {
    'network-unreachable': 0,
    'host-unreachable': 1,
    'protocol-unreachable': 2,
    'port-unreachable': 3,
    'fragmentation-needed': 4,
    'source-route-failed': 5,
    'destination-network-unknown': 6,
    'destination-host-unknown': 7,
    'source-host-isolated': 8,
    'destination-network-prohibited': 9,
    'destination-host-prohibited': 10,
    'network-unreachable-for-tos': 11,
    'host-unreachable-for-tos': 12,
    'communication-prohibited-by-filtering': 13,
    'host-precedence-violation': 14,
    'precedence-cutoff-in-effect': 15,
    'redirect-for-host': 1,
    'redirect-for-tos-and-net': 2,
    'ttl-eq-zero-during-reassembly': 1,
}
TCP_FLAGS = {'fin': 0x01, 'syn': 0x02, 'rst': 0x04, 'push': 0x08, 'ack': 0x10, 'urg': 0x20, 'ece': 0x40, 'cwr': 0x80, 'ns': 0x100}
# RFC 8955 4.2.2.12:  | 0 | 0 | 0 | 0 |LF |FF |IsF|DF |
FRAGMENTS = {'dont-fragment': 0x01, 'is-fragment': 0x02, 'first-fragment': 0x04, 'last-fragment': 0x08}

NUMERIC_OPS = {'=': rf.NUM_EQ, '>': rf.NUM_GT, '<': rf.NUM_LT, '>=': rf.NUM_GT | rf.NUM_EQ, '<=': rf.NUM_LT | rf.NUM_EQ, '!=': rf.NUM_LT | rf.NUM_GT, '': rf.NUM_EQ}
BITMASK_OPS = {'': 0, '=': rf.BIT_MATCH, '!': rf.BIT_NOT, '!=': rf.BIT_NOT | rf.BIT_MATCH}

# keyword per AFI (1 = IPv4, 2 = IPv6) and component type
KEYWORDS = {
    1: {3: 'protocol', 4: 'port', 5: 'destination-port', 6: 'source-port', 7: 'icmp-type', 8: 'icmp-code', 9: 'tcp-flags', 10: 'packet-length', 11: 'dscp', 12: 'fragment'},
    2: {3: 'next-header', 4: 'port', 5: 'destination-port', 6: 'source-port', 7: 'icmp-type', 8: 'icmp-code', 9: 'tcp-flags', 10: 'packet-length', 11: 'traffic-class', 12: 'fragment', 13: 'flow-label'},
}
# what exabgp calls the components when it reports them (JSON member / extensive() word) -> component type
REPORT_NAMES = {
    'destination-ipv4': 1,
    'source-ipv4': 2,
    'destination-ipv6': 1,
    'source-ipv6': 2,
    'protocol': 3,
    'next-header': 3,
    'port': 4,
    'destination-port': 5,
    'source-port': 6,
    'icmp-type': 7,
    'icmp-code': 8,
    'tcp-flags': 9,
    'packet-length': 10,
    'dscp': 11,
    'traffic-class': 11,
    'fragment': 12,
    'flow-label': 13,
}
VALUE_NAMES = {3: PROTOCOLS, 7: ICMP_TYPES, 8: ICMP_CODES}
BIT_NAMES = {9: dict(TCP_FLAGS, urgent=0x20), 12: FRAGMENTS}

# the value range of each component (the header field it is compared with)
DOMAIN = {3: 255, 4: 65535, 5: 65535, 6: 65535, 7: 255, 8: 255, 9: 0xFFF, 10: 65535, 11: 63, 12: 15, 13: 0xFFFFF}


def domain(afi: int, ctype: int) -> int:
    if afi == 2 and ctype == 11:
        return 255  # the traffic class octet
    return DOMAIN[ctype]


# ---------------------------------------------------------------------------- strategies: one term


def _biased(top: int):
    edges = sorted({0, 1, 2, top - 1, top} | {v for v in (63, 64, 127, 128, 254, 255, 256, 257, 1023, 1024, 65534, 65535, 65536) if v <= top})
    return st.one_of(st.sampled_from(edges), st.integers(0, top), st.integers(0, min(top, 300)))


@st.composite
def numeric_value(draw, afi: int, ctype: int) -> dict:
    top = domain(afi, ctype)
    names = VALUE_NAMES.get(ctype)
    if names and draw(st.integers(0, 2)) == 0:
        name = draw(st.sampled_from(sorted(names)))
        text = name if draw(st.booleans()) else name.upper()
        return {'value': names[name], 'text': text}
    value = draw(_biased(top))
    style = 'dec'
    if ctype in (3, 4, 5, 6, 7, 8) and draw(st.integers(0, 5)) == 0:
        style = 'hex'
    return {'value': value, 'text': f'0x{value:x}' if style == 'hex' else str(value)}


@st.composite
def numeric_terms(draw, afi: int, ctype: int, max_groups: int = 4) -> list:
    """1-6 terms; a group is one text token: a single test or tests joined with & (ranges such as >x&<y)"""
    terms: list = []
    groups = draw(st.integers(1, max_groups))
    for _ in range(groups):
        shape = draw(st.sampled_from(['one', 'one', 'one', 'range', 'and3']))
        if len(terms) >= 5:
            shape = 'one'
        if shape == 'one':
            op = draw(st.sampled_from(['=', '=', '', '>', '<', '>=', '<=', '!=']))
            terms.append(dict(draw(numeric_value(afi, ctype)), op=op, **{'and': False}))
        elif shape == 'range':
            lo = draw(numeric_value(afi, ctype))
            hi = draw(numeric_value(afi, ctype))
            terms.append(dict(lo, op=draw(st.sampled_from(['>', '>='])), **{'and': False}))
            terms.append(dict(hi, op=draw(st.sampled_from(['<', '<='])), **{'and': True}))
        else:
            for i in range(3):
                terms.append(dict(draw(numeric_value(afi, ctype)), op=draw(st.sampled_from(['!=', '>', '<', '=', '>=', '<='])), **{'and': i > 0}))
        if len(terms) >= 6:
            break
    return terms[:6]


@st.composite
def bitmask_value(draw, afi: int, ctype: int) -> dict:
    names = dict(TCP_FLAGS) if ctype == 9 else dict(FRAGMENTS)
    if ctype == 12 and afi == 2:
        names.pop('dont-fragment')  # RFC 8956 3.5: IPv6 has no DF bit, it MUST be 0
    style = draw(st.sampled_from(['names', 'names', 'names', 'hex', 'dec']))
    if style == 'names':
        chosen = draw(st.lists(st.sampled_from(sorted(names)), min_size=1, max_size=3, unique=True))
        value = sum(names[n] for n in chosen)
        parts = [n.upper() if draw(st.integers(0, 4)) == 0 else n for n in chosen]
        if ctype == 9 and 'urg' in chosen and draw(st.booleans()):
            parts[chosen.index('urg')] = 'urgent'
        return {'value': value, 'text': '+'.join(parts)}
    if ctype == 9:
        value = draw(st.one_of(st.sampled_from([0, 1, 2, 0x12, 0xFF, 0x100, 0xFFF]), st.integers(0, 0xFFF)))
    else:
        value = draw(st.integers(1, 15))
        if afi == 2:
            value = (value & 0x0E) or 2
    return {'value': value, 'text': f'0x{value:x}' if style == 'hex' else str(value)}


@st.composite
def bitmask_terms(draw, afi: int, ctype: int) -> list:
    terms: list = []
    for _ in range(draw(st.integers(1, 3))):
        n = draw(st.sampled_from([1, 1, 1, 2, 3]))
        for i in range(n):
            terms.append(dict(draw(bitmask_value(afi, ctype)), op=draw(st.sampled_from(['', '', '=', '!', '!='])), **{'and': i > 0}))
        if len(terms) >= 6:
            break
    while len(terms) > 6:
        terms.pop()
    return terms


# ---------------------------------------------------------------------------- strategies: prefixes, rd, actions


@st.composite
def prefix4(draw) -> dict:
    bits = draw(st.sampled_from([0, 1, 7, 8, 9, 16, 20, 24, 25, 31, 32, 32]))
    value = draw(st.integers(0, 0xFFFFFFFF))
    if draw(st.integers(0, 9)) != 0 and bits < 32:
        value &= (0xFFFFFFFF << (32 - bits)) & 0xFFFFFFFF  # mostly written without host bits
    return {'address': str(ipaddress.IPv4Address(value)), 'bits': bits, 'offset': None}


@st.composite
def prefix6(draw) -> dict:
    bits = draw(st.sampled_from([0, 1, 8, 32, 33, 48, 56, 64, 64, 65, 96, 104, 120, 127, 128, 128]))
    value = draw(st.one_of(st.integers(0, (1 << 128) - 1), st.sampled_from([0x20010DB8 << 96, (0x20010DB8 << 96) | 1, 1, 0x123456789A000000])))
    full = (1 << 128) - 1
    host_bits = draw(st.integers(0, 11)) == 0
    if not host_bits and bits < 128:
        value &= (full << (128 - bits)) & full
    offset = None
    if bits > 0 and draw(st.integers(0, 2)) == 0:
        offset = draw(st.one_of(st.just(0), st.integers(0, bits - 1), st.sampled_from([o for o in (1, 7, 8, 9, 64, 65, 96, 120) if o < bits] or [0])))
    elif draw(st.integers(0, 3)) == 0:
        offset = 0
    return {'address': str(ipaddress.IPv6Address(value)), 'bits': bits, 'offset': offset}


RDS = ['65535:65536', '0:0', '1:4294967295', '64512:1', '1.2.3.4:5', '255.255.255.255:65535', '65536:7', '4200000000:65535', '70000:0']
IPS4 = ['1.2.3.4', '10.0.0.1', '192.0.2.255', '255.255.255.254']
IPS6 = ['2001:db8::1', 'fe80::1', '2a02:b80:15::7aca:39ff:feae:a87a']


@st.composite
def actions(draw, afi: int, block_form: bool) -> tuple:
    """a compatible set of traffic actions; returns (actions, next-hop line or None)"""
    out: list = []
    nexthop = None
    rate = draw(st.sampled_from(['none', 'discard', 'discard', 'bytes', 'bytes', 'packets', 'both']))
    rates = st.one_of(st.sampled_from([0, 1, 9600, 65535, 16777216, 16777217, 1250000000, 999999999999, 1000000000000]), st.integers(0, 10**12))
    if rate == 'discard':
        out.append({'kind': 'discard'})
    if rate in ('bytes', 'both'):
        out.append({'kind': 'rate-limit', 'rate': draw(rates), 'unit': draw(st.sampled_from([None, 'bytes']))})
    if rate in ('packets', 'both'):
        out.append({'kind': 'rate-limit', 'rate': draw(rates), 'unit': 'packets'})
    kinds = ['none', 'none', 'as2', 'as2', 'as4', 'ip', 'copy', 'ietf4', 'ietf6', 'rt-ipv4', 'rt-ipv6']
    if block_form:
        kinds.append('to-nexthop')
        kinds.append('to-nexthop')
    redirect = draw(st.sampled_from(kinds))
    if redirect == 'as2':
        out.append({'kind': 'redirect', 'as': draw(st.sampled_from([0, 1, 258, 65500, 65535])), 'value': draw(st.sampled_from([0, 1, 12345, 33756718, 4294967295]))})
    elif redirect == 'as4':
        out.append({'kind': 'redirect', 'as': draw(st.sampled_from([65536, 70000, 4200000000, 4294967295])), 'value': draw(st.sampled_from([0, 1, 119, 65535]))})
    elif redirect == 'ip':
        out.append({'kind': 'redirect-ip', 'ip': draw(st.sampled_from(IPS4 + IPS6))})
    elif redirect == 'copy':
        out.append({'kind': 'copy', 'ip': draw(st.sampled_from(IPS4 + IPS6))})
    elif redirect == 'to-nexthop':
        nexthop = draw(st.sampled_from(IPS4 + IPS6))
        out.append({'kind': 'redirect-to-nexthop'})
    elif redirect == 'ietf4':
        out.append({'kind': 'redirect-ietf', 'ip': draw(st.sampled_from(IPS4))})
    elif redirect == 'ietf6':
        out.append({'kind': 'redirect-ietf', 'ip': draw(st.sampled_from(IPS6))})
    elif redirect == 'rt-ipv4' and draw(st.integers(0, 2)) == 0:
        out.append({'kind': 'redirect-rt-ipv4', 'ip': draw(st.sampled_from(IPS4)), 'value': draw(st.sampled_from([0, 5678, 65535]))})
    elif redirect == 'rt-ipv6' and draw(st.integers(0, 2)) == 0:
        out.append({'kind': 'redirect-rt-ipv6', 'ip': draw(st.sampled_from(IPS6)), 'value': draw(st.sampled_from([0, 10, 65535]))})
    if draw(st.integers(0, 2)) == 0:
        out.append({'kind': 'mark', 'dscp': draw(st.sampled_from([0, 1, 10, 46, 63]))})
    if draw(st.integers(0, 2)) == 0:
        s, t = draw(st.sampled_from([(True, False), (False, True), (True, True)]))
        out.append({'kind': 'action', 'sample': s, 'terminal': t})
    if draw(st.integers(0, 5)) == 0:
        out.append({'kind': 'target', 'as': 65000, 'value': draw(st.sampled_from([1, 4294967295]))})
    if not out or (draw(st.integers(0, 7)) == 0 and not any(a['kind'] in ('discard', 'rate-limit') for a in out)):
        out.append({'kind': 'accept'})
    order = draw(st.permutations(range(len(out))))
    return [out[i] for i in order], nexthop


# ---------------------------------------------------------------------------- strategies: the rule

FILL_TARGETS = [228, 236, 237, 238, 239, 239, 240, 240, 241, 242, 250, 254, 255, 256, 257, 260, 511, 512, 1000, 2047, 2048, 4000, 4093, 4094, 4094, 4095, 4095, 4095]
TOO_LONG = [4096, 4097, 4100, 5000]


@st.composite
def rules(draw) -> dict:
    afi = draw(st.sampled_from([1, 1, 1, 2, 2]))
    form = draw(st.sampled_from(['block', 'block', 'block', 'flat', 'flat', 'family', 'family', 'config']))
    vpn = draw(st.integers(0, 3)) == 0
    rd = draw(st.sampled_from(RDS)) if vpn else None
    block_form = form in ('block', 'config')

    fill = None
    roll = draw(st.integers(0, 19))
    if roll < 3:
        fill = {'type': draw(st.sampled_from([4, 5, 6, 10])), 'target': draw(st.sampled_from(FILL_TARGETS))}
    elif roll == 3:
        fill = {'type': draw(st.sampled_from([4, 5, 6])), 'target': draw(st.sampled_from(TOO_LONG))}

    kws = KEYWORDS[afi]
    candidates = [t for t in kws if not fill or t != fill['type']]
    how_many = draw(st.sampled_from([0, 1, 1, 2, 2, 3, 3, 4, 5, 7, len(candidates)]))
    chosen = draw(st.lists(st.sampled_from(candidates), min_size=min(how_many, len(candidates)), max_size=min(how_many, len(candidates)), unique=True))

    statements: list = []
    prefixes = draw(st.sampled_from(['none', 'dst', 'src', 'both', 'both']))
    if afi == 2 and form != 'family' and prefixes == 'none':
        prefixes = draw(st.sampled_from(['dst', 'src', 'both']))  # only a prefix tells these forms the rule is IPv6
    if not chosen and not fill and prefixes == 'none':
        prefixes = 'dst'
    pstrat = prefix4() if afi == 1 else prefix6()
    suffix = 'ipv4' if afi == 1 else 'ipv6'
    if prefixes in ('dst', 'both'):
        statements.append(dict(draw(pstrat), type=1, kw=draw(st.sampled_from(['destination', 'destination', f'destination-{suffix}']))))
    if prefixes in ('src', 'both'):
        statements.append(dict(draw(pstrat), type=2, kw=draw(st.sampled_from(['source', 'source', f'source-{suffix}']))))
    for t in chosen:
        terms = draw(bitmask_terms(afi, t)) if t in (9, 12) else draw(numeric_terms(afi, t))
        # one keyword may be written twice (port 80; port 443;): the tests add up, in text order
        cut = None
        if len(terms) >= 2 and draw(st.integers(0, 5)) == 0:
            places = [i for i in range(1, len(terms)) if not terms[i]['and']]
            if places:
                cut = draw(st.sampled_from(places))
        brackets = draw(st.booleans())
        if cut is None:
            statements.append({'type': t, 'kw': kws[t], 'terms': terms, 'brackets': brackets})
        else:
            statements.append({'type': t, 'kw': kws[t], 'terms': terms[:cut], 'brackets': brackets})
            statements.append({'type': t, 'kw': kws[t], 'terms': terms[cut:], 'brackets': draw(st.booleans())})
    order = list(draw(st.permutations(range(len(statements)))))
    # two statements of one keyword keep their relative order (that order is the meaning)
    statements = _stable_same_type([statements[i] for i in order], statements)

    acts, nexthop = draw(actions(afi, block_form))
    rule = {'afi': afi, 'form': form, 'rd': rd, 'nexthop': nexthop, 'statements': statements, 'actions': acts, 'fill': None, 'probe': None}

    if fill:
        base = len(expected_value_bytes(rule))
        room = fill['target'] - base - 1
        if room >= 2:
            two = {0: 0, 2: 1, 1: 2}[room % 3]  # room = 3 * three + 2 * two
            three = (room - 2 * two) // 3
            if three >= 0 and three <= 60000:
                rule['fill'] = {'type': fill['type'], 'kw': kws[fill['type']], 'three': three, 'two': two, 'first': draw(st.booleans())}
    # a value outside the header field for a one octet component: the only right answers are a refusal or a faithful encoding
    if not rule['fill'] and draw(st.integers(0, 39)) == 17:
        one_octet = [t for t in (3, 7, 8, 11) if not (afi == 1 and t == 11)]
        t = draw(st.sampled_from(one_octet))
        rule['probe'] = {'type': t, 'kw': kws[t], 'value': draw(st.sampled_from([256, 300, 4660, 65535]))}
        rule['statements'] = [s for s in rule['statements'] if s['type'] != t]
    return rule


def _stable_same_type(shuffled: list, original: list) -> list:
    by_type: dict = {}
    for s in original:
        by_type.setdefault(s['type'], []).append(s)
    out = []
    for s in shuffled:
        out.append(by_type[s['type']].pop(0))
    return out


# ---------------------------------------------------------------------------- text


def fill_terms(fill: dict) -> list:
    """the bulk port tests: `three` values of two octets (three octets per test), `two` values of one octet"""
    terms = [{'and': False, 'op': '=', 'value': 1000 + i, 'text': str(1000 + i)} for i in range(fill['three'])]
    terms += [{'and': False, 'op': '=', 'value': 10 + i, 'text': str(10 + i)} for i in range(fill['two'])]
    return terms


def all_statements(rule: dict) -> list:
    out = list(rule['statements'])
    if rule.get('fill'):
        f = rule['fill']
        s = {'type': f['type'], 'kw': f['kw'], 'terms': fill_terms(f), 'brackets': True}
        out = [s] + out if f['first'] else out + [s]
    if rule.get('probe'):
        p = rule['probe']
        out.append({'type': p['type'], 'kw': p['kw'], 'terms': [{'and': False, 'op': '=', 'value': p['value'], 'text': str(p['value'])}], 'brackets': False})
    return out


def statement_text(s: dict) -> str:
    if 'terms' not in s:
        text = f'{s["address"]}/{s["bits"]}'
        if s['offset'] is not None:
            text += f'/{s["offset"]}'
        return f'{s["kw"]} {text}'
    tokens: list = []
    for t in s['terms']:
        piece = t['op'] + t['text']
        if t['and'] and tokens:
            tokens[-1] += '&' + piece
        else:
            tokens.append(piece)
    if len(tokens) == 1 and not s['brackets']:
        return f'{s["kw"]} {tokens[0]}'
    return f'{s["kw"]} [ {" ".join(tokens)} ]'


def action_text(a: dict) -> str:
    k = a['kind']
    if k in ('discard', 'accept', 'redirect-to-nexthop'):
        return k
    if k == 'rate-limit':
        return f'rate-limit {a["rate"]}' + (f' {a["unit"]}' if a['unit'] else '')
    if k == 'redirect':
        return f'redirect {a["as"]}:{a["value"]}'
    if k == 'redirect-ip':
        return f'redirect {a["ip"]}'
    if k == 'redirect-rt-ipv4':
        return f'redirect {a["ip"]}:{a["value"]}'
    if k == 'redirect-rt-ipv6':
        return f'redirect [{a["ip"]}]:{a["value"]}'
    if k == 'copy':
        return f'copy {a["ip"]}'
    if k == 'redirect-ietf':
        return f'redirect-to-nexthop-ietf {a["ip"]}'
    if k == 'mark':
        return f'mark {a["dscp"]}'
    if k == 'action':
        return 'action ' + '-'.join(w for w, on in (('sample', a['sample']), ('terminal', a['terminal'])) if on)
    if k == 'target':
        return f'extended-community [ target:{a["as"]}:{a["value"]} ]'
    raise ValueError(k)


def render(rule: dict) -> tuple:
    """(section for Configuration.partial or 'config', text)"""
    stmts = [statement_text(s) for s in all_statements(rule)]
    acts = [action_text(a) for a in rule['actions']]
    form = rule['form']
    if form in ('block', 'config'):
        head = ''
        if rule['rd']:
            head += f'rd {rule["rd"]}; '
        if rule['nexthop']:
            head += f'next-hop {rule["nexthop"]}; '
        name = 'verif-route ' if form == 'config' else ''
        text = f'route {name}{{ {head}match {{ {" ".join(s + ";" for s in stmts)} }} then {{ {" ".join(a + ";" for a in acts)} }} }}'
        return ('config' if form == 'config' else 'flow'), text
    if form == 'flat':
        words = ['route']
        if rule['rd']:
            words.append(f'rd {rule["rd"]}')
        return 'flow', ' '.join(words + stmts + acts)
    safi = 'flow-vpn' if rule['rd'] else 'flow'
    words = [safi] + stmts
    if rule['rd']:
        words.append(f'rd {rule["rd"]}')
    return ('ipv4' if rule['afi'] == 1 else 'ipv6'), ' '.join(words + acts)


# ---------------------------------------------------------------------------- expectation


def expected_components(rule: dict) -> list:
    """[(type, ('prefix', canonical, offset, address, bits)) | (type, [(and, op bits, value)])] in ascending type order"""
    by_type: dict = {}
    for s in all_statements(rule):
        if 'terms' in s:
            table = BITMASK_OPS if s['type'] in (9, 12) else NUMERIC_OPS
            lst = by_type.setdefault(s['type'], [])
            for i, t in enumerate(s['terms']):
                lst.append((1 if (t['and'] and i > 0) else 0, table[t['op']], t['value']))
        else:
            offset = s['offset'] or 0
            bits = s['bits']
            if rule['afi'] == 1:
                net = ipaddress.ip_network(f'{s["address"]}/{bits}', strict=False)
                canon = str(net)
            else:
                whole = int(ipaddress.IPv6Address(s['address']))
                full = (1 << 128) - 1
                keep = (full << (128 - bits)) & full & (full >> offset) if bits else 0
                canon = f'{ipaddress.IPv6Address(whole & keep)}/{bits}'
            by_type[s['type']] = ('prefix', canon, offset, s['address'], bits)
    return [(t, by_type[t]) for t in sorted(by_type)]


def expected_value_bytes(rule: dict) -> bytes:
    """the NLRI value RFC 8955/8956 prescribe for the rule (without the length field)"""
    parts = []
    for ctype, body in expected_components(rule):
        if isinstance(body, tuple):
            _, canon, offset, _address, bits = body
            address = canon.split('/')[0]
            parts.append(rf.b_prefix4(ctype, address, bits) if rule['afi'] == 1 else rf.b_prefix6(ctype, address, bits, offset))
        else:
            terms = []
            for and_bit, op, value in body:
                width = rf.shortest_width(ctype, value)
                if width is None:
                    raise ValueError('value cannot be encoded')
                terms.append((and_bit, op, value, width))
            parts.append(rf.b_component(ctype, terms))
    rd = rf.b_rd(rule['rd']) if rule['rd'] else b''
    return rd + b''.join(parts)


def expected_actions(rule: dict) -> tuple:
    """(set of decoded 8 octet actions as sorted tuples, same for attribute 25, next hop text or None)"""
    ec, ec6 = [], []
    nexthop = None
    for a in rule['actions']:
        k = a['kind']
        if k == 'discard':
            ec.append({'kind': 'rate-bytes', 'as': 0, 'float': struct.pack('!f', 0.0).hex()})
        elif k == 'rate-limit':
            kind = 'rate-packets' if a['unit'] == 'packets' else 'rate-bytes'
            ec.append({'kind': kind, 'as': 0, 'float': struct.pack('!f', float(a['rate'])).hex()})
        elif k == 'redirect':
            if a['as'] <= 65535:
                ec.append({'kind': 'redirect-as2', 'as': a['as'], 'value': a['value']})
            else:
                ec.append({'kind': 'redirect-as4', 'as': a['as'], 'value': a['value']})
        elif k == 'redirect-rt-ipv4':
            ec.append({'kind': 'redirect-ipv4', 'ip': a['ip'], 'value': a['value']})
        elif k == 'redirect-rt-ipv6':
            ec6.append({'kind': 'redirect-ipv6', 'ip': a['ip'], 'value': a['value']})
        elif k in ('redirect-ip', 'copy'):
            ec.append({'kind': 'nexthop', 'copy': 1 if k == 'copy' else 0, 'other_bits': 0})
            nexthop = a['ip']
        elif k == 'redirect-to-nexthop':
            ec.append({'kind': 'nexthop', 'copy': 0, 'other_bits': 0})
            nexthop = rule['nexthop']
        elif k == 'redirect-ietf':
            entry = {'kind': 'nexthop-ietf', 'ip': str(ipaddress.ip_address(a['ip'])), 'copy': 0, 'other_bits': 0}
            (ec6 if ':' in a['ip'] else ec).append(entry)
        elif k == 'mark':
            ec.append({'kind': 'mark', 'dscp': a['dscp'], 'other_bits': 0})
        elif k == 'action':
            ec.append({'kind': 'action', 'terminal': int(a['terminal']), 'sample': int(a['sample']), 'other_bits': 0})
        elif k == 'target':
            ec.append({'kind': 'other', 'raw': struct.pack('!HHL', 0x0002, a['as'], a['value']).hex()})
    return ec, ec6, nexthop


def freeze(items: list) -> list:
    return sorted(tuple(sorted(d.items())) for d in items)


# ---------------------------------------------------------------------------- reading exabgp's reports back

_NUM = re.compile(r'^(>=|<=|!=|=|>|<|true|false)(.*)$')
_BIT = re.compile(r'^(!=|=|!|)(.*)$')
_REPORT_NUM = {'=': 1, '>': 2, '<': 4, '>=': 3, '<=': 5, '!=': 6, 'true': 7, 'false': 0}


class Unreadable(Exception):
    pass


def _number(text: str) -> int | None:
    try:
        return int(text, 16) if text.lower().startswith('0x') else int(text)
    except ValueError:
        return None


def parse_element(ctype: int, element: str) -> list:
    """one reported element (tests joined by &) -> [(and, op bits, value or None)]"""
    out = []
    pieces = element.split('&')
    lead = 0
    if len(pieces) > 1 and pieces[0] == '' and ctype not in (9, 12):
        # numeric components: the AND bit set on the first test of an element is reported as a leading '&'
        # (for the bitmask components a leading '&' is a first test whose value 0 prints as nothing, followed by an AND test)
        pieces, lead = pieces[1:], 1
    for i, piece in enumerate(pieces):
        if ctype in (9, 12):
            m = _BIT.match(piece)
            op, rest = BITMASK_OPS[m.group(1)], m.group(2)
            value = 0
            for part in rest.split('+') if rest else []:
                if part.startswith('unknown'):
                    whole = _number(part.split(' ')[-1])
                    if whole is None:
                        raise Unreadable(element)
                    value = whole
                    break
                n = _number(part)
                if n is not None:
                    value = n  # a bare number stands for the whole value
                    break
                if part not in BIT_NAMES[ctype]:
                    raise Unreadable(element)
                value += BIT_NAMES[ctype][part]
            out.append((1 if (i or lead) else 0, op, value))
        else:
            m = _NUM.match(piece)
            if not m:
                raise Unreadable(element)
            op, rest = _REPORT_NUM[m.group(1)], m.group(2)
            if m.group(1) in ('true', 'false'):
                value = None
            else:
                value = _number(rest)
                if value is None:
                    value = VALUE_NAMES.get(ctype, {}).get(rest)
                if value is None:
                    raise Unreadable(element)
            out.append((1 if (i or lead) else 0, op, value))
    return out


def parse_prefix(afi: int, text: str) -> tuple:
    """reported prefix -> (canonical prefix over the bits [offset, length), offset)"""
    parts = text.split('/')
    if afi == 1:
        if len(parts) != 2:
            raise Unreadable(text)
        return str(ipaddress.ip_network(text, strict=False)), 0
    if len(parts) != 3:
        raise Unreadable(text)
    bits, offset = int(parts[1]), int(parts[2])
    whole = int(ipaddress.IPv6Address(parts[0]))
    full = (1 << 128) - 1
    keep = (full << (128 - bits)) & full & (full >> offset) if bits else 0
    return f'{ipaddress.IPv6Address(whole & keep)}/{bits}', offset


def canonical_from_json(afi: int, doc: dict) -> tuple:
    """Flow.json() document -> (canonical rule as refwire.flow.canonical gives it, rd text)"""
    comps = {}
    for name, elements in doc.items():
        if name in ('string', 'rd', 'next-hop'):
            continue
        if name not in REPORT_NAMES:
            raise Unreadable(name)
        ctype = REPORT_NAMES[name]
        if ctype in (1, 2):
            if len(elements) != 1:
                raise Unreadable(f'{len(elements)} prefixes for {name}')
            comps[ctype] = parse_prefix(afi, elements[0])
        else:
            terms = []
            for e in elements:
                terms.extend(parse_element(ctype, e))
            if terms and terms[0][0]:
                # RFC 8955 4.2.1.1: the AND bit of the first test of a component has nothing to join and is not part of the rule
                terms[0] = (0,) + tuple(terms[0][1:])
            comps[ctype] = terms
    return [(t, comps[t]) for t in sorted(comps)], doc.get('rd')


def canonical_from_extensive(afi: int, text: str) -> tuple:
    """'flow destination-ipv4 10.0.0.2/32 protocol [ =tcp =udp ] rd 1:2' -> same shape as canonical_from_json"""
    # a bitmask value with bits that have no name prints as '...+unknown tcp flag type 4095': keep the number
    words = re.sub(r'unknown [a-z ]+ type (\d+)', r'\1', text).split(' ')
    if not words or words[0] != 'flow':
        raise Unreadable(text)
    comps: dict = {}
    rd = None
    current = None
    i = 1
    while i < len(words):
        w = words[i]
        i += 1
        if w in ('[', ']', ''):
            continue
        if w == 'rd' and i < len(words):
            rd = words[i]
            i += 1
            current = None
            continue
        if w in REPORT_NAMES:
            current = REPORT_NAMES[w]
            comps.setdefault(current, [])
            continue
        if current is None:
            raise Unreadable(text)
        if current in (1, 2):
            comps[current].append(parse_prefix(afi, w))
        else:
            comps[current].extend(parse_element(current, w))
    out = []
    for t in sorted(comps):
        if t in (1, 2):
            if len(comps[t]) != 1:
                raise Unreadable(text)
            out.append((t, comps[t][0]))
        else:
            terms = comps[t]
            if terms and terms[0][0]:
                terms[0] = (0,) + tuple(terms[0][1:])  # see canonical_from_json
            out.append((t, terms))
    return out, rd


def rd_text(raw: bytes) -> str:
    kind = struct.unpack('!H', raw[:2])[0]
    if kind == 0:
        a, n = struct.unpack('!HL', raw[2:])
        return f'{a}:{n}'
    if kind == 1:
        return f'{ipaddress.IPv4Address(raw[2:6])}:{struct.unpack("!H", raw[6:])[0]}'
    if kind == 2:
        a, n = struct.unpack('!LH', raw[2:])
        return f'{a}:{n}'
    return raw.hex()


def same_meaning(reference: list, reported: list) -> str | None:
    """compare canonical rules; a reported value None (true/false print no value) matches anything. Returns the first difference"""
    if [t for t, _ in reference] != [t for t, _ in reported]:
        return f'components {[t for t, _ in reported]} for {[t for t, _ in reference]}'
    for (t, a), (_, b) in zip(reference, reported):
        if t in (1, 2):
            if tuple(a) != tuple(b):
                return f'component {t}: {b} for {a}'
            continue
        if len(a) != len(b):
            return f'component {t}: {len(b)} tests for {len(a)}'
        for x, y in zip(a, b):
            if x[0] != y[0] or x[1] != y[1] or (y[2] is not None and x[2] != y[2]):
                return f'component {t}: test {tuple(y)} for {tuple(x)}'
    return None


# ---------------------------------------------------------------------------- strategies: wire side (decode engine)


@st.composite
def wire_terms(draw, afi: int, ctype: int, wide: bool) -> list:
    """[(and, op, value, width)] with every legal width, not only the shortest"""
    bitmask = ctype in (9, 12)
    top = domain(afi, ctype)
    out = []
    for i in range(draw(st.sampled_from([1, 1, 2, 3, 4, 6]))):
        if bitmask:
            op = draw(st.sampled_from([0, 1, 2, 3]))
            value = draw(st.one_of(st.sampled_from([1, 2, 0x12, 0x3F, top]), st.integers(0, top), st.integers(1, top)))
            if ctype == 12:
                value &= 0x0F
        else:
            op = draw(st.sampled_from([1, 1, 2, 3, 4, 5, 6, 1, 2, 4] + ([0, 7] if wide else [])))
            value = draw(_biased(top))
        least = rf.shortest_width(ctype, value)
        widths = [w for w in rf.allowed_widths(ctype) if w >= least]
        width = least if not wide else draw(st.sampled_from(widths + [least]))
        if wide and not bitmask and ctype != 11 and draw(st.integers(0, 15)) == 0:
            # a value larger than the header field, in a width which holds it (syntactically fine)
            width = draw(st.sampled_from([w for w in (2, 4, 8) if w in rf.allowed_widths(ctype)]))
            value = draw(st.integers(0, (1 << (8 * width)) - 1))
        out.append([1 if (i and draw(st.integers(0, 2)) == 0) else 0, op, value, width])
    return out


@st.composite
def wire_rules(draw) -> dict:
    afi = draw(st.sampled_from([1, 2]))
    vpn = draw(st.integers(0, 3)) == 0
    wide = draw(st.booleans())
    types = sorted(KEYWORDS[afi])
    size = draw(st.sampled_from(['small', 'small', 'small', 'small', 'small', 'small', 'fill']))
    fill = None
    if size == 'fill':
        fill = {'type': draw(st.sampled_from([4, 5, 6, 10])), 'target': draw(st.sampled_from(FILL_TARGETS))}
        types = [t for t in types if t != fill['type']]
    n = draw(st.sampled_from([0, 1, 1, 2, 3, 3, 4, 6, len(types)]))
    chosen = sorted(draw(st.lists(st.sampled_from(types), min_size=min(n, len(types)), max_size=min(n, len(types)), unique=True)))
    comps: list = []
    prefixes = draw(st.sampled_from(['none', 'dst', 'src', 'both']))
    if not chosen and not fill and prefixes == 'none':
        prefixes = 'src'
    for ctype, wanted in ((1, prefixes in ('dst', 'both')), (2, prefixes in ('src', 'both'))):
        if not wanted:
            continue
        p = draw(prefix4() if afi == 1 else prefix6())
        entry = {'type': ctype, 'address': p['address'], 'bits': p['bits'], 'offset': p['offset'] or 0}
        if afi == 2 and draw(st.integers(0, 1)) == 0:
            entry['offset'] = 0  # keep a good share of plain prefixes
        comps.append(entry)
    for t in chosen:
        comps.append({'type': t, 'terms': draw(wire_terms(afi, t, wide))})
    rd = draw(st.sampled_from(RDS)) if vpn else None
    rule = {'afi': afi, 'rd': rd, 'components': comps, 'fill': None, 'mutation': None, 'second': draw(st.integers(0, 4)) == 0}
    if fill:
        base = len(wire_value(rule))
        room = fill['target'] - base - 1
        if room >= 2:
            two = {0: 0, 2: 1, 1: 2}[room % 3]
            rule['fill'] = {'type': fill['type'], 'three': (room - 2 * two) // 3, 'two': two}
    roll = draw(st.integers(0, 9))
    if roll < 4:
        kind = draw(st.sampled_from(['undefined-type', 'undefined-type', 'truncate', 'truncate', 'no-eol', 'overrun']))
        m = {'kind': kind}
        if kind == 'undefined-type':
            m['id'] = draw(st.sampled_from([0, 13, 14, 15, 64, 128, 255] if afi == 1 else [0, 14, 15, 64, 128, 255]))
            m['where'] = draw(st.sampled_from(['order', 'order', 'first', 'last']))
            m['shape'] = draw(st.sampled_from(['8101', '8101', '910050', '0101', '']))
        elif kind == 'truncate':
            m['cut'] = draw(st.integers(1, 4))
        elif kind == 'no-eol':
            m['which'] = draw(st.integers(0, 12))
        else:
            m['extra'] = draw(st.sampled_from([1, 2, 16, 200]))
        rule['mutation'] = m
        rule['second'] = False
    return rule


def wire_components(rule: dict) -> list:
    """[(type, bytes)] in ascending type order, built with the refwire builders"""
    out = []
    comps = list(rule['components'])
    if rule.get('fill'):
        f = rule['fill']
        terms = [[0, 1, 1000 + i, 2] for i in range(f['three'])] + [[0, 1, 10 + i, 1] for i in range(f['two'])]
        comps.append({'type': f['type'], 'terms': terms})
    for c in sorted(comps, key=lambda c: c['type']):
        if 'terms' in c:
            out.append((c['type'], rf.b_component(c['type'], [tuple(t) for t in c['terms']])))
        elif rule['afi'] == 1:
            out.append((c['type'], rf.b_prefix4(c['type'], c['address'], c['bits'])))
        else:
            out.append((c['type'], rf.b_prefix6(c['type'], c['address'], c['bits'], c['offset'])))
    return out


def wire_value(rule: dict) -> bytes:
    rd = rf.b_rd(rule['rd']) if rule['rd'] else b''
    return rd + b''.join(b for _, b in wire_components(rule))


def wire_nlri(rule: dict) -> tuple:
    """(NLRI bytes with the mutation applied, mutation kind or None)"""
    rd = rf.b_rd(rule['rd']) if rule['rd'] else b''
    comps = wire_components(rule)
    plain = rf.b_nlri([b for _, b in comps], rd)
    m = rule.get('mutation')
    if not m:
        return plain, None
    try:
        return _mutated(rule, m, rd, comps)
    except ValueError:
        return plain, None  # the mutation would not fit in 4095 octets


def _mutated(rule: dict, m: dict, rd: bytes, comps: list) -> tuple:
    kind = m['kind']
    if kind == 'undefined-type':
        extra = bytes([m['id']]) + bytes.fromhex(m['shape'])
        if m['where'] == 'first':
            comps = [(0, extra)] + comps
        elif m['where'] == 'last':
            comps = comps + [(999, extra)]
        else:
            comps = sorted(comps + [(m['id'], extra)], key=lambda c: c[0])
        return rf.b_nlri([b for _, b in comps], rd), kind
    value = rd + b''.join(b for _, b in comps)
    if kind == 'truncate':
        keep = max(len(rd) + 1, len(value) - m['cut'])
        return rf.b_truncate(value, keep), kind
    if kind == 'overrun':
        return rf.b_overrun(value, m['extra']), kind
    # no-eol: the last test of one operator component keeps its end-of-list bit clear
    ops = [i for i, (t, _) in enumerate(comps) if t not in (1, 2)]
    if not ops:
        return rf.b_nlri([b for _, b in comps], rd), None
    target = ops[m['which'] % len(ops)]
    chosen = next(c for c in _all_wire_comps(rule) if c['type'] == comps[target][0])
    rebuilt = rf.b_component(chosen['type'], [tuple(t) for t in chosen['terms']], eol='none')
    comps[target] = (comps[target][0], rebuilt)
    return rf.b_nlri([b for _, b in comps], rd), kind


def _all_wire_comps(rule: dict) -> list:
    comps = list(rule['components'])
    if rule.get('fill'):
        f = rule['fill']
        comps.append({'type': f['type'], 'terms': [[0, 1, 1000 + i, 2] for i in range(f['three'])] + [[0, 1, 10 + i, 1] for i in range(f['two'])]})
    return comps
