"""c19_gen.py - sequences of messages over three sessions, biased to repeat (C19).  Imports nothing from exabgp.

A case is {'messages': [[session index, message type, body hex], ...], 'motifs': [names of the patterns it was
assembled from]}.  Everything the oracle needs is in 'messages'; 'motifs' only feeds the class distribution.

The sequence is a concatenation of motifs, each 1-4 messages:
  cross-identical   the same attribute block (or the whole UPDATE) on two sessions, optionally something in between
  near-identical    a block, then the block with one byte changed
  mp-toggle         a block with MP_REACH/MP_UNREACH, then the same block without (or the other way round)
  eor-run           End-of-RIB for several families in a row, over several sessions
  taw-then-valid    a malformed (treat-as-withdraw class) block, then the same block well-formed
  as4-cross         AS_PATH + AS4_PATH as a 2-byte speaker sends them, on the 2-byte session and again on a 4-byte one
  opens             OPEN bodies drawing on one catalogue of capabilities (same codes, different values) on two sessions
  notifications, misc (KEEPALIVE, ROUTE-REFRESH), plain (refwire.strategies UPDATE for that session),
  repeat-far        an earlier message again (same or other session) at distance >= 2
  dual-nlri         NLRI bytes that parse both with and without a path-id, on an ADD-PATH and a plain session

Blocks valid under BOTH AS-width readings are built on purpose (random ones almost never are):
  AS_PATH  = segment(t1, k ASNs) || segment(t2, k-1 ASNs) with 2-byte ASNs is 2+2k+2+2(k-1) = 4k+2 bytes, which is
  also exactly one segment(t1, k ASNs) with 4-byte ASNs.  `02 02 0001 0002 02 01 0003` is [1 2][3] or [65538 33619971].
"""

from __future__ import annotations

import struct

from hypothesis import strategies as st

from vlib.c19_decode import KEEPALIVE, NOTIFICATION, OPEN, ROUTE_REFRESH, SESSIONS, UPDATE
from vlib.refwire import build, codec
from vlib.refwire import strategies as ws

# refwire.strategies session descriptions (its generators know the IP families: FlowSpec is left to the flow motif)
SESS = [dict({k: s[k] for k in ('asn4', 'addpath', 'peer_as')}, families=[f for f in s['families'] if f[1] in (1, 2, 4, 128)]) for s in SESSIONS]
FLOW_SESSIONS = [i for i, s in enumerate(SESSIONS) if [1, 133] in s['families'] and [2, 133] in s['families']]
NS = len(SESS)

# ---------------------------------------------------------------------------- byte-level helpers (also used by the oracle)


def split_update(body: bytes) -> tuple[bytes, bytes, bytes] | None:
    if len(body) < 4:
        return None
    wlen = struct.unpack('!H', body[:2])[0]
    if len(body) < 4 + wlen:
        return None
    alen = struct.unpack('!H', body[2 + wlen : 4 + wlen])[0]
    if len(body) < 4 + wlen + alen:
        return None
    return body[2 : 2 + wlen], body[4 + wlen : 4 + wlen + alen], body[4 + wlen + alen :]


def split_tlvs(block: bytes) -> list[tuple[int, int, bytes, bytes]] | None:
    """[(flags, code, value, raw TLV)] or None when the block does not split"""
    out = []
    pos = 0
    while pos < len(block):
        if pos + 3 > len(block):
            return None
        flags, code = block[pos], block[pos + 1]
        if flags & 0x10:
            if pos + 4 > len(block):
                return None
            length = struct.unpack('!H', block[pos + 2 : pos + 4])[0]
            head = 4
        else:
            length = block[pos + 2]
            head = 3
        if pos + head + length > len(block):
            return None
        out.append((flags, code, block[pos + head : pos + head + length], block[pos : pos + head + length]))
        pos += head + length
    return out


def without_mp(block: bytes) -> bytes | None:
    tlvs = split_tlvs(block)
    if tlvs is None:
        return None
    return b''.join(raw for _, code, _, raw in tlvs if code not in (14, 15))


def is_dual_path(value: bytes) -> bool:
    """an AS_PATH value well-formed under both ASN widths, with two different meanings"""
    try:
        two = codec.decode_aspath(value, False)
        four = codec.decode_aspath(value, True)
    except codec.Malformed:
        return False
    return bool(two) and two != four


def has_dual_path(block: bytes) -> bool:
    tlvs = split_tlvs(block)
    return bool(tlvs) and any(code == 2 and is_dual_path(value) for _, code, value, _ in tlvs)


def one_byte_apart(a: bytes, b: bytes) -> bool:
    return len(a) == len(b) and sum(x != y for x, y in zip(a, b)) == 1


# ---------------------------------------------------------------------------- ingredients

small_asn = st.sampled_from([1, 2, 3, 100, 23456, 64512, 65000, 65535])
small_v4 = st.sampled_from(['10.0.0.1', '192.0.2.1', '1.2.3.4'])
sess_idx = st.integers(0, NS - 1)
V4_PREFIXES = ['10.0.1.0/24', '10.0.2.0/24', '192.0.2.0/25', '172.16.0.0/12', '0.0.0.0/0', '203.0.113.7/32']

EOR_POOL = [
    b'\x00\x00\x00\x00',
    ws.eor_body(2, 1),
    ws.eor_body(1, 4),
    ws.eor_body(1, 128),
    ws.eor_body(2, 128),
    ws.eor_body(1, 2),
    ws.eor_body(2, 4),
    ws.eor_body(1, 133),
    ws.eor_body(25, 70),
    build.update_body(b'', build.attribute(0x80, 15, struct.pack('!HB', 1, 1), True), b''),  # IPv4 unicast, MP form
    build.update_body(b'', bytes([0x80, 15, 3]) + struct.pack('!HB', 2, 1), b''),  # no extended length: not the fast path
    build.update_body(b'', bytes([0x80, 15, 3]) + struct.pack('!HB', 1, 128), b''),
]

CAP_CATALOGUE = [
    build.cap_mp(1, 1),
    build.cap_mp(2, 1),
    build.cap_mp(1, 4),
    build.cap_mp(1, 128),
    build.cap_mp(2, 128),
    build.cap_asn4(65001),
    build.cap_asn4(70000),
    build.cap_asn4(4200000000),
    build.cap_refresh(),
    build.capability(128, b''),  # Cisco route refresh: the same class as code 2
    build.cap_erefresh(),
    build.cap_ext_msg(),
    build.cap_addpath([(1, 1, 3)]),
    build.cap_addpath([(2, 1, 1)]),
    build.cap_addpath([(1, 1, 2), (1, 4, 3)]),
    build.cap_gr(0, 120, [(1, 1, 0x80)]),
    build.cap_gr(8, 60, [(2, 1, 0)]),
    build.cap_gr(0, 0, []),
    build.cap_ext_nh([(1, 1, 2)]),
    build.cap_ext_nh([(1, 1, 2), (1, 128, 2)]),
    build.cap_hostname(b'r1', b'example.net'),
    build.cap_hostname(b'other-router', b''),
    build.capability(75, bytes([7]) + b'exa 1.0'),
    build.capability(75, bytes([5]) + b'frr 9'),
    build.capability(68, b'\x00\x01'),
    build.capability(131, b'\x00'),  # Cisco multisession: the same class as code 68
    build.capability(0x4C, struct.pack('!HBH', 1, 1, 5)),
    build.capability(0x4C, struct.pack('!HBH', 2, 1, 9)),
    build.capability(0x4D, b''),
    build.capability(0xB9, b''),
    build.capability(0xEE, b'\x01\x02'),
    build.capability(0xEE, b''),
    build.capability(0xEF, b'\xff'),
]

NOTIFICATION_POOL = [
    build.notification(6, 2),
    build.notification(6, 2, bytes([11]) + b'maintenance'),
    build.notification(6, 4, bytes([6]) + 'résumé'.encode()[:6]),
    build.notification(6, 2, b'\x05\xff\xfe\xfd\xfc\xfb'),
    build.notification(6, 3),
    build.notification(3, 1),
    build.notification(3, 5, b'\x40\x01\x02\x00\x00'),
    build.notification(2, 7, build.cap_mp(1, 128)),
    build.notification(1, 2, b'\x00\x13'),
    build.notification(4, 0),
    build.notification(99, 99, b'\xff\x00'),
    build.notification(6, 2, b'plain text'),
    b'\x06',
]

MISC_POOL = [
    [KEEPALIVE, b''],
    [ROUTE_REFRESH, build.route_refresh(1, 1)],
    [ROUTE_REFRESH, build.route_refresh(2, 1)],
    [ROUTE_REFRESH, build.route_refresh(1, 128)],
    [ROUTE_REFRESH, build.route_refresh(1, 1, 1)],
    [ROUTE_REFRESH, build.route_refresh(1, 1, 2)],
    [ROUTE_REFRESH, build.route_refresh(99, 1)],
]


def v4_nlri(prefixes: list[str], addpath: bool, path_id: int = 1) -> bytes:
    return b''.join(build.nlri({'prefix': p, 'path_id': path_id}, addpath) for p in prefixes)


@st.composite
def nlri_for(draw, i: int) -> bytes:
    """a short IPv4 unicast NLRI section in the encoding session i negotiated (mostly one of two fixed ones)"""
    if draw(st.integers(0, 4)) != 0:
        prefixes = draw(st.sampled_from([V4_PREFIXES[:1], V4_PREFIXES[1:3]]))
        return v4_nlri(prefixes, ws.has_ap(SESS[i], 1, 1), 1)
    prefixes = draw(st.lists(st.sampled_from(V4_PREFIXES), min_size=1, max_size=3, unique=True))
    return v4_nlri(prefixes, ws.has_ap(SESS[i], 1, 1), draw(st.sampled_from([0, 1, 7])))


def dual_nlri_bytes(pairs: int, zero: bool) -> bytes:
    """parses without path-ids as 2*pairs /24 prefixes (or 4 x /0 + one prefix), with path-ids as `pairs` prefixes"""
    if zero:
        return b'\x00\x00\x00\x00' + bytes([24, 10, 0, 9])
    return b''.join(bytes([24, 10, 0, 2 * n + 1]) + bytes([24, 10, 0, 2 * n + 2]) for n in range(pairs))


@st.composite
def dual_path_value(draw) -> bytes:
    k = draw(st.sampled_from([2, 2, 2, 3, 4, 1]))
    t1 = draw(st.sampled_from([2, 2, 2, 1, 3]))
    t2 = draw(st.sampled_from([2, 2, 1, 4]))
    first = [draw(small_asn) for _ in range(k)]
    second = [draw(small_asn) for _ in range(k - 1)]
    return bytes([t1, k]) + b''.join(struct.pack('!H', a) for a in first) + bytes([t2, k - 1]) + b''.join(struct.pack('!H', a) for a in second)


@st.composite
def dual_block(draw, with_as4: bool = False) -> list[bytes]:
    """a dual-reading block: from the catalogue (so that reference decodes are shared between cases) or new"""
    if draw(st.integers(0, 5)) != 0:
        return draw(st.sampled_from(CATALOGUE['dual-as4' if with_as4 else 'dual']))
    return draw(new_dual_block(with_as4))


@st.composite
def new_dual_block(draw, with_as4: bool = False) -> list[bytes]:
    """a non-MP attribute block (list of TLVs) whose AS_PATH reads well-formed under both ASN widths"""
    tlvs = [
        build.attribute(0x40, 1, bytes([draw(st.integers(0, 2))])),
        build.attribute(0x40, 2, draw(dual_path_value())),
        build.attribute(0x40, 3, build.ip(draw(small_v4))),
    ]
    if draw(st.booleans()):
        tlvs.append(build.attribute(0x80, 4, struct.pack('!L', draw(st.sampled_from([0, 100, 2**32 - 1])))))
    if draw(st.booleans()):
        tlvs.append(build.attribute(0x40, 5, struct.pack('!L', draw(st.sampled_from([100, 200])))))
    if draw(st.integers(0, 3)) == 0:
        tlvs.append(build.attribute(0x40, 6, b''))
    agg = draw(st.sampled_from([None, None, 2, 4]))
    if agg is not None:
        # 6 bytes is an AGGREGATOR only for a 2-byte peer, 8 bytes only for a 4-byte one
        tlvs.append(build.attribute(0xC0, 7, struct.pack('!H' if agg == 2 else '!L', draw(small_asn)) + build.ip(draw(small_v4))))
    if draw(st.integers(0, 2)) == 0:
        tlvs.append(build.attribute(0xC0, 8, b''.join(struct.pack('!L', c) for c in draw(st.lists(st.sampled_from([0xFFFFFF01, 0x00010002, 0xFDE80064]), min_size=1, max_size=3, unique=True)))))
    if with_as4 or draw(st.integers(0, 3)) == 0:
        as4 = [[2, draw(st.lists(st.sampled_from([1, 3, 65536, 70000, 4200000000]), min_size=1, max_size=3))]]
        tlvs.append(build.attribute(0xC0, 17, build.aspath([(t, x) for t, x in as4], True)))
        if draw(st.integers(0, 2)) == 0:
            tlvs.append(build.attribute(0xC0, 18, struct.pack('!L', draw(st.sampled_from([70000, 4200000000]))) + build.ip(draw(small_v4))))
    if draw(st.integers(0, 3)) == 0:
        tlvs.append(build.attribute(0xC0, 32, struct.pack('!LLL', 65000, draw(st.integers(0, 3)), 7)))
    if draw(st.integers(0, 4)) == 0:
        tlvs.append(build.attribute(0xC0, 0x63, draw(st.sampled_from([b'', b'\x01', b'\xde\xad']))))
    if draw(st.integers(0, 3)) == 0:
        # AIGP (RFC 7311) is only accepted where the neighbor is configured for it
        tlvs.append(build.attribute(0x80, 26, b'\x01\x00\x0b' + struct.pack('!Q', draw(st.sampled_from([0, 10, 2**40])))))
    return tlvs


@st.composite
def base_update(draw, i: int) -> tuple[bytes, list[bytes], list[bytes], bytes, bytes]:
    """a refwire.strategies UPDATE well-formed for session i: from the catalogue or new"""
    if draw(st.integers(0, 5)) != 0:
        return draw(st.sampled_from(CATALOGUE[f'update-{i}']))
    return draw(new_base_update(i))


@st.composite
def new_base_update(draw, i: int) -> tuple[bytes, list[bytes], list[bytes], bytes, bytes]:
    """a refwire.strategies UPDATE well-formed for session i -> (body, non-MP TLVs, MP TLVs, withdrawn, nlri)"""
    desc = draw(ws.updates(SESS[i]))
    body = ws.render_update(desc)
    withdrawn, block, nlri = split_update(body)  # type: ignore[misc]
    tlvs = split_tlvs(block) or []
    return body, [raw for _, c, _, raw in tlvs if c not in (14, 15)], [raw for _, c, _, raw in tlvs if c in (14, 15)], withdrawn, nlri


@st.composite
def block_for(draw, i: int) -> list[bytes]:
    """a non-empty non-MP block: built dual (most of the time) or taken from a refwire UPDATE for session i"""
    if draw(st.integers(0, 9)) < 6:
        return draw(dual_block())
    for _ in range(3):
        _, tlvs, _, _, _ = draw(base_update(i))
        if tlvs:
            return tlvs
    return draw(dual_block())


def mp_tlvs_default(i: int) -> list[bytes]:
    """an MP_REACH for a family of session i, in its encoding"""
    s = SESS[i]
    if [2, 1] in s['families']:
        return [build.attribute(0x80, 14, build.mp_reach(2, 1, ['2001:db8::1'], [{'prefix': '2001:db8:1::/48', 'path_id': 1}], ws.has_ap(s, 2, 1)))]
    return [build.attribute(0x80, 14, build.mp_reach(1, 4, ['10.0.0.1'], [{'prefix': '10.9.0.0/16', 'labels': [100], 'path_id': 1}], ws.has_ap(s, 1, 4)))]


def update_msg(i: int, tlvs: list[bytes], nlri: bytes, withdrawn: bytes = b'') -> list:
    return [i, UPDATE, build.update_body(withdrawn, b''.join(tlvs), nlri).hex()]


@st.composite
def other_session(draw, i: int, want_other_asn4: bool = False) -> int:
    if want_other_asn4:
        return draw(st.sampled_from([j for j in range(NS) if SESS[j]['asn4'] != SESS[i]['asn4']]))
    return draw(st.sampled_from([j for j in range(NS) if j != i]))


@st.composite
def filler(draw) -> list:
    kind = draw(st.integers(0, 3))
    i = draw(sess_idx)
    if kind == 0:
        return [i, UPDATE, draw(st.sampled_from(EOR_POOL)).hex()]
    if kind == 1:
        t, b = draw(st.sampled_from(MISC_POOL))
        return [i, t, b.hex()]
    if kind == 2:
        return [i, UPDATE, draw(base_update(i))[0].hex()]
    return update_msg(i, draw(dual_block()), draw(nlri_for(i)))


def change_one_byte(draw, tlvs: list[bytes]) -> list[bytes]:
    """near-identical: one byte of one attribute value differs (or, sometimes, any one byte of the block)"""
    if draw(st.integers(0, 3)) == 0:
        block = bytearray(b''.join(tlvs))
        pos = draw(st.integers(0, len(block) - 1))
        block[pos] ^= draw(st.sampled_from([1, 2, 0x80]))
        return [bytes(block)]
    candidates = [n for n, raw in enumerate(tlvs) if len(raw) > (4 if raw[0] & 0x10 else 3)]
    if not candidates:
        return tlvs + [build.attribute(0x80, 4, b'\x00\x00\x00\x01')]
    n = draw(st.sampled_from(candidates))
    raw = bytearray(tlvs[n])
    head = 4 if raw[0] & 0x10 else 3
    pos = draw(st.sampled_from([len(raw) - 1, len(raw) - 1, head, draw(st.integers(head, len(raw) - 1))]))
    raw[pos] ^= draw(st.sampled_from([1, 1, 2]))
    return tlvs[:n] + [bytes(raw)] + tlvs[n + 1 :]


def make_malformed(draw, tlvs: list[bytes]) -> list[bytes]:
    """the same block with one attribute broken the RFC 7606 treat-as-withdraw way"""
    kind = draw(st.sampled_from(['origin-empty', 'origin-flags', 'origin-value', 'nexthop-short', 'aspath-cut', 'med-short', 'localpref-long']))
    code = {'origin-empty': 1, 'origin-flags': 1, 'origin-value': 1, 'nexthop-short': 3, 'aspath-cut': 2, 'med-short': 4, 'localpref-long': 5}[kind]
    bad = {
        'origin-empty': bytes([0x40, 1, 0]),
        'origin-flags': bytes([0x80, 1, 1, 0]),
        'origin-value': bytes([0x40, 1, 1, 7]),
        'nexthop-short': bytes([0x40, 3, 3, 10, 0, 0]),
        'med-short': bytes([0x80, 4, 3, 0, 0, 1]),
        'localpref-long': bytes([0x40, 5, 5, 0, 0, 0, 100, 0]),
    }
    out = []
    done = False
    for raw in tlvs:
        if raw[1] == code and not done:
            done = True
            if kind == 'aspath-cut':
                head = 4 if raw[0] & 0x10 else 3
                value = raw[head:-1] if len(raw) > head else b'\x02'
                out.append(build.attribute(raw[0], 2, value))
            else:
                out.append(bad[kind])
        else:
            out.append(raw)
    if not done:
        out.insert(0, bad.get(kind, bytes([0x40, 1, 0])))
    return out


# ---------------------------------------------------------------------------- motifs: (draw, messages so far) -> new messages


def m_cross_identical(draw, msgs: list) -> list:
    i = draw(sess_idx)
    j = draw(other_session(i, want_other_asn4=draw(st.integers(0, 3)) != 0))
    tlvs = draw(block_for(i))
    nlri_i = draw(nlri_for(i))
    first = update_msg(i, tlvs, nlri_i)
    whole = draw(st.booleans())
    second = [j, UPDATE, first[2]] if whole else update_msg(j, tlvs, draw(nlri_for(j)))
    out = [first]
    if draw(st.integers(0, 3)) == 0:
        out.append(draw(filler()))
    out.append(second)
    if draw(st.integers(0, 3)) == 0:
        out.append([i, UPDATE, first[2]])
    return out


def m_near_identical(draw, msgs: list) -> list:
    i = draw(sess_idx)
    j = draw(st.sampled_from([i, draw(sess_idx)]))
    tlvs = draw(block_for(i))
    near = change_one_byte(draw, tlvs)
    nlri = draw(nlri_for(i))
    out = [update_msg(i, tlvs, nlri), update_msg(j, near, nlri if j == i else draw(nlri_for(j)))]
    if draw(st.booleans()):
        out.append(update_msg(i, tlvs, nlri))
    return out


def m_mp_toggle(draw, msgs: list) -> list:
    i = draw(sess_idx)
    j = draw(st.sampled_from([i, i, draw(sess_idx)]))
    mp: list[bytes] = []
    tlvs: list[bytes] = []
    nlri = b''
    if draw(st.booleans()):
        for _ in range(3):
            _, tlvs, mp, _, nlri = draw(base_update(i))
            if mp and tlvs:
                break
    if not (mp and tlvs):
        tlvs, mp, nlri = draw(dual_block()), mp_tlvs_default(i), draw(nlri_for(i))
    place = draw(st.sampled_from(['last', 'first']))
    with_mp = update_msg(i, tlvs + mp if place == 'last' else mp + tlvs, nlri)
    without = update_msg(j, tlvs, nlri if j == i else draw(nlri_for(j)))
    order = draw(st.sampled_from(['with-first', 'without-first', 'sandwich']))
    if order == 'with-first':
        return [with_mp, without]
    if order == 'without-first':
        return [without, with_mp, without]
    return [with_mp, without, with_mp]


def m_eor_run(draw, msgs: list) -> list:
    n = draw(st.integers(2, 4))
    same = draw(st.booleans())
    i = draw(sess_idx)
    return [[i if same else draw(sess_idx), UPDATE, draw(st.sampled_from(EOR_POOL)).hex()] for _ in range(n)]


def m_taw_then_valid(draw, msgs: list) -> list:
    i = draw(sess_idx)
    j = draw(st.sampled_from([i, i, draw(sess_idx)]))
    tlvs = draw(block_for(i))
    bad = make_malformed(draw, tlvs)
    nlri = draw(nlri_for(i))
    good_i = update_msg(i, tlvs, nlri)
    bad_i = update_msg(i, bad, nlri)
    good_j = update_msg(j, tlvs, nlri if j == i else draw(nlri_for(j)))
    if draw(st.booleans()):
        return [bad_i, good_j]
    return [good_i, bad_i, good_j]


def m_as4_cross(draw, msgs: list) -> list:
    """what a NEW speaker behind an OLD one sends: AS_PATH (2-byte, AS_TRANS) + AS4_PATH, then the same bytes on a 4-byte session"""
    two = next(n for n, s in enumerate(SESS) if not s['asn4'])
    four = draw(st.sampled_from([n for n, s in enumerate(SESS) if s['asn4']]))
    if draw(st.booleans()):
        tlvs = draw(dual_block(with_as4=True))
    else:
        path = [[2, [draw(small_asn), 23456, 23456][: draw(st.integers(2, 3))]]]
        as4 = [[2, draw(st.lists(st.sampled_from([65536, 70000, 4200000000, 3]), min_size=1, max_size=2))]]
        tlvs = [
            build.attribute(0x40, 1, b'\x00'),
            build.attribute(0x40, 2, build.aspath([(t, x) for t, x in path], False)),
            build.attribute(0x40, 3, build.ip(draw(small_v4))),
            build.attribute(0xC0, 17, build.aspath([(t, x) for t, x in as4], True)),
        ]
    first = update_msg(two, tlvs, draw(nlri_for(two)))
    second = [four, UPDATE, first[2]] if draw(st.booleans()) else update_msg(four, tlvs, draw(nlri_for(four)))
    order = draw(st.sampled_from(['2-4', '4-2', '2-4-2', '2-2-4']))
    return {'2-4': [first, second], '4-2': [second, first], '2-4-2': [first, second, first], '2-2-4': [first, first, second]}[order]


@st.composite
def new_open_body(draw) -> bytes:
    caps = draw(st.lists(st.sampled_from(CAP_CATALOGUE), min_size=1, max_size=6))
    return build.open_with_caps(draw(st.sampled_from([65001, 65002, 23456])), draw(st.sampled_from([90, 180, 0])), 0x0A000002, caps, grouping=draw(st.sampled_from(['each', 'one'])))


def m_opens(draw, msgs: list) -> list:
    out = []
    for _ in range(draw(st.integers(2, 3))):
        body = draw(st.sampled_from(CATALOGUE['open'])) if draw(st.integers(0, 5)) != 0 else draw(new_open_body())
        out.append([draw(sess_idx), OPEN, body.hex()])
    if draw(st.integers(0, 2)) == 0:
        out.append([draw(sess_idx), OPEN, out[0][2]])
    return out


def m_notifications(draw, msgs: list) -> list:
    return [[draw(sess_idx), NOTIFICATION, draw(st.sampled_from(NOTIFICATION_POOL)).hex()] for _ in range(draw(st.integers(1, 2)))]


def m_misc(draw, msgs: list) -> list:
    t, b = draw(st.sampled_from(MISC_POOL))
    return [[draw(sess_idx), t, b.hex()]]


def m_plain(draw, msgs: list) -> list:
    i = draw(sess_idx)
    return [[i, UPDATE, draw(base_update(i))[0].hex()]]


def m_repeat_far(draw, msgs: list) -> list:
    if len(msgs) < 2:
        return m_plain(draw, msgs)
    k = draw(st.integers(0, len(msgs) - 2))
    i, t, b = msgs[k]
    return [[draw(st.sampled_from([i, i, draw(sess_idx)])), t, b]]


def m_dual_nlri(draw, msgs: list) -> list:
    tlvs = draw(dual_block())
    section = dual_nlri_bytes(draw(st.integers(1, 2)), draw(st.integers(0, 3)) == 0)
    as_withdraw = draw(st.integers(0, 3)) == 0
    with_ap = next(n for n, s in enumerate(SESS) if ws.has_ap(s, 1, 1))
    without = draw(st.sampled_from([n for n, s in enumerate(SESS) if not ws.has_ap(s, 1, 1)]))
    body = build.update_body(section, b'', b'') if as_withdraw else build.update_body(b'', b''.join(tlvs), section)
    pair = [[with_ap, UPDATE, body.hex()], [without, UPDATE, body.hex()]]
    return pair if draw(st.booleans()) else pair[::-1]


# ---------------------------------------------------------------------------- catalogue
#
# A fork costs tens of milliseconds, and every distinct (session, message) needs one for its reference decode.  Most
# ingredients therefore come from a fixed catalogue - the first examples Hypothesis gives for each ingredient strategy,
# derandomized, so every process builds the same one - and the reference decodes are shared between cases; one draw in
# six is new.  What varies freely from case to case is the sequence: who sends what after what.

CATALOGUE: dict[str, list] = {}


def _first_examples(strategy, wanted: int, label: str) -> list:
    from hypothesis import HealthCheck, Phase, given, settings

    seen: dict = {}

    def collect(value) -> None:
        seen.setdefault(repr(value), value)

    collect.__name__ = collect.__qualname__ = f'c19_catalogue_{label}'  # derandomize derives its seed from the test
    test = settings(max_examples=wanted * 3, database=None, deadline=None, derandomize=True, suppress_health_check=list(HealthCheck), phases=[Phase.generate])(given(strategy)(collect))
    test()
    return list(seen.values())[:wanted]


def build_catalogue() -> None:
    if CATALOGUE:
        return
    CATALOGUE['dual'] = _first_examples(new_dual_block(), 40, 'dual')
    CATALOGUE['dual-as4'] = _first_examples(new_dual_block(True), 12, 'dual_as4')
    for i in range(NS):
        CATALOGUE[f'update-{i}'] = _first_examples(new_base_update(i), 16, f'update_{i}')
    CATALOGUE['open'] = _first_examples(new_open_body(), 24, 'open')


def m_withdraw_toggle(draw, msgs: list) -> list:
    """the same attribute block on the same session, once in an UPDATE that also withdraws and once in one that does not
    (renderings that depend on the presence of withdrawn routes must not be shared through the attribute set)"""
    i = draw(sess_idx)
    tlvs = draw(block_for(i))
    nlri = draw(nlri_for(i))
    withdrawn = draw(nlri_for(i))
    a = update_msg(i, tlvs, nlri, withdrawn)
    b = update_msg(i, tlvs, nlri)
    out = [a, b] if draw(st.booleans()) else [b, a]
    if draw(st.integers(0, 2)) == 0:
        out.append(list(out[0]))
    return out


FLOW_RULES = ['03038106', '030b812e', '0603810607812e', '0803810605810050', '07018000058100500b8100']


def m_flow_family_twins(draw, msgs: list) -> list:
    """the same FlowSpec NLRI bytes announced for IPv4 and for IPv6 on one session (component types 3 and 11 are protocol / dscp
    for one family and next-header / traffic-class for the other): what one family left behind must not name the other's components"""
    if not FLOW_SESSIONS:
        return []
    i = draw(st.sampled_from(FLOW_SESSIONS))
    rule = bytes.fromhex(draw(st.sampled_from(FLOW_RULES)))
    attrs = build.attribute(0x40, 1, b'\x00') + build.attribute(0x40, 2, b'') + build.attribute(0x40, 5, b'\x00\x00\x00\x64')

    def flow(afi: int) -> list:
        mp = build.attribute(0x80, 14, bytes([0, afi, 133, 0, 0]) + rule)
        return [i, UPDATE, build.update_body(b'', attrs + mp, b'').hex()]

    first = draw(st.sampled_from([1, 2]))
    out = [flow(first), flow(3 - first)]
    if draw(st.booleans()):
        out.append(flow(first))
    return out


LABELLED_SESSIONS = [(i, f) for i, s in enumerate(SESSIONS) for f in ([1, 4], [1, 128]) if f in s['families'] and f not in s['addpath']]


def m_same_route_another_label(draw, msgs: list) -> list:
    """one labelled (or VPN) route announced, then announced again with another label - the label is not part of the route's identity
    (RFC 8277), so anything keyed by the route meets the first announcement again: the second must still be reported with its own label"""
    if not LABELLED_SESSIONS:
        return []
    i, fam = draw(st.sampled_from(LABELLED_SESSIONS))
    prefix = bytes([10, draw(st.integers(1, 3)), draw(st.integers(0, 3))])
    rd = struct.pack('!HHL', 0, 65000, draw(st.integers(1, 2))) if fam[1] == 128 else b''
    attrs = build.attribute(0x40, 1, b'\x00') + build.attribute(0x40, 2, build.aspath([(2, [SESSIONS[i]['peer_as']])], SESSIONS[i]['asn4'])) + build.attribute(0x40, 5, b'\x00\x00\x00\x64')
    hop = (bytes(8) if fam[1] == 128 else b'') + bytes([10, 0, 0, 9])

    def announce(label: int) -> list:
        nlri = bytes([24 + 8 * len(rd) + 24]) + ((label << 4) | 1).to_bytes(3, 'big') + rd + prefix
        mp = build.attribute(0x80, 14, bytes([0, 1, fam[1], len(hop)]) + hop + b'\x00' + nlri)
        return [i, UPDATE, build.update_body(b'', attrs + mp, b'').hex()]

    def withdraw() -> list:
        nlri = bytes([24 + 8 * len(rd) + 24]) + b'\x80\x00\x00' + rd + prefix
        return [i, UPDATE, build.update_body(b'', build.attribute(0x80, 15, bytes([0, 1, fam[1]]) + nlri), b'').hex()]

    first, second = draw(st.sampled_from([(100, 200), (16, 1048575), (300, 301)]))
    out = [announce(first)]
    if draw(st.integers(0, 3)) == 0:
        out.append(withdraw())
    out.append(announce(second))
    if draw(st.booleans()):
        out.append(announce(first))
    return out


MOTIFS = {
    'same-route-another-label': (m_same_route_another_label, 2),
    'flow-family-twins': (m_flow_family_twins, 2),
    'withdraw-toggle': (m_withdraw_toggle, 3),
    'cross-identical': (m_cross_identical, 5),
    'near-identical': (m_near_identical, 3),
    'mp-toggle': (m_mp_toggle, 3),
    'eor-run': (m_eor_run, 2),
    'taw-then-valid': (m_taw_then_valid, 3),
    'as4-cross': (m_as4_cross, 3),
    'opens': (m_opens, 2),
    'notifications': (m_notifications, 1),
    'misc': (m_misc, 1),
    'plain': (m_plain, 3),
    'repeat-far': (m_repeat_far, 4),
    'dual-nlri': (m_dual_nlri, 2),
}
_WEIGHTED = [name for name, (_, w) in MOTIFS.items() for _ in range(w)]


def sequences():
    build_catalogue()
    return _sequences()


@st.composite
def _sequences(draw) -> dict:
    target = draw(st.sampled_from([2, 2, 3, 3, 4, 4, 5, 6, 8, 10, 14, 20, 30]))
    msgs: list = []
    motifs: list[str] = []
    while len(msgs) < target:
        name = draw(st.sampled_from(_WEIGHTED))
        msgs.extend(MOTIFS[name][0](draw, msgs))
        motifs.append(name)
    return {'messages': msgs[:30], 'motifs': motifs}
