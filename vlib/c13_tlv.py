"""c13_tlv - TLV-tree view of the nested attribute values, and edits which keep every enclosing length right

The attributes which carry trees (Prefix-SID 40, Tunnel Encapsulation 23, BGP-LS 29) and the TLV-shaped NLRIs (BGP-LS,
EVPN, MVPN) are parsed with a small layout description into nodes, edited (duplicate / delete / retype / new value /
swap / graft), and written back with the lengths re-computed.  The result is well-formed at every level the layout
knows and arbitrary below: the "nested, partially valid structure" the encoders have to survive.
Nothing here imports exabgp.
"""

from __future__ import annotations

import struct

from hypothesis import strategies as st

from vlib import c13_hostile as hostile


class Layout:
    def __init__(self, tsize: int, lsize, children: dict | None = None, name: str = '') -> None:
        self.tsize = tsize
        self.lsize = lsize if callable(lsize) else (lambda t, n=lsize: n)
        self.children = children or {}  # type (or '*') -> (octets to skip before the nested TLVs, Layout)
        self.name = name

    def child(self, t: int):
        return self.children.get(t) or self.children.get('*')


class Node:
    __slots__ = ('type', 'value', 'prefix', 'kids', 'layout')

    def __init__(self, type_: int, value: bytes, layout: Layout, prefix: bytes = b'', kids: list | None = None) -> None:
        self.type = type_
        self.value = value  # leaf payload (ignored when kids is not None)
        self.prefix = prefix
        self.kids = kids
        self.layout = layout  # the layout this node was read with (its own header sizes)

    def copy(self) -> 'Node':
        return Node(self.type, self.value, self.layout, self.prefix, None if self.kids is None else [k.copy() for k in self.kids])


def parse(data: bytes, layout: Layout) -> list | None:
    """the TLVs of `data`, or None when they do not tile it exactly"""
    out = []
    i = 0
    while i < len(data):
        if i + layout.tsize > len(data):
            return None
        t = int.from_bytes(data[i : i + layout.tsize], 'big')
        i += layout.tsize
        ls = layout.lsize(t)
        if i + ls > len(data):
            return None
        length = int.from_bytes(data[i : i + ls], 'big')
        i += ls
        if i + length > len(data):
            return None
        value = data[i : i + length]
        i += length
        node = Node(t, value, layout)
        nested = layout.child(t)
        if nested is not None:
            skip, sub = nested
            if len(value) >= skip:
                kids = parse(value[skip:], sub)
                if kids is not None:
                    node.prefix, node.kids = value[:skip], kids
        out.append(node)
    return out


def serialise(nodes: list) -> bytes | None:
    out = b''
    for n in nodes:
        if n.kids is not None:
            inner = serialise(n.kids)
            if inner is None:
                return None
            value = n.prefix + inner
        else:
            value = n.value
        ls = n.layout.lsize(n.type)
        if len(value) >= 1 << (8 * ls) or n.type >= 1 << (8 * n.layout.tsize):
            return None
        out += n.type.to_bytes(n.layout.tsize, 'big') + len(value).to_bytes(ls, 'big') + value
    return out


# ---------------------------------------------------------------------------- the layouts

SRV6_SUBSUB = Layout(1, 2, name='srv6-sub-sub-tlv')
SRV6_SUB = Layout(1, 2, {1: (21, SRV6_SUBSUB)}, 'srv6-sub-tlv')
PREFIX_SID = Layout(1, 2, {5: (1, SRV6_SUB), 6: (1, SRV6_SUB)}, 'prefix-sid-tlv')

SEGMENT = Layout(1, 1, name='segment-sub-sub-tlv')
TUNNEL_SUB = Layout(1, lambda t: 1 if t < 128 else 2, {128: (1, SEGMENT)}, 'tunnel-sub-tlv')
TUNNEL = Layout(2, 2, {'*': (0, TUNNEL_SUB)}, 'tunnel-tlv')

LS_SUBSUB = Layout(2, 2, name='bgpls-sub-sub-tlv')
LS_SUB = Layout(2, 2, {'*': (0, LS_SUBSUB)}, 'bgpls-sub-tlv')
# SRv6 End.X (1106: 22 fixed octets), LAN End.X (1107: 28, 1108: 26), SRv6 locator (1162: 8) hold sub-TLVs behind a fixed part
BGPLS_ATTR = Layout(2, 2, {1106: (22, LS_SUB), 1107: (28, LS_SUB), 1108: (26, LS_SUB), 1162: (8, LS_SUB)}, 'bgpls-tlv')
LS_DESCRIPTOR = Layout(2, 2, {256: (0, LS_SUBSUB), 257: (0, LS_SUBSUB)}, 'bgpls-descriptor')
BGPLS_NLRI = Layout(2, 2, {'*': (9, LS_DESCRIPTOR)}, 'bgpls-nlri')
ROUTE_1_1 = Layout(1, 1, name='route-type')  # EVPN and MVPN: route type, length, value

ATTRIBUTE_LAYOUT = {40: PREFIX_SID, 23: TUNNEL, 29: BGPLS_ATTR}
NLRI_LAYOUT = {(16388, 71): BGPLS_NLRI, (16388, 72): BGPLS_NLRI, (25, 70): ROUTE_1_1, (1, 5): ROUTE_1_1, (2, 5): ROUTE_1_1}

# types worth trying at each level: the registered ones and a few nobody registered
INTERESTING_TYPES = {
    'prefix-sid-tlv': [1, 3, 5, 6, 2, 4, 7, 200],
    'srv6-sub-tlv': [1, 2, 3, 200],
    'srv6-sub-sub-tlv': [1, 2, 3, 200],
    'tunnel-tlv': [15, 0, 1, 8, 13, 16, 65535],
    'tunnel-sub-tlv': [12, 13, 15, 20, 128, 129, 130, 1, 4, 6, 127, 131, 255],
    'segment-sub-sub-tlv': [1, 13, 3, 4, 5, 6, 7, 8, 9, 10, 14, 15, 16, 2, 99],
    'bgpls-tlv': [258, 263, 1024, 1025, 1026, 1027, 1028, 1029, 1030, 1031, 1034, 1035, 1038, 1088, 1089, 1090, 1091, 1092, 1093, 1094, 1095, 1096, 1097, 1098, 1099, 1100, 1106, 1107, 1108, 1114, 1115, 1116, 1117, 1118, 1119, 1120, 1152, 1153, 1154, 1155, 1156, 1157, 1158, 1162, 1170, 1171, 1250, 1252, 9999],
    'bgpls-sub-tlv': [1250, 1252, 1099, 9999],
    'bgpls-sub-sub-tlv': [512, 513, 514, 515, 516, 1252, 9999],
    'bgpls-descriptor': [256, 257, 258, 259, 260, 261, 262, 263, 264, 265, 518, 9999],
    'bgpls-nlri': [1, 2, 3, 4, 6, 99],
    'route-type': [1, 2, 3, 4, 5, 6, 7, 8, 99],
}


def walk(nodes: list, out: list, parent: list | None = None) -> None:
    """(siblings list, index) of every node"""
    for i, n in enumerate(nodes):
        out.append((nodes, i))
        if n.kids is not None:
            walk(n.kids, out)


@st.composite
def edit(draw, nodes: list, ops: list, tag: str) -> None:
    """one edit, in place"""
    places: list = []
    walk(nodes, places)
    if not places:
        return
    # deeper nodes are fewer: pick the level first so that they are reached
    siblings, i = draw(st.sampled_from(places))
    node = siblings[i]
    op = draw(st.sampled_from(['dup', 'dup', 'dup-changed', 'delete', 'retype', 'retype', 'value', 'value', 'hostile', 'swap', 'graft', 'empty', 'leaf']))
    name = node.layout.name
    if op == 'dup':
        siblings.insert(i + 1, node.copy())
    elif op == 'dup-changed':
        twin = node.copy()
        if twin.kids is None and twin.value:
            v = bytearray(twin.value)
            v[draw(st.integers(0, len(v) - 1))] ^= 1 << draw(st.integers(0, 7))
            twin.value = bytes(v)
        siblings.insert(draw(st.integers(0, len(siblings))), twin)
    elif op == 'delete':
        del siblings[i]
    elif op == 'retype':
        node.type = draw(st.sampled_from(INTERESTING_TYPES.get(name, [0, 1, 255])))
    elif op == 'value':
        if node.kids is None:
            v = bytearray(node.value)
            how = draw(st.sampled_from(['set', 'set', 'flip', 'trim', 'grow', 'zero', 'ones']))
            if how in ('set', 'flip') and v:
                p = draw(st.integers(0, len(v) - 1))
                v[p] = draw(st.integers(0, 255)) if how == 'set' else v[p] ^ (1 << draw(st.integers(0, 7)))
            elif how == 'trim' and v:
                del v[draw(st.integers(0, len(v) - 1)) :]
            elif how == 'grow':
                v += draw(st.binary(min_size=1, max_size=8))
            elif how == 'zero':
                v = bytearray(len(v))
            elif how == 'ones':
                v = bytearray(b'\xff' * len(v))
            node.value = bytes(v)
            op = f'value-{how}'
        else:
            p = bytearray(node.prefix)
            if p:
                p[draw(st.integers(0, len(p) - 1))] = draw(st.integers(0, 255))
                node.prefix = bytes(p)
    elif op == 'hostile':
        # a peer-chosen string where the value was (behind the leading flag / reserved octet some TLVs have)
        keep = draw(st.sampled_from([0, 0, 1]))
        base = node.value if node.kids is None else node.prefix
        node.kids = None
        node.value = base[:keep] + draw(hostile.hostile(200))
    elif op == 'swap' and len(siblings) > 1:
        j = draw(st.integers(0, len(siblings) - 1))
        siblings[i], siblings[j] = siblings[j], siblings[i]
    elif op == 'graft':
        # a node of the same layout from elsewhere in the tree, put beside this one
        same = [s[k] for s, k in places if s[k].layout is node.layout]
        siblings.insert(i, draw(st.sampled_from(same)).copy())
    elif op == 'empty':
        node.kids = None
        node.value = b''
    elif op == 'leaf' and node.kids is not None:
        # stop understanding this node: its nested TLVs become an opaque value which is then damaged
        inner = serialise(node.kids) or b''
        node.value = node.prefix + inner[: draw(st.integers(0, len(inner)))]
        node.kids = None
    ops.append(f'{tag}:{name}:{op}')


@st.composite
def mutate_tree(draw, value: bytes, layout: Layout, ops: list, tag: str) -> bytes | None:
    nodes = parse(value, layout)
    if nodes is None:
        return None
    for _ in range(draw(st.sampled_from([1, 1, 2, 3]))):
        draw(edit(nodes, ops, tag))
    return serialise(nodes)


def split_mp(value: bytes, reach: bool) -> tuple[tuple, bytes, bytes] | None:
    """((afi, safi), everything before the NLRI field, the NLRI field) of an MP_REACH / MP_UNREACH value"""
    try:
        afi, safi = struct.unpack('!HB', value[:3])
        if not reach:
            return (afi, safi), value[:3], value[3:]
        nhl = value[3]
        head = 4 + nhl + 1
        if head > len(value):
            return None
        return (afi, safi), value[:head], value[head:]
    except (struct.error, IndexError):
        return None
