"""c03_registry.py - enumerated probes: every type code of every registry the decoders dispatch on, with short values of every length.

The qa vectors only hold the route types and sub-TLVs somebody wrote a test for; this reaches the others (EVPN 1-5 and unknown, MVPN, MUP,
BGP-LS NLRI and attribute TLVs, prefix-SID, tunnel encapsulation, PMSI, AIGP, extended community types, capabilities, operational types)
without knowing their layout: type, a length, a filler.  Imports nothing from exabgp.

cases(negs, dense) -> [{'type','neg','hex','mode'}]     negs: name -> index of the negotiated parameter sets
"""

from __future__ import annotations

import struct

from vlib.refwire import build

MANDATORY = build.attribute(0x40, 1, b'\x00') + build.attribute(0x40, 2, b'') + build.attribute(0x40, 5, struct.pack('!L', 100))
NH4 = build.attribute(0x40, 3, bytes([10, 0, 0, 1]))


def fillers(n: int, dense: bool) -> list[bytes]:
    out = [bytes(n)]
    if n:
        out.append(bytes((i * 37 + 1) & 255 for i in range(n)))
        out.append(b'\xff' * n)  # every flag bit set: the optional tails that a flag announces are asked for
        if dense:
            out.append(bytes([8] * n))  # plausible as a nested length everywhere
    return out


def update_with(attr: bytes, nlri: bool = True) -> bytes:
    return build.update_body(b'', MANDATORY + (NH4 if nlri else b'') + attr, bytes([24, 192, 0, 2]) if nlri else b'')


def mp_reach(afi: int, safi: int, nh: bytes, routes: bytes) -> bytes:
    return build.update_body(b'', MANDATORY + build.attribute(0x80, 14, struct.pack('!HBB', afi, safi, len(nh)) + nh + b'\x00' + routes), b'')


def mp_unreach(afi: int, safi: int, routes: bytes) -> bytes:
    return build.update_body(b'', build.attribute(0x80, 15, struct.pack('!HB', afi, safi) + routes), b'')


def cases(negs: dict, dense: bool) -> list[dict]:
    out: list[dict] = []

    def add(msg_type: int, neg: str, body: bytes, mode: str) -> None:
        out.append({'type': msg_type, 'neg': negs[neg], 'hex': body.hex(), 'mode': 'registry-' + mode})

    lens_small = list(range(0, 14)) + [16, 17, 20, 21, 24, 32, 33] if dense else [0, 1, 2, 3, 4, 5, 6, 7, 8, 9, 12, 13, 16, 17, 20, 24, 32]
    correct = {1: 0x40, 2: 0x40, 3: 0x40, 4: 0x80, 5: 0x40, 6: 0x40, 7: 0xC0, 8: 0xC0, 9: 0x80, 10: 0x80, 14: 0x80, 15: 0x80, 16: 0xC0, 17: 0xC0, 18: 0xC0, 22: 0xC0, 23: 0xC0, 25: 0xC0, 26: 0x80,
               29: 0x80, 32: 0xC0, 40: 0xC0}  # fmt: skip

    # (a) every attribute code with its own flags and with the other optional/transitive combinations
    for code in list(range(0, 46)) + [128, 255]:
        for flags in sorted({correct.get(code, 0xC0), 0x80, 0xC0, 0x40} if dense else {correct.get(code, 0xC0), 0xC0}):
            for n in lens_small:
                for fill in fillers(n, dense):
                    body = build.update_body(b'', build.attribute(0x40, 1, b'\x00') + build.attribute(flags, code, fill), b'') if code in (1,) else update_with(build.attribute(flags, code, fill))
                    add(2, 'unicast-asn4' if n % 2 else 'all-asn2', body, 'attribute')

    # (b) BGP-LS attribute TLVs (RFC 7752, 8571, 9085, 9086, 9514 code points)
    ls_types = list(range(256, 270)) + list(range(1024, 1045)) + list(range(1085, 1125)) + list(range(1150, 1175)) + [1250, 1251, 1252, 1253, 1200, 1201, 0, 65535]
    for t in ls_types:
        for n in lens_small if dense else (0, 1, 2, 3, 4, 5, 7, 8, 9, 12, 16, 17, 32):
            for fill in fillers(n, False):
                add(2, 'bgp-ls', update_with(build.attribute(0x80, 29, struct.pack('!HH', t, n) + fill)), 'bgpls-attr-tlv')
    # two TLVs, the second one cut short
    for t in (1028, 1099, 1158, 1170):
        for n in (1, 2, 3, 5):
            add(2, 'bgp-ls', update_with(build.attribute(0x80, 29, struct.pack('!HH', 1026, 2) + b'ab' + struct.pack('!HH', t, 40) + bytes(n))), 'bgpls-attr-tlv')

    # (c) prefix-SID TLVs, SRv6 service sub-TLVs and sub-sub-TLVs
    for t in range(0, 9):
        for n in range(0, 31 if dense else 26):
            for fill in fillers(n, dense):
                add(2, 'labeled-vpn', update_with(build.attribute(0xC0, 40, struct.pack('!BH', t, n) + fill)), 'prefix-sid-tlv')
    for t in (5, 6):
        for st in range(0, 4):
            for n in range(0, 34):
                sub = struct.pack('!BH', st, n) + bytes((i * 5 + 1) & 255 for i in range(n))
                add(2, 'mup-mvpn-srpolicy', update_with(build.attribute(0xC0, 40, struct.pack('!BH', t, 1 + len(sub)) + b'\x00' + sub)), 'srv6-sub-tlv')
            for sst in range(0, 4):
                for n in range(0, 12):
                    subsub = struct.pack('!BH', sst, n) + bytes(n)
                    sub = struct.pack('!BH', 1, 21 + len(subsub)) + bytes(21) + subsub
                    add(2, 'mup-mvpn-srpolicy', update_with(build.attribute(0xC0, 40, struct.pack('!BH', t, 1 + len(sub)) + b'\x00' + sub)), 'srv6-subsub-tlv')

    # (d) tunnel encapsulation: tunnel types, sub-TLV types (one- and two-byte lengths), SR policy segment list members
    for tt in list(range(0, 21)) + [65535]:
        for n in (0, 1, 2, 3, 4, 8):
            add(2, 'mup-mvpn-srpolicy', update_with(build.attribute(0xC0, 23, struct.pack('!HH', tt, n) + bytes(n))), 'tunnel-tlv')
    for st in list(range(0, 24)) + [127, 128, 129, 130, 255]:
        for n in range(0, 26 if dense else 22):
            for fill in fillers(n, dense):
                sub = bytes([st]) + (struct.pack('!H', n) if st >= 128 else bytes([n])) + fill
                add(2, 'mup-mvpn-srpolicy', update_with(build.attribute(0xC0, 23, struct.pack('!HH', 15, len(sub)) + sub)), 'tunnel-sub-tlv')
    for seg in range(0, 20):
        for n in range(0, 44 if dense else 40):
            member = bytes([seg, n]) + bytes((i * 3 + 1) & 255 for i in range(n))
            sub = bytes([128]) + struct.pack('!H', 1 + len(member)) + b'\x00' + member
            add(2, 'mup-mvpn-srpolicy', update_with(build.attribute(0xC0, 23, struct.pack('!HH', 15, len(sub)) + sub)), 'segment')

    # (e) PMSI tunnel types and AIGP TLVs
    for tt in range(0, 14):
        for n in range(0, 22):
            add(2, 'mup-mvpn-srpolicy', update_with(build.attribute(0xC0, 22, bytes([0, tt]) + b'\x00\x01\x01' + bytes((i + 1) & 255 for i in range(n)))), 'pmsi')
    # alone, and behind a well-formed TLV (unknown type 2, or a complete AIGP TLV): a length check that is only right at offset 0 shows there
    for lead in (b'', struct.pack('!BH', 2, 8) + bytes([0xAA, 0xBB, 0xCC, 0xDD, 0xEE]), struct.pack('!BH', 1, 11) + bytes(8)):
        for t in range(0, 4):
            for declared in range(0, 16):
                for have in (0, 3, 8, 11):
                    add(2, 'unicast-asn4', update_with(build.attribute(0x80, 26, lead + struct.pack('!BH', t, declared) + bytes(have))), 'aigp')

    # (e2) TLV lists: the SECOND element cut short or over-declared behind a well-formed first one (a bound that is only
    # right for the first element of a list passes every single-element probe above)
    pairs = [(d, h) for d in (0, 1, 3, 4, 7, 8, 11, 12, 21, 40) for h in (0, 1, 3, 5, 8, 11) if h != d]
    for d, h in pairs:
        for t in (1, 3, 5, 6, 9):
            add(2, 'labeled-vpn', update_with(build.attribute(0xC0, 40, struct.pack('!BH', 1, 7) + bytes(7) + struct.pack('!BH', t, d) + bytes(h))), 'prefix-sid-tlv-second')
        for tt in (15, 13, 65534):
            add(2, 'mup-mvpn-srpolicy', update_with(build.attribute(0xC0, 23, struct.pack('!HH', 65535, 2) + b'ab' + struct.pack('!HH', tt, d) + bytes(h))), 'tunnel-tlv-second')
        for st in (12, 13, 15, 20, 127, 128, 129):
            second = bytes([st]) + (struct.pack('!H', d) if st >= 128 else bytes([d])) + bytes(h)
            sub = bytes([127, 1, 0]) + second
            add(2, 'mup-mvpn-srpolicy', update_with(build.attribute(0xC0, 23, struct.pack('!HH', 15, len(sub)) + sub)), 'tunnel-sub-tlv-second')
        for st in (1, 2, 3):
            sub = struct.pack('!BH', 7, 2) + b'ab' + struct.pack('!BH', st, d) + bytes(h)
            add(2, 'mup-mvpn-srpolicy', update_with(build.attribute(0xC0, 40, struct.pack('!BH', 5, 1 + len(sub)) + b'\x00' + sub)), 'srv6-sub-tlv-second')

    # (f) extended community types: every (type, subtype) the registry could dispatch on
    for high in list(range(0, 16)) + list(range(0x40, 0x50)) + list(range(0x80, 0x90)):
        for low in range(0, 0x20 if dense else 0x16):
            for fill in (bytes(6), bytes([255, 255, 255, 255, 255, 255]), bytes([0x7F, 0x80, 0, 0, 0x7F, 0xC0])) if dense else (bytes([0x7F, 0x80, 0, 0, 0x7F, 0xC0]), bytes([255] * 6)):
                add(2, 'flow', update_with(build.attribute(0xC0, 16, bytes([high, low]) + fill)), 'ext-community')
    for low in range(0, 0x16):
        add(2, 'flow', update_with(build.attribute(0xC0, 25, bytes([0, low]) + bytes(18))), 'ipv6-ext-community')

    # (g) routes of the families with their own route types, announced and withdrawn
    nh4 = bytes([10, 0, 0, 1])
    nh6 = bytes.fromhex('20010db8000000000000000000000001')
    for rt in range(0, 9):  # EVPN: type, length
        for n in range(0, 60 if dense else 50):
            for fill in fillers(n, False):
                route = bytes([rt, n]) + fill
                add(2, 'l2vpn', mp_reach(25, 70, nh4, route), 'evpn-route')
                if n % 3 == 0:
                    add(2, 'l2vpn', mp_unreach(25, 70, route), 'evpn-route')
    for rt in range(0, 9):  # MVPN: type, length
        for n in range(0, 48):
            for fill in fillers(n, False) + [bytes([0] * 8 + [32] * max(0, n - 8))[:n], bytes([0] * 8 + [128] * max(0, n - 8))[:n]]:
                add(2, 'mup-mvpn-srpolicy', mp_reach(1, 5, nh4, bytes([rt, n]) + fill), 'mvpn-route')
                if n % 4 == 0:
                    add(2, 'mup-mvpn-srpolicy', mp_reach(2, 5, nh6, bytes([rt, n]) + fill), 'mvpn-route')
    for arch in (0, 1, 2):  # MUP: architecture, route type (2 bytes), length
        for rt in range(0, 6):
            for n in range(0, 50 if arch == 1 else 6):
                for fill in fillers(n, False) + [bytes([0] * 8 + [32] * max(0, n - 8))[:n]]:
                    add(2, 'mup-mvpn-srpolicy', mp_reach(1, 85, nh4, bytes([arch]) + struct.pack('!HB', rt, n) + fill), 'mup-route')
                    if n % 4 == 0:
                        add(2, 'mup-mvpn-srpolicy', mp_reach(2, 85, nh6, bytes([arch]) + struct.pack('!HB', rt, n) + fill), 'mup-route')
    for nt in range(0, 8):  # BGP-LS NLRI: type (2), length (2), protocol, identifier, descriptor TLVs
        for n in range(0, 30):
            add(2, 'bgp-ls', mp_reach(16388, 71, nh4, struct.pack('!HH', nt, n) + bytes((i + 1) & 255 for i in range(n))), 'bgpls-nlri')
        for dt in list(range(256, 268)) + list(range(512, 520)) + [0, 1161]:
            for n in (0, 1, 3, 4, 5, 8, 9, 17) if dense else (0, 1, 4, 5, 9):
                tlv = struct.pack('!HH', dt, n) + bytes(n)
                inner = b'\x02' + bytes(8) + tlv
                add(2, 'bgp-ls', mp_reach(16388, 71, nh4, struct.pack('!HH', nt, len(inner)) + inner), 'bgpls-descriptor')
                nested = struct.pack('!HH', 256, len(tlv)) + tlv
                inner = b'\x02' + bytes(8) + nested
                add(2, 'bgp-ls', mp_reach(16388, 71, nh4, struct.pack('!HH', nt, len(inner)) + inner), 'bgpls-descriptor')
    # BGP-LS prefix NLRI (types 3 and 4): a well-formed local node descriptor in front of the prefix descriptors, whose IP
    # reachability TLV (265) holds a prefix length and 0 .. more octets than an address has
    node = struct.pack('!HH', 256, 8) + struct.pack('!HH', 512, 4) + bytes([0, 0, 253, 232])
    for nt in (3, 4):
        for dt in (263, 264, 265):
            for n in (0, 1, 2, 3, 5, 6, 9, 16, 17, 18, 19, 33, 40):
                for first in (0, 24, 128, 255):
                    value = (bytes([first]) + bytes((i + 1) & 255 for i in range(n - 1))) if n else b''
                    inner = b'\x02' + bytes(8) + node + struct.pack('!HH', dt, n) + value
                    add(2, 'bgp-ls', mp_reach(16388, 71, nh4, struct.pack('!HH', nt, len(inner)) + inner), 'bgpls-prefix-descriptor')
    for n in range(0, 26):  # VPLS: length (2)
        add(2, 'l2vpn', mp_reach(25, 65, nh4, struct.pack('!H', n) + bytes((i + 1) & 255 for i in range(n))), 'vpls')
    for bits in list(range(0, 200, 8 if not dense else 4)) + [255]:  # SR policy: a bit length, then distinguisher, colour, endpoint
        size = (bits + 7) // 8
        add(2, 'mup-mvpn-srpolicy', mp_reach(1, 73, nh4, bytes([bits]) + bytes(size)), 'sr-policy')
        add(2, 'mup-mvpn-srpolicy', mp_reach(2, 73, nh6, bytes([bits]) + bytes(size)), 'sr-policy')
        add(2, 'mup-mvpn-srpolicy', mp_reach(1, 73, nh4, bytes([bits]) + bytes(max(0, size - 1))), 'sr-policy')
    for comp in range(0, 16):  # FlowSpec components: type then operator/value bytes
        for tail in (b'', b'\x00', b'\x81\x06', b'\x01\x06', b'\x91\x00\x50', b'\xb1\x00\x00\x00\x50', b'\x20\x0a\x00\x00\x01', b'\x80\x00\x20', b'\xff' * 5, b'\x00' * 9):
            rule = bytes([comp]) + tail
            add(2, 'flow', mp_reach(1, 133, b'', bytes([len(rule)]) + rule), 'flow-component')
            add(2, 'flow', mp_reach(2, 133, b'', bytes([len(rule)]) + rule), 'flow-component')
            add(2, 'flow', mp_reach(1, 134, b'', bytes([8 + len(rule)]) + bytes(8) + rule), 'flow-component')
            add(2, 'flow', mp_unreach(2, 134, bytes([8 + len(rule)]) + bytes(8) + rule), 'flow-component')
    for bits in range(0, 130, 1 if dense else 3):  # labeled and VPN prefixes of every bit length, with and without room for label and RD
        size = (bits + 7) // 8
        for afi, nh, vpn_nh in ((1, nh4, bytes(8) + nh4), (2, nh6, bytes(8) + nh6)):
            add(2, 'labeled-vpn', mp_reach(afi, 4, nh, bytes([bits]) + bytes([0, 1, 1] + [10] * max(0, size - 3))[:size]), 'labeled-prefix')
            add(2, 'labeled-vpn', mp_reach(afi, 128, vpn_nh, bytes([bits]) + bytes([0, 1, 1] + [0] * 8 + [10] * max(0, size - 11))[:size]), 'vpn-prefix')
            add(2, 'labeled-vpn', mp_unreach(afi, 128, bytes([bits]) + bytes([0x80, 0, 0] + [0] * 8 + [10] * max(0, size - 11))[:size]), 'vpn-prefix')

    # (h) capabilities: every code, every short length
    for code in range(0, 256):
        for n in (range(0, 14) if dense or code < 80 or code in (128, 130, 131, 185) else (0, 1, 4)):
            for fill in fillers(n, False):
                add(1, 'opensent', build.open_with_caps(65001, 90, 0x0A000002, [build.cap_mp(1, 1), build.capability(code, fill)]), 'capability')
    for ptype in range(0, 6):
        for n in (0, 1, 2, 5):
            add(1, 'opensent', build.open_body(4, 65001, 90, 0x0A000002, [(ptype, bytes(n))]), 'parameter')

    # (i) operational message types
    for t in list(range(0, 16)) + [0xFFFE, 0xFFFF]:
        for n in range(0, 24):
            add(6, 'unicast-asn4', struct.pack('!HH', t, n) + bytes((i + 1) & 255 for i in range(n)), 'operational')
    # (j) route refresh and notification of every shape
    for n in range(0, 8):
        add(5, 'unicast-asn4', bytes([0, 1, n % 4, 1][:n] + [0] * max(0, n - 4)), 'refresh')
    for sub in range(0, 4):
        add(5, 'unicast-asn4', bytes([0, 1, sub, 1]), 'refresh')
        add(5, 'unicast-asn4', bytes([0xFF, 0xFF, sub, 0xFF]), 'refresh')
    for code in range(0, 9):
        for sub in range(0, 13):
            for data in (b'', b'\x00', b'\x05abc', b'\xff\xfe', b'\x03abc'):
                add(3, 'unicast-asn4', bytes([code, sub]) + data, 'notification')
    return out
