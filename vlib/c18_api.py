"""c18_api - the definitions of vlib/c18_gen.py offered as API command lines to a real Reactor (property C18, engine api-lines).

A case is {'version': 6 | 4, 'items': [item]}; an item is one generated definition (a route / vpls / flow case of c18_gen, as it is)
plus how it is written on the pipe: the verb (announce, withdraw, or both one after the other), which neighbors the line names and
a trailing keyword the command handlers strip (json / text / sync / async).  run_lines() boots the real Reactor + the real Processes
with a pipe-backed helper (vlib/netharness.py, the way props/c14.py does), writes the lines one at a time and reports, per line,
what the helper reads back, the Adj-RIB-Out of both neighbors before and after, the routes the handler handed to
Configuration.announce_route / withdraw_route, and every exception exabgp logged with a traceback while the line was executed.
Nothing is judged here.
"""

from __future__ import annotations

from hypothesis import strategies as st

from vlib import c18_gen as gen
from vlib import textgen

FAMS = [(1, 1), (1, 2), (1, 4), (1, 128), (2, 1), (2, 4), (2, 128)]
LOCAL_IP = '127.0.0.1'
# two sessions of different kinds (iBGP / eBGP), every family the generators write
NEIGHBORS = [{'ip': '127.0.18.201', 'peer_as': 65000}, {'ip': '127.0.18.202', 'peer_as': 65001}]
SELECTS = ('all', 'a', 'b', 'list')
SUFFIXES = ('', '', '', '', '', 'json', 'text', 'async', 'sync', 'sync json')
REPLY_WAIT = 4.0  # virtual seconds a line may take to be answered (an idle reactor iteration sleeps 0.1 s)
SETTLE = 0.3


# ---------------------------------------------------------------------------- cases


def truncated(draw, kind: str, case: dict) -> dict:
    """the definition stops early (what the handlers split, index and unpack before the parser is asked, and what the parser
    makes of a clause without its end): whole clauses are cut off the end, the last one left may lose words too.
    No record says what such a text means: fits None (no exception; accepted => it encodes)"""
    case = dict(case)
    before = case['mutation'] if case['fits'] is False and (case['mutation'] or {}).get('kind') == 'dropped-clause' else None
    if kind == 'flow':
        cl = [list(c) + ['match'] for c in case['match']] + [list(c) + ['then'] for c in case['then']]
    else:
        cl = [list(c) for c in case['clauses']]
    keep = draw(st.integers(1, len(cl)))
    gone = [c[0] for c in cl[keep:]]
    cl = cl[:keep]
    words = cl[-1][1].split(' ')
    if len(words) > 1 and draw(st.booleans()):
        cl[-1][1] = ' '.join(words[: draw(st.integers(1, len(words) - 1))])
    field = 'nlri' if 'nlri' in gone else cl[-1][0]
    if kind == 'flow':
        case['match'] = [c[:2] for c in cl if c[2] == 'match']
        case['then'] = [c[:2] for c in cl if c[2] == 'then']
        case['entry'] = 'api-flat'  # the spelling without braces: a cut leaves no unbalanced block behind
    else:
        case['clauses'] = cl
    case.update({'fits': None, 'mutation': {'kind': 'truncated', 'field': field, 'what': 'truncated'}, 'record': None, 'near': True})
    # a clause the family cannot be announced without went with the end: the dropped-clause mutation of c18_gen (must be refused)
    if kind == 'vpls':
        needed = [k for k in gone if k in gen.VPLS_FIELDS + ['rd', 'next-hop']]
    elif kind == 'route' and field != 'nlri':
        needed = [k for k in gone if k == 'next-hop' or (k in ('rd', 'label') and case['form'] == 'family')]
    else:
        needed = []
    if field == 'nlri':
        pass  # attributes without prefixes: an UPDATE of attributes only, outside the grammar
    elif before:
        case.update({'fits': False, 'mutation': before})  # it already lacked one: it still does
    elif needed:
        case.update({'fits': False, 'mutation': {'kind': 'dropped-clause', 'field': needed[0], 'what': 'dropped-clause'}})
    if 'huge' in case:
        case['huge'] = False
    return case


@st.composite
def items(draw) -> dict:
    kind = draw(st.sampled_from(['route', 'route', 'route', 'route', 'vpls', 'flow']))
    case = draw({'route': gen.route_cases, 'vpls': gen.vpls_cases, 'flow': gen.flow_cases}[kind]())
    if draw(st.integers(0, 6)) == 0:
        case = truncated(draw, kind, case)
    return {
        'kind': kind,
        'case': case,
        'verb': draw(st.sampled_from(['announce', 'announce', 'announce', 'both', 'both', 'withdraw'])),
        'select': draw(st.sampled_from(['all', 'all', 'a', 'b', 'list'])),
        'suffix': draw(st.sampled_from(SUFFIXES)),
    }


# the verb alone, a keyword alone, the opening words of a block: what is left of a line a helper did not finish
RAW_HEADS = ('', 'route', 'ipv4', 'ipv6', 'ipv4 unicast', 'ipv6 mpls-vpn', 'ipv4 flow', 'flow', 'flow route', 'flow route {', 'flow route { match {', 'vpls', 'attribute', 'attributes', 'attributes nlri', 'attributes next-hop 10.0.0.1 nlri', 'static', 'l2vpn', 'bogus 1')


@st.composite
def raw_items(draw) -> dict:
    return {'kind': 'raw', 'text': draw(st.sampled_from(RAW_HEADS)), 'verb': draw(st.sampled_from(['announce', 'announce', 'withdraw'])), 'select': draw(st.sampled_from(['all', 'a', 'list'])), 'suffix': draw(st.sampled_from(SUFFIXES))}


@st.composite
def any_item(draw) -> dict:
    return draw(raw_items() if draw(st.integers(0, 15)) == 0 else items())


@st.composite
def line_cases(draw) -> dict:
    return {'version': draw(st.sampled_from([6, 6, 4])), 'items': draw(st.lists(any_item(), min_size=1, max_size=4))}


def raw_cases() -> list:
    """every unfinished head, announce and withdraw, in the v6 spelling and through the legacy `neighbor <ip>` dispatcher of v4"""
    out = []
    for text in RAW_HEADS:
        for verb in ('announce', 'withdraw'):
            for version, select in ((6, 'all'), (4, 'a'), (4, 'all')):
                out.append({'version': version, 'items': [{'kind': 'raw', 'text': text, 'verb': verb, 'select': select, 'suffix': ''}]})
    return out


def single(kind: str, case: dict, verb: str = 'announce', select: str = 'all', version: int = 6, suffix: str = '') -> dict:
    """an enumerated case: one definition, one line (two for verb both)"""
    return {'version': version, 'items': [{'kind': kind, 'case': case, 'verb': verb, 'select': select, 'suffix': suffix}]}


# ---------------------------------------------------------------------------- the text on the pipe


def head(version: int, select: str) -> str:
    a, b = NEIGHBORS[0]['ip'], NEIGHBORS[1]['ip']
    if version == 6:
        return {'all': 'peer * ', 'a': f'peer {a} ', 'b': f'peer {b} ', 'list': f'peer [ {a} , {b} ] '}[select]
    # API v4: no prefix names every neighbor; `neighbor <ip>` is the legacy dispatcher (the handlers get `announce route ...`)
    return {'all': '', 'a': f'neighbor {a} ', 'b': f'neighbor {b} ', 'list': f'neighbor {a} , neighbor {b} '}[select]


def selected(select: str) -> list:
    return {'all': [0, 1], 'list': [0, 1], 'a': [0], 'b': [1]}[select]


def command_line(version: int, item: dict, verb: str, definition: str) -> str:
    tail = f' {item["suffix"]}' if item.get('suffix') else ''
    return f'{head(version, item["select"])}{verb} {definition}{tail}'


def verbs(item: dict) -> list:
    return ['announce', 'withdraw'] if item['verb'] == 'both' else [item['verb']]


# ---------------------------------------------------------------------------- the reactor


def config_text() -> str:
    from vlib import exa
    from vlib import netharness as nh

    families = [textgen.FAMILY_TEXT[f] for f in FAMS] + ['l2vpn vpls', 'ipv4 flow', 'ipv6 flow']
    text = nh.process_section(encoder='text')
    for n, nb in enumerate(NEIGHBORS):
        text += exa.neighbor_text(
            peer_ip=nb['ip'], local_ip=LOCAL_IP, local_as=65000, peer_as=nb['peer_as'], router_id=f'1.2.18.{n + 1}', families=families, capability={'asn4': 'enable', 'aigp': 'enable'}, body=nh.api_section(changes=False)
        )
    return text


def fingerprint(peer) -> dict:
    """the outgoing side of one neighbor, by identity of the stored objects (nothing of a route is rendered: a route which cannot
    be printed or packed is for the oracle to report, not for the fingerprint to trip over).

    kept: what only a command changes (the routes kept as announced, the watchdog groups, the queues of other messages);
    queued: announces and withdraws waiting for the session - a peer which fails to connect drops them (OutgoingRIB.reset), so
    they may go away while a line is executed, but nothing may join them on a refused line"""
    n = peer.neighbor
    out = n.rib.outgoing
    kept = (
        tuple(sorted((str(f), tuple((k, id(r)) for k, r in seen.items())) for f, seen in out._seen.items() if seen)),
        tuple(sorted((name, tuple(sorted((sign, tuple(sorted(routes))) for sign, routes in groups.items()))) for name, groups in out._watchdog.items())),
        len(n.eor),
        len(n.refresh),
        len(n.messages),
        len(out._refresh_routes),
    )
    queued = {('announce', k, id(r)) for k, r in out._new_nlri.items()} | {('withdraw', str(f), k) for f, d in out._pending_withdraws.items() for k in d}
    return {'kept': kept, 'queued': queued}


def changed(before: dict, after: dict) -> bool:
    return before['kept'] != after['kept'] or bool(after['queued'] - before['queued'])


def stored(peer, index: bytes) -> list:
    """the route objects of this neighbor's Adj-RIB-Out (queued for sending, or kept as announced) under one route index"""
    out = peer.neighbor.rib.outgoing
    found = [r for r in out.queued_routes() if r.index() == index]
    found += [r for r in out.cached_routes() if r.index() == index and not any(r is x for x in found)]
    return found


def run_lines(version: int, lines: list) -> list:
    """write the lines one at a time; -> one observation per line

    {'line', 'replies': [str], 'terminals': ['done' | 'error'], 'exceptions': [exception logged with its traceback],
     'before' / 'after': [fingerprint per neighbor], 'announced' / 'withdrawn': [(peer names, route)] as the handler passed them,
     'found': [[objects in the Adj-RIB-Out of neighbor n per announced route]], 'names': [peer name per neighbor],
     'ended': None | 'returned' | the exception which ended the reactor loop, 'skipped': True when the reactor was gone before}
    """
    from vlib import netharness as nh
    from vlib import vloop

    observations: list = []

    async def main(loop):
        import exabgp.reactor.api as api_mod
        import exabgp.reactor.asynchronous as async_mod

        with nh.Harness(loop, config_text=config_text(), env={'api.version': version}) as hn:
            if not hn.reload_ok:
                raise RuntimeError(f'harness: configuration refused: {hn.reactor.configuration.error}')
            hn.connect_policy = lambda a, b: False  # no session comes up: the commands act on the RIBs only
            peers = list(hn.reactor._peers.values())
            order = [str(p.neighbor.session.peer_address) for p in peers]
            peers = [peers[order.index(nb['ip'])] for nb in NEIGHBORS]
            names = [hn._peer_key(p) for p in peers]
            current: dict = {}

            # observers (they change nothing): what is logged with a traceback, what the handlers hand to the RIBs
            saved = [(async_mod, async_mod.lazyexc), (api_mod, api_mod.lazyexc)]

            def recording(real):
                def lazyexc(template, exc, **kw):
                    current.setdefault('exceptions', []).append(exc)
                    return real(template, exc, **kw)

                return lazyexc

            configuration = hn.reactor.configuration
            real_announce, real_withdraw = configuration.announce_route, configuration.withdraw_route

            def announce_route(names_, route):
                current.setdefault('announced', []).append((list(names_), route))
                return real_announce(names_, route)

            def withdraw_route(names_, route):
                current.setdefault('withdrawn', []).append((list(names_), route))
                return real_withdraw(names_, route)

            for mod, real in saved:
                mod.lazyexc = recording(real)
            configuration.announce_route = announce_route
            configuration.withdraw_route = withdraw_route
            try:
                hn.start()
                await hn.sleep(0.3)
                hn.api_read()
                for line in lines:
                    obs = {'line': line, 'replies': [], 'terminals': [], 'exceptions': [], 'announced': [], 'withdrawn': [], 'found': [], 'names': names, 'ended': None}
                    observations.append(obs)
                    if hn.main_task.done():
                        obs['skipped'] = True
                        continue
                    current.clear()
                    obs['before'] = [fingerprint(p) for p in peers]
                    hn.api_write(line.encode('ascii', 'replace') + b'\n')
                    waited = 0.0
                    while waited < REPLY_WAIT and not obs['terminals'] and not hn.main_task.done():
                        await hn.sleep(0.05)
                        waited += 0.05
                        obs['replies'] += hn.api_read()
                        obs['terminals'] = [x.strip() for x in obs['replies'] if x.strip() in ('done', 'error')]
                    # a second answer, or the failure of a callback scheduled behind the answer, comes late
                    await hn.sleep(SETTLE)
                    obs['replies'] += hn.api_read()
                    obs['terminals'] = [x.strip() for x in obs['replies'] if x.strip() in ('done', 'error')]
                    obs['after'] = [fingerprint(p) for p in peers]
                    obs['exceptions'] = list(current.get('exceptions', []))
                    obs['announced'] = list(current.get('announced', []))
                    obs['withdrawn'] = list(current.get('withdrawn', []))
                    obs['found'] = [[stored(p, route.index()) for _, route in obs['announced']] for p in peers]
                    if hn.main_task.done():
                        obs['ended'] = 'returned' if hn.main_task.cancelled() or hn.main_task.exception() is None else hn.main_task.exception()
            finally:
                for mod, real in saved:
                    mod.lazyexc = real
                del configuration.announce_route
                del configuration.withdraw_route

    vloop.run(main)
    return observations
