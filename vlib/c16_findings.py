"""c16_findings - the genuine C16 findings with their minimal inputs, in the shape known_findings.json wants.

    PYTHONPATH=/repo/src:/verif /venv/bin/python -m vlib.c16_findings      # prints the JSON entries (status "known")

Nothing imports this module; it exists so that the entries can be registered (or turned into `fixed`) by whoever owns
known_findings.json.
"""

from __future__ import annotations

import json


def entries() -> list:
    from props import c16

    enc, dec = c16.fixed_encode(), c16.fixed_decode()
    base = {'afi': 2, 'form': 'block', 'rd': None, 'nexthop': None, 'actions': [{'kind': 'discard'}], 'fill': None, 'probe': None}
    table = [
        (
            'C16-length-4095-refused',
            'encode',
            'encode:length-4095-refused',
            'Flow._encode_length refuses a rule of exactly 4095 octets (lc < FLOW_LENGTH_EXTENDED_MAX); RFC 8955 4.1 allows 0xfnnn up to 4095',
            enc[6],
        ),
        (
            'C16-extended-length-decode',
            'decode',
            'decode:extended-length',
            'FLOW_LENGTH_EXTENDED_SHIFT is 16 instead of 8: a length 0xfnnn with nnn >= 256 is misread, the NLRI is answered with Notify 3/10',
            dec[3],
        ),
        (
            'C16-ipv6-offset-pattern-encode',
            'encode',
            'encode:ipv6-offset-pattern',
            'IPv6 prefix with offset > 0 is sent as ceil(length/8) octets from bit 0; RFC 8956 3.1 puts only the length-offset pattern bits on the wire',
            enc[12],
        ),
        (
            'C16-ipv6-offset-pattern-decode',
            'decode',
            'decode:ipv6-offset-pattern',
            'IPv6 prefix with offset > 0 is read as ceil(length/8) octets: an RFC 8956 NLRI (the 3.8 example) is dropped or misread',
            dec[5],
        ),
        (
            'C16-traffic-class-range',
            'encode',
            'encode:out-of-range-accepted:traffic-class',
            'traffic-class accepts 0..65535 (MAX_TRAFFIC_CLASS) for a one octet component: accepted, then pack_nlri raises ValueError',
            enc[10],
        ),
        (
            'C16-protocol-icmp-range',
            'encode',
            'encode:out-of-range-accepted:protocol-icmp',
            'protocol / next-header / icmp-type / icmp-code accept 0..65535 (Resource._value) for a one octet component: accepted, then pack_nlri raises ValueError',
            dict(base, afi=1, statements=[], probe={'type': 3, 'kw': 'protocol', 'value': 256}),
        ),
        (
            'C16-ipv6-prefix-padding',
            'encode',
            'encode:ipv6-prefix-padding',
            'IPv6 prefix written with host bits is sent with non-zero padding bits (RFC 8956 3.1: MUST be 0 on encoding)',
            dict(base, statements=[{'type': 1, 'kw': 'destination', 'address': '2001:db8:ffff::1', 'bits': 33, 'offset': None}]),
        ),
    ]
    return [{'id': i, 'property': 'C16', 'status': 'known', 'engine': e, 'signature': s, 'what': w, 'case': c} for i, e, s, w, c in table]


if __name__ == '__main__':
    print(json.dumps(entries(), indent=1))
