"""textgen.py - route text with an expected-value model (engine E2).

A *record* (plain dict) is drawn first; render() turns it into the text an operator would write,
expected_*() turn it into what RFC wire decoding of the UPDATE must show.  Nothing here imports exabgp.
"""

from __future__ import annotations

import ipaddress
import struct

from hypothesis import strategies as st

AS_TRANS = 23456

B8 = [0, 1, 254, 255]
B16 = [0, 1, 255, 256, 65534, 65535]
B20 = [0, 1, 16, 1048574, 1048575]
B32 = [0, 1, 65535, 65536, 2**31, 2**32 - 2, 2**32 - 1]
B64 = [0, 1, 2**32, 2**63, 2**64 - 1]
ASN2 = [1, 2, 100, 64512, 65000, 65534, 65535, 23456]
ASN4 = [65536, 70000, 131072, 4200000000, 4294967294, 4294967295]


def u(bound_list, hi):
    return st.one_of(st.sampled_from(bound_list), st.integers(0, hi))


asn_any = st.one_of(st.sampled_from(ASN2), st.sampled_from(ASN2), st.sampled_from(ASN4), st.integers(1, 65535), st.integers(65536, 2**32 - 1))
asn_2 = st.one_of(st.sampled_from(ASN2), st.integers(1, 65535))

ipv4_addr = st.one_of(
    st.sampled_from(['1.2.3.4', '10.0.0.1', '192.168.255.254', '255.255.255.255', '0.0.0.1', '127.0.0.1']),
    st.integers(1, 2**32 - 1).map(lambda n: str(ipaddress.IPv4Address(n))),
)
ipv6_addr = st.one_of(
    st.sampled_from(['2001:db8::1', 'fe80::1', '::1', '2001:db8:ffff:ffff:ffff:ffff:ffff:ffff']),
    st.integers(1, 2**128 - 1).map(lambda n: str(ipaddress.IPv6Address(n))),
)


@st.composite
def prefix4(draw, multicast=False):
    bits = draw(st.sampled_from([0, 1, 7, 8, 9, 15, 16, 17, 23, 24, 25, 31, 32, 24, 24, 32]))
    if multicast:
        bits = max(bits, 4)
        n = draw(st.integers(0xE0000000, 0xEFFFFFFF))
    else:
        n = draw(st.one_of(st.integers(0x01000000, 0xDFFFFFFF), st.sampled_from([0x0A000000, 0xC0A80000, 0xAC100000])))
    mask = (0xFFFFFFFF << (32 - bits)) & 0xFFFFFFFF if bits else 0
    n &= mask
    if not multicast and bits and (n >> 28) == 0xE:
        n &= 0x7FFFFFFF
    return f'{ipaddress.IPv4Address(n)}/{bits}'


@st.composite
def prefix6(draw):
    bits = draw(st.sampled_from([0, 1, 16, 32, 48, 63, 64, 65, 127, 128, 64, 48]))
    n = draw(st.integers(0x2001 << 112, (0x3FFF << 112) | ((1 << 112) - 1)))
    mask = ((1 << 128) - 1) ^ ((1 << (128 - bits)) - 1) if bits else 0
    return f'{ipaddress.IPv6Address(n & mask)}/{bits}'


@st.composite
def route_distinguisher(draw):
    kind = draw(st.sampled_from(['asn2', 'ip', 'asn4']))
    if kind == 'asn2':
        return ['asn2', draw(u(B16, 65535)), draw(u(B32, 2**32 - 1))]
    if kind == 'ip':
        return ['ip', draw(ipv4_addr), draw(u(B16, 65535))]
    return ['asn4', draw(st.one_of(st.sampled_from(ASN4), st.integers(65536, 2**32 - 1))), draw(u(B16, 65535))]


def rd_text(rd) -> str:
    return f'{rd[1]}:{rd[2]}'


def rd_bytes(rd) -> bytes:
    if rd[0] == 'asn2':
        return struct.pack('!HHL', 0, rd[1], rd[2])
    if rd[0] == 'ip':
        return struct.pack('!H', 1) + ipaddress.IPv4Address(rd[1]).packed + struct.pack('!H', rd[2])
    return struct.pack('!HLH', 2, rd[1], rd[2])


@st.composite
def as_path(draw, allow4=True):
    asn = asn_any if allow4 else asn_2
    segs = []
    for _ in range(draw(st.integers(1, 3))):
        kind = draw(st.sampled_from([2, 2, 2, 1]))
        segs.append([kind, draw(st.lists(asn, min_size=1, max_size=6))])
    # the text grammar alternates '[ ... ]' and '( ... )' groups; two adjacent groups of one kind read as one
    out = []
    for kind, asns in segs:
        if out and out[-1][0] == kind:
            out[-1][1].extend(asns)
        else:
            out.append([kind, asns])
    return out


def as_path_text(segs) -> str:
    if len(segs) == 1 and segs[0][0] == 2 and len(segs[0][1]) == 1:
        return f'as-path {segs[0][1][0]}'
    parts = []
    for kind, asns in segs:
        body = ' '.join(str(a) for a in asns)
        parts.append(f'[ {body} ]' if kind == 2 else f'( {body} )')
    return 'as-path ' + ' '.join(parts)


WELL_KNOWN_COMMUNITY = {'no-export': 0xFFFFFF01, 'no-advertise': 0xFFFFFF02, 'no-export-subconfed': 0xFFFFFF03, 'nopeer': 0xFFFFFF04, 'blackhole': 0xFFFF029A}


@st.composite
def community(draw):
    """[text, value]"""
    form = draw(st.sampled_from(['pair', 'pair', 'name', 'int', 'hex']))
    if form == 'name':
        name = draw(st.sampled_from(sorted(WELL_KNOWN_COMMUNITY)))
        return [name, WELL_KNOWN_COMMUNITY[name]]
    if form == 'pair':
        a, b = draw(u(B16, 65535)), draw(u(B16, 65535))
        return [f'{a}:{b}', (a << 16) | b]
    v = draw(u(B32, 2**32 - 1))
    return [str(v) if form == 'int' else hex(v), v]


@st.composite
def large_community(draw):
    a, b, c = draw(u(B32, 2**32 - 1)), draw(u(B32, 2**32 - 1)), draw(u(B32, 2**32 - 1))
    return [f'{a}:{b}:{c}', [a, b, c]]


@st.composite
def ext_community(draw):
    """[text, 8 byte hex]"""
    form = draw(st.sampled_from(['target2', 'target4', 'targetip', 'origin2', 'originip', 'hex', 'target-bare']))
    if form in ('target2', 'origin2', 'target-bare'):
        a, n = draw(u(B16, 65535)), draw(u(B32, 2**32 - 1))
        sub = 3 if form == 'origin2' else 2
        head = '' if form == 'target-bare' else ('origin:' if sub == 3 else 'target:')
        return [f'{head}{a}:{n}', (bytes([0, sub]) + struct.pack('!HL', a, n)).hex()]
    if form == 'target4':
        a, n = draw(st.sampled_from(ASN4)), draw(u(B16, 65535))
        return [f'target:{a}:{n}', (bytes([2, 2]) + struct.pack('!LH', a, n)).hex()]
    if form in ('targetip', 'originip'):
        ip, n = draw(ipv4_addr), draw(u(B16, 65535))
        sub = 3 if form == 'originip' else 2
        head = 'origin:' if sub == 3 else 'target:'
        return [f'{head}{ip}:{n}', (bytes([1, sub]) + ipaddress.IPv4Address(ip).packed + struct.pack('!H', n)).hex()]
    raw = draw(st.binary(min_size=8, max_size=8))
    return ['0x' + raw.hex(), raw.hex()]


@st.composite
def attributes(draw, allow4=True, rich=None):
    """dict of the attributes the operator gives"""
    a: dict = {}
    rich = draw(st.booleans()) if rich is None else rich
    p = (lambda: draw(st.integers(0, 9)) < (6 if rich else 2))
    if p():
        a['origin'] = draw(st.sampled_from(['igp', 'egp', 'incomplete']))
    if p():
        a['as_path'] = draw(as_path(allow4))
    if p():
        a['med'] = draw(u(B32, 2**32 - 1))
    if p():
        a['local_pref'] = draw(u(B32, 2**32 - 1))
    if p():
        a['atomic'] = True
    if p():
        a['aggregator'] = [draw(asn_any if allow4 else asn_2), draw(ipv4_addr)]
    if p():
        a['community'] = draw(st.lists(community(), min_size=1, max_size=6, unique_by=lambda c: c[1]))
    if p():
        a['large_community'] = draw(st.lists(large_community(), min_size=1, max_size=4, unique_by=lambda c: tuple(c[1])))
    if p():
        a['ext_community'] = draw(st.lists(ext_community(), min_size=1, max_size=4, unique_by=lambda c: c[1]))
    if p():
        a['originator'] = draw(ipv4_addr)
    if p():
        a['cluster_list'] = draw(st.lists(ipv4_addr, min_size=1, max_size=4))
    if p():
        a['aigp'] = draw(u(B64, 2**64 - 1))
    if draw(st.integers(0, 11)) == 0:
        # BGP Prefix-SID (RFC 8669): a 32-bit label index, optionally Originator SRGB tuples of a 24-bit base and a 24-bit range
        b24 = st.one_of(st.sampled_from([0, 1, 16000, 2**24 - 2, 2**24 - 1]), st.integers(0, 2**24 - 1))
        a['prefix_sid'] = [draw(u(B32, 2**32 - 1)), [list(t) for t in draw(st.lists(st.tuples(b24, b24), max_size=2))]]
    if draw(st.integers(0, 9)) == 0:
        # generic attribute: an unassigned optional transitive code
        a['generic'] = [draw(st.sampled_from([0x63, 0x99, 0xF0])), draw(st.sampled_from([0xC0, 0x80, 0xE0])), draw(st.binary(min_size=0, max_size=12)).hex()]
    return a


def attributes_text(a: dict) -> str:
    out = []
    if 'origin' in a:
        out.append(f'origin {a["origin"]}')
    if 'as_path' in a:
        out.append(as_path_text(a['as_path']))
    if 'med' in a:
        out.append(f'med {a["med"]}')
    if 'local_pref' in a:
        out.append(f'local-preference {a["local_pref"]}')
    if a.get('atomic'):
        out.append('atomic-aggregate')
    if 'aggregator' in a:
        out.append(f'aggregator ( {a["aggregator"][0]}:{a["aggregator"][1]} )')
    if 'community' in a:
        cs = a['community']
        out.append('community ' + (cs[0][0] if len(cs) == 1 else '[ ' + ' '.join(c[0] for c in cs) + ' ]'))
    if 'large_community' in a:
        cs = a['large_community']
        out.append('large-community ' + (cs[0][0] if len(cs) == 1 else '[ ' + ' '.join(c[0] for c in cs) + ' ]'))
    if 'ext_community' in a:
        cs = a['ext_community']
        out.append('extended-community ' + (cs[0][0] if len(cs) == 1 else '[ ' + ' '.join(c[0] for c in cs) + ' ]'))
    if 'originator' in a:
        out.append(f'originator-id {a["originator"]}')
    if 'cluster_list' in a:
        cl = a['cluster_list']
        out.append('cluster-list ' + (cl[0] if len(cl) == 1 else '[ ' + ' '.join(cl) + ' ]'))
    if 'aigp' in a:
        out.append(f'aigp {a["aigp"]}')
    if 'prefix_sid' in a:
        out.append(prefix_sid_text(a['prefix_sid']))
    if 'generic' in a:
        code, flags, value = a['generic']
        out.append(f'attribute [ 0x{code:02x} 0x{flags:02x} 0x{value} ]')
    return ' '.join(out)


def prefix_sid_text(v: list) -> str:
    index, srgb = v
    if not srgb:
        return f'bgp-prefix-sid [ {index} ]'
    return f'bgp-prefix-sid [ {index}, [ ' + ' '.join(f'( {b},{r} )' for b, r in srgb) + ' ] ]'


def prefix_sid_value(v: list) -> str:
    """RFC 8669 3: Label-Index TLV (type 1: reserved, flags, index), Originator SRGB TLV (type 3: flags, then base / range of 3 octets each)"""
    index, srgb = v
    raw = bytes([1]) + struct.pack('!H', 7) + bytes(3) + struct.pack('!L', index)
    if srgb:
        raw += bytes([3]) + struct.pack('!H', 2 + 6 * len(srgb)) + bytes(2) + b''.join(b.to_bytes(3, 'big') + r.to_bytes(3, 'big') for b, r in srgb)
    return raw.hex()


FAMILY_TEXT = {(1, 1): 'ipv4 unicast', (1, 2): 'ipv4 multicast', (1, 4): 'ipv4 nlri-mpls', (1, 128): 'ipv4 mpls-vpn', (2, 1): 'ipv6 unicast', (2, 4): 'ipv6 nlri-mpls', (2, 128): 'ipv6 mpls-vpn'}


@st.composite
def routes(draw, allow4=True, families=None, rich=None, family_form_subset=True):
    """one route record"""
    fam = draw(st.sampled_from(families or [(1, 1), (1, 1), (2, 1), (1, 4), (1, 128), (2, 4), (2, 128), (1, 2)]))
    afi, safi = fam
    rec: dict = {'afi': afi, 'safi': safi}
    rec['prefix'] = draw(prefix4(multicast=(safi == 2))) if afi == 1 else draw(prefix6())
    # spelling: the plain 'route' keyword infers the family from what is given, the family form names it
    rec['form'] = draw(st.sampled_from(['route', 'route', 'family'])) if safi != 2 else 'route'
    if safi in (4, 128):
        rec['labels'] = draw(st.lists(u(B20, 2**20 - 1), min_size=1, max_size=3))
    if safi == 128:
        rec['rd'] = draw(route_distinguisher())
    if draw(st.booleans()):
        rec['path_id'] = draw(u(B32, 2**32 - 1))
        rec['path_id_form'] = draw(st.sampled_from(['int', 'ip']))
    nh_kind = draw(st.sampled_from(['same', 'same', 'same', 'self', 'other']))
    if nh_kind == 'self':
        rec['nexthop'] = 'self'
    elif nh_kind == 'same' or afi == 2:
        rec['nexthop'] = draw(ipv4_addr) if afi == 1 else draw(ipv6_addr)
    else:
        rec['nexthop'] = draw(ipv6_addr)  # IPv4 NLRI with IPv6 next hop (RFC 8950): needs extended next hop negotiated
    rec['attrs'] = draw(attributes(allow4, rich))
    if rec['form'] == 'family' and family_form_subset:
        # the `<afi> <safi>` spelling is a separate, narrower parser: keep what it takes (C18 probes the rest)
        for k in ('originator', 'cluster_list', 'atomic', 'aigp', 'generic', 'prefix_sid'):
            rec['attrs'].pop(k, None)
        rec.pop('path_id', None)
        rec.pop('path_id_form', None)
    return rec


def route_text(rec: dict) -> str:
    parts = []
    if rec['form'] == 'route':
        parts.append(f'route {rec["prefix"]}')
    else:
        parts.append(f'{FAMILY_TEXT[(rec["afi"], rec["safi"])]} {rec["prefix"]}')
    if 'rd' in rec:
        parts.append(f'rd {rd_text(rec["rd"])}')
    if 'labels' in rec:
        labs = rec['labels']
        parts.append('label ' + (str(labs[0]) if len(labs) == 1 else '[ ' + ' '.join(str(x) for x in labs) + ' ]'))
    if 'path_id' in rec:
        pid = rec['path_id']
        parts.append('path-information ' + (str(pid) if rec['path_id_form'] == 'int' else str(ipaddress.IPv4Address(pid))))
    parts.append(f'next-hop {rec["nexthop"]}')
    at = attributes_text(rec['attrs'])
    if at:
        parts.append(at)
    return ' '.join(parts)


# ---------------------------------------------------------------------------- expectations


def expected_nlri(rec: dict, addpath: bool) -> dict:
    e = {'afi': rec['afi'], 'safi': rec['safi'], 'prefix': str(ipaddress.ip_network(rec['prefix']))}
    if addpath:
        e['path_id'] = rec.get('path_id', 0)
    if 'labels' in rec:
        e['labels'] = list(rec['labels'])
        e['bos'] = True
    if 'rd' in rec:
        e['rd'] = rd_bytes(rec['rd']).hex()
    return e


def expected_attrs(rec: dict, local_as: int, peer_as: int, asn4: bool) -> dict:
    """attribute code -> semantic value as refwire.codec.decode_attribute reports it"""
    a = rec['attrs']
    ibgp = local_as == peer_as
    out: dict = {}
    out[1] = {'igp': 0, 'egp': 1, 'incomplete': 2}[a.get('origin', 'igp')]
    if 'as_path' in a:
        path = [(k, list(v)) for k, v in a['as_path']]
    else:
        path = [] if ibgp else [(2, [local_as])]
    if asn4:
        out[2] = path
    else:
        out[2] = [(k, [x if x <= 65535 else AS_TRANS for x in v]) for k, v in path]
        if any(x > 65535 for _, v in path for x in v):
            out[17] = path
    if 'med' in a:
        out[4] = a['med']
    if ibgp:
        out[5] = a.get('local_pref', 100)
    if a.get('atomic'):
        out[6] = True
    if 'aggregator' in a:
        asn, ip = a['aggregator']
        if asn4:
            out[7] = (asn, ip)
        elif asn > 65535:
            out[7] = (AS_TRANS, ip)
            out[18] = (asn, ip)
        else:
            out[7] = (asn, ip)
    if 'community' in a:
        out[8] = sorted(c[1] for c in a['community'])
    if 'originator' in a:
        out[9] = a['originator']
    if 'cluster_list' in a:
        out[10] = list(a['cluster_list'])
    if 'ext_community' in a:
        out[16] = sorted(c[1] for c in a['ext_community'])
    if 'aigp' in a:
        out[26] = [a['aigp']]
    if 'large_community' in a:
        out[32] = sorted(tuple(c[1]) for c in a['large_community'])
    if 'prefix_sid' in a:
        out[40] = prefix_sid_value(a['prefix_sid'])
    if 'generic' in a:
        code, flags, value = a['generic']
        out[code] = value
    return out
