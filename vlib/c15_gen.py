"""c15_gen.py - byte-level generators for C15, shaped by each family's outer length-prefix layout.

Nothing here imports exabgp.  Every strategy yields *bytes* (one NLRI, or one attribute value); whether exabgp's
decoder accepts them is decided in the check, which keeps only accepted inputs.
"""

from __future__ import annotations

import struct

from hypothesis import strategies as st

from vlib.refwire import build
from vlib.refwire import strategies as ws

IP_FAMILIES = [(1, 1), (1, 2), (1, 4), (1, 128), (2, 1), (2, 2), (2, 4), (2, 128)]
ADDPATH_FAMILIES = [(1, 1), (1, 4), (1, 128), (2, 1), (2, 4), (2, 128)]

u8 = st.integers(0, 255)
u16 = st.one_of(st.sampled_from([0, 1, 255, 256, 65535]), st.integers(0, 65535))
u32 = st.one_of(st.sampled_from([0, 1, 65535, 65536, 2**32 - 1]), st.integers(0, 2**32 - 1))


def blob(lo: int, hi: int):
    return st.binary(min_size=lo, max_size=hi)


@st.composite
def rd(draw) -> bytes:
    kind = draw(st.sampled_from([0, 1, 2]))
    if kind == 0:
        return struct.pack('!HHL', 0, draw(u16), draw(u32))
    if kind == 1:
        return struct.pack('!HLH', 1, draw(u32), draw(u16))
    return struct.pack('!HLH', 2, draw(u32), draw(u16))


label3 = st.one_of(st.sampled_from([16, 17, 1048575, 0, 3]), st.integers(0, 2**20 - 1)).map(lambda n: ((n << 4) | 1).to_bytes(3, 'big'))
ip4 = st.integers(0, 2**32 - 1).map(lambda n: n.to_bytes(4, 'big'))
ip6 = st.integers(0, 2**128 - 1).map(lambda n: n.to_bytes(16, 'big'))
esi = st.one_of(st.just(bytes(10)), blob(10, 10))
etag = u32.map(lambda n: n.to_bytes(4, 'big'))


# ---------------------------------------------------------------------------- outer framing


def frame(fam: tuple[int, int], head: bytes, payload: bytes) -> bytes | None:
    """rebuild the outer length prefix of one NLRI of family `fam` around `payload`; head = the type bytes"""
    afi, safi = fam
    n = len(payload)
    if fam == (25, 65):
        return struct.pack('!H', n) + payload if n < 65536 else None
    if fam == (25, 70) or safi == 5:
        return head[:1] + bytes([n]) + payload if n < 256 else None
    if safi == 85:
        return head[:3] + bytes([n]) + payload if n < 256 else None
    if afi == 16388:
        return head[:2] + struct.pack('!H', n) + payload if n < 65536 else None
    if safi in (133, 134):
        if n < 240:
            return bytes([n]) + payload
        if n < 4096:
            return struct.pack('!H', 0xF000 | n) + payload
        return None
    if safi in (73, 132):
        return bytes([n * 8]) + payload if n * 8 < 256 else None
    return None


def unframe(fam: tuple[int, int], raw: bytes) -> tuple[bytes, bytes] | None:
    """(head, payload) of one NLRI, the inverse of frame()"""
    afi, safi = fam
    try:
        if fam == (25, 65):
            return b'', raw[2:]
        if fam == (25, 70) or safi == 5:
            return raw[:1], raw[2:]
        if safi == 85:
            return raw[:3], raw[4:]
        if afi == 16388:
            return raw[:2], raw[4:]
        if safi in (133, 134):
            if raw[0] & 0xF0 == 0xF0:
                return b'', raw[2:]
            return b'', raw[1:]
        if safi in (73, 132):
            return b'', raw[1:]
    except IndexError:
        return None
    return None


def rd_offset(fam: tuple[int, int], raw: bytes) -> int | None:
    """where the 8 bytes of route distinguisher sit in one NLRI of this family (None: the family has none / not located)"""
    afi, safi = fam
    if fam == (25, 65):
        return 2
    if fam == (25, 70):
        return 2 if raw[:1] and raw[0] in (1, 2, 3, 4, 5) else None
    if safi == 5:
        return 2 if raw[:1] and raw[0] in (5, 6, 7) else None
    if safi == 85:
        return 4 if len(raw) > 3 and raw[0] == 1 and raw[1:3] in (b'\x00\x01', b'\x00\x02', b'\x00\x03', b'\x00\x04') else None
    if safi == 134:
        return 2 if raw[:1] and raw[0] & 0xF0 == 0xF0 else 1
    if fam == (16388, 72):
        return 4
    return None


# ---------------------------------------------------------------------------- per family NLRI generators


@st.composite
def ip_entry(draw, fam, addpath: bool) -> dict:
    afi, safi = fam
    e = {'prefix': draw(ws.prefix(afi))}
    if addpath:
        e['path_id'] = draw(st.sampled_from([0, 1, 2, 7, 65536, 2**32 - 1]))
    if safi in (4, 128):
        e['labels'] = draw(st.lists(st.one_of(st.sampled_from([16, 17, 100, 1000, 1048575]), st.integers(16, 2**20 - 1)), min_size=1, max_size=3))
    if safi == 128:
        e['rd'] = draw(rd()).hex()
    bits = int(e['prefix'].split('/')[1]) + (64 if safi == 128 else 0)
    while 'labels' in e and len(e['labels']) > 1 and bits + 24 * len(e['labels']) > 255:
        e['labels'].pop()  # the NLRI length is one byte of bits
    return e


@st.composite
def evpn(draw) -> bytes:
    t = draw(st.sampled_from([1, 2, 2, 3, 4, 5, 5, 6, 9]))
    r = draw(rd())
    if t == 1:
        p = r + draw(esi) + draw(etag) + draw(label3)
    elif t == 2:
        ip = draw(st.one_of(st.just(b''), ip4, ip6))
        p = r + draw(esi) + draw(etag) + bytes([draw(st.sampled_from([48, 48, 48, 40, 0]))]) + draw(blob(6, 6)) + bytes([len(ip) * 8]) + ip + draw(label3)
        if draw(st.booleans()):
            p += draw(label3)
    elif t == 3:
        ip = draw(st.one_of(ip4, ip6))
        p = r + draw(etag) + bytes([len(ip) * 8]) + ip
    elif t == 4:
        ip = draw(st.one_of(ip4, ip6))
        p = r + draw(esi) + bytes([len(ip) * 8]) + ip
    elif t == 5:
        v6 = draw(st.booleans())
        ip = draw(ip6 if v6 else ip4)
        gw = draw(st.one_of(st.just(bytes(len(ip))), ip6 if v6 else ip4))
        p = r + draw(esi) + draw(etag) + bytes([draw(st.integers(0, len(ip) * 8))]) + ip + gw + draw(label3)
    else:
        p = draw(blob(0, 24))
    return bytes([t, len(p)]) + p


@st.composite
def mvpn(draw, afi) -> bytes:
    t = draw(st.sampled_from([5, 6, 7, 1, 3]))
    a = ip4 if afi == 1 else ip6
    bits = 32 if afi == 1 else 128
    if t == 5:
        p = draw(rd()) + bytes([bits]) + draw(a) + bytes([bits]) + draw(a)
    elif t in (6, 7):
        p = draw(rd()) + struct.pack('!L', draw(u32)) + bytes([bits]) + draw(a) + bytes([bits]) + draw(a)
    else:
        p = draw(blob(0, 30))
    return bytes([t, len(p)]) + p


@st.composite
def mup(draw, afi) -> bytes:
    t = draw(st.sampled_from([1, 2, 3, 4, 9]))
    a = ip4 if afi == 1 else ip6
    full = 32 if afi == 1 else 128
    if t == 1:
        bits = draw(st.integers(0, full))
        p = draw(rd()) + bytes([bits]) + draw(a)[: (bits + 7) // 8]
    elif t == 2:
        p = draw(rd()) + draw(a)
    elif t == 3:
        bits = draw(st.integers(0, full))
        p = draw(rd()) + bytes([bits]) + draw(a)[: (bits + 7) // 8] + struct.pack('!L', draw(u32)) + bytes([draw(u8)])
        ep = draw(st.one_of(ip4, ip6))
        p += bytes([len(ep) * 8]) + ep
        if draw(st.booleans()):
            src = draw(st.one_of(ip4, ip6))
            p += bytes([len(src) * 8]) + src
    elif t == 4:
        teid_bits = draw(st.sampled_from([0, 8, 16, 32, 32, 12]))
        teid = draw(blob((teid_bits + 7) // 8, (teid_bits + 7) // 8))
        p = draw(rd()) + bytes([full + teid_bits]) + draw(a) + teid
    else:
        p = draw(blob(0, 24))
    return bytes([1]) + struct.pack('!H', t) + bytes([len(p)]) + p


@st.composite
def vpls(draw) -> bytes:
    p = draw(rd()) + struct.pack('!HHH', draw(u16), draw(u16), draw(u16)) + draw(label3)
    if draw(st.integers(0, 5)) == 0:
        p += draw(blob(1, 6))  # RFC 4761 gives the layout, not a maximum
    return struct.pack('!H', len(p)) + p


@st.composite
def rtc(draw) -> bytes:
    if draw(st.integers(0, 7)) == 0:
        return b'\x00'
    bits = draw(st.sampled_from([96, 96, 96, 32, 48, 64, 95]))
    rt = bytes([draw(st.sampled_from([0x00, 0x01, 0x02, 0x40, 0x80, 0x43])), draw(st.sampled_from([2, 3]))]) + draw(blob(6, 6))
    return bytes([bits]) + struct.pack('!L', draw(u32)) + rt


@st.composite
def sr_policy(draw, afi) -> bytes:
    ep = draw(ip4 if afi == 1 else ip6)
    return bytes([(8 + len(ep)) * 8]) + struct.pack('!LL', draw(u32), draw(u32)) + ep


def _numeric_ops(draw, n_max: int) -> bytes:
    n = draw(st.integers(1, n_max))
    out = b''
    for i in range(n):
        size = draw(st.sampled_from([1, 1, 2, 4]))
        op = {1: 0x00, 2: 0x10, 4: 0x20}[size] | draw(st.sampled_from([0x01, 0x02, 0x03, 0x04, 0x05, 0x06])) | (0x40 if i and draw(st.booleans()) else 0)
        if i == n - 1:
            op |= 0x80
        out += bytes([op]) + draw(st.integers(0, 256**size - 1)).to_bytes(size, 'big')
    return out


@st.composite
def flow(draw, fam) -> bytes:
    afi, safi = fam
    long = draw(st.integers(0, 7)) == 0
    comps = sorted(draw(st.sets(st.sampled_from([1, 2, 3, 4, 5, 6, 7, 8, 10, 11]), min_size=1, max_size=5)))
    body = b''
    for c in comps:
        if c in (1, 2):
            if afi == 1:
                bits = draw(st.sampled_from([0, 8, 16, 24, 25, 32]))
                body += bytes([c, bits]) + draw(ip4)[: (bits + 7) // 8]
            else:
                bits = draw(st.sampled_from([0, 16, 32, 64, 65, 128]))
                off = draw(st.sampled_from([0, 0, 0, 8])) if bits >= 16 else 0
                body += bytes([c, bits, off]) + draw(ip6)[: (bits - off + 7) // 8]
        else:
            body += bytes([c]) + _numeric_ops(draw, 90 if long else 4)
    if safi == 134:
        body = draw(rd()) + body
    return frame(fam, b'', body) or b'\x00'


def nlri_generator(fam: tuple[int, int], addpath: bool):
    """strategy of bytes for one NLRI of this family, or None when only seeds and mutations are available"""
    afi, safi = fam
    if fam in IP_FAMILIES:
        return ip_entry(fam, addpath).map(lambda e: build.nlri(e, addpath))
    if fam == (25, 70):
        return evpn()
    if fam == (25, 65):
        return vpls()
    if safi == 5:
        return mvpn(afi)
    if safi == 85:
        return mup(afi)
    if safi == 132:
        return rtc()
    if safi == 73:
        return sr_policy(afi)
    if safi in (133, 134):
        return flow(fam)
    return None


# ---------------------------------------------------------------------------- mutations


@st.composite
def mutate(draw, raw: bytes, fam: tuple[int, int] | None = None) -> bytes:
    """one or two small edits; edits that change the size re-frame the outer length when the layout is known"""
    data = bytearray(raw)
    for _ in range(draw(st.sampled_from([1, 1, 2]))):
        op = draw(st.sampled_from(['set', 'set', 'bit', 'insert', 'delete', 'dup']))
        if not data:
            op = 'insert'
        if op == 'set':
            i = draw(st.integers(0, len(data) - 1))
            data[i] = draw(st.one_of(st.sampled_from([0, 1, 0x7F, 0x80, 0xFF]), u8))
            continue
        if op == 'bit':
            i = draw(st.integers(0, len(data) - 1))
            data[i] ^= 1 << draw(st.integers(0, 7))
            continue
        parts = unframe(fam, bytes(data)) if fam else (b'', bytes(data))
        if parts is None:
            continue
        head, payload = parts
        payload = bytearray(payload)
        if op == 'insert':
            i = draw(st.integers(0, len(payload)))
            payload[i:i] = draw(blob(1, 4))
        elif op == 'delete' and payload:
            i = draw(st.integers(0, len(payload) - 1))
            del payload[i : i + draw(st.integers(1, 4))]
        elif op == 'dup' and payload:
            i = draw(st.integers(0, len(payload) - 1))
            j = draw(st.integers(i + 1, min(len(payload), i + 24)))
            payload[j:j] = payload[i:j]
        out = frame(fam, head, bytes(payload)) if fam else bytes(payload)
        if out is not None:
            data = bytearray(out)
    return bytes(data)


# ---------------------------------------------------------------------------- attribute values


@st.composite
def as_path_value(draw, asn4: bool) -> bytes:
    out = b''
    for _ in range(draw(st.integers(0, 3))):
        n = draw(st.integers(1, 5))
        out += bytes([draw(st.sampled_from([1, 2, 2, 2, 3, 4])), n])
        for _ in range(n):
            out += struct.pack('!L' if asn4 else '!H', draw(ws.asn4 if asn4 else ws.asn2))
    return out


@st.composite
def pmsi_value(draw) -> bytes:
    t = draw(st.sampled_from([0, 6, 6, 1, 2, 3, 4, 5, 7, 11]))
    tunnel = b'' if t == 0 else (draw(ip4) if t == 6 else draw(st.one_of(ip4, blob(0, 20))))
    return bytes([draw(st.sampled_from([0, 0, 1, 0x80])), t]) + draw(st.integers(0, 2**24 - 1)).to_bytes(3, 'big') + tunnel


@st.composite
def prefix_sid_value(draw) -> bytes:
    out = b''
    for t in draw(st.lists(st.sampled_from([1, 3, 1, 9]), min_size=1, max_size=3, unique=True)):
        if t == 1:
            v = b'\x00' + struct.pack('!H', draw(u16)) + struct.pack('!L', draw(u32))
        elif t == 3:
            v = struct.pack('!H', draw(u16)) + b''.join(draw(st.integers(0, 2**24 - 1)).to_bytes(3, 'big') + draw(st.integers(0, 2**24 - 1)).to_bytes(3, 'big') for _ in range(draw(st.integers(1, 3))))
        else:
            v = draw(blob(0, 8))
        out += bytes([t]) + struct.pack('!H', len(v)) + v
    return out


def attr_generator(code: int, asn4: bool):
    def rep(size, lo=1, hi=5):
        return st.lists(blob(size, size), min_size=lo, max_size=hi).map(b''.join)

    table = {
        1: st.sampled_from([b'\x00', b'\x01', b'\x02']),
        2: as_path_value(asn4),
        3: ip4,
        4: u32.map(lambda n: struct.pack('!L', n)),
        5: u32.map(lambda n: struct.pack('!L', n)),
        6: st.just(b''),
        7: st.tuples(ws.asn4 if asn4 else ws.asn2, ip4).map(lambda t: struct.pack('!L' if asn4 else '!H', t[0]) + t[1]),
        8: st.one_of(rep(4), st.sampled_from([b'\xff\xff\xff\x01', b'\xff\xff\xff\x02', b'\xff\xff\x02\x9a'])),
        9: ip4,
        10: rep(4, 1, 4),
        16: st.lists(st.tuples(st.sampled_from([0x00, 0x01, 0x02, 0x03, 0x06, 0x40, 0x80, 0x43]), st.sampled_from([0x02, 0x03, 0x00, 0x04, 0x06, 0x07, 0x08, 0x09, 0x0B, 0x0C]), blob(6, 6)), min_size=1, max_size=4).map(lambda l: b''.join(bytes([a, b]) + c for a, b, c in l)),
        17: as_path_value(True),
        18: st.tuples(ws.asn4, ip4).map(lambda t: struct.pack('!L', t[0]) + t[1]),
        22: pmsi_value(),
        25: st.lists(st.tuples(st.sampled_from([0x00, 0x40]), st.sampled_from([0x02, 0x03, 0x0B, 0x0D]), blob(18, 18)), min_size=1, max_size=3).map(lambda l: b''.join(bytes([a, b]) + c for a, b, c in l)),
        26: st.integers(0, 2**64 - 1).map(lambda n: b'\x01\x00\x0b' + struct.pack('!Q', n)),
        32: rep(12, 1, 4),
        40: prefix_sid_value(),
    }
    return table.get(code)
