"""c08_ref - an independent reading of RFC 7606 (plus RFC 4271 6.3, 6793 6, 7311 3.2, 8092 5) over the bytes of one UPDATE.

Nothing here imports exabgp.  `analyse(body, session)` walks the path attribute block the way RFC 7606 section 4
describes, finds every fault, and says which reactions the RFCs allow for the message as a whole.

Reactions, weakest to strongest:  discard < withdraw < reset.  A stronger reaction than required is always allowed
(RFC 7606 2: "treat-as-withdraw" / "session reset" never let a damaged route in), so every fault carries an upward
closed set.  'ignore' (drop the UPDATE as a whole, announce nothing, store nothing) is tolerated only when every fault
is a malformed attribute of the attribute-discard class.
"""

from __future__ import annotations

import struct

from vlib.refwire import codec

NAMES = {
    1: 'ORIGIN',
    2: 'AS_PATH',
    3: 'NEXT_HOP',
    4: 'MED',
    5: 'LOCAL_PREF',
    6: 'ATOMIC_AGGREGATE',
    7: 'AGGREGATOR',
    8: 'COMMUNITIES',
    9: 'ORIGINATOR_ID',
    10: 'CLUSTER_LIST',
    14: 'MP_REACH',
    15: 'MP_UNREACH',
    16: 'EXTENDED_COMMUNITIES',
    17: 'AS4_PATH',
    18: 'AS4_AGGREGATOR',
    22: 'PMSI_TUNNEL',
    26: 'AIGP',
    32: 'LARGE_COMMUNITIES',
}

# RFC 7606 7.1-7.5, 7.8-7.10, 7.14; RFC 8092 5
WITHDRAW_CLASS = {1, 2, 3, 4, 5, 8, 9, 10, 16, 32}
# RFC 7606 7.6, 7.7 (3.f); RFC 6793 6 (AS4_PATH, AS4_AGGREGATOR); RFC 7311 3.2 (AIGP: "treated as an unrecognised non-transitive attribute")
DISCARD_CLASS = {6, 7, 17, 18, 26}
# RFC 7606 7.11, 7.12, 5.3: the NLRI cannot be located
RESET_CLASS = {14, 15}
# RFC 6514 predates RFC 7606 and no later text gives PMSI_TUNNEL a class for IP routes: both weaker reactions are taken
EITHER_CLASS = {22}

# expected (optional, transitive)
FLAGS = dict(codec.FLAGS)
FLAGS[22] = (1, 1)

RESET = frozenset({'reset'})
WITHDRAW = frozenset({'withdraw', 'reset'})
DISCARD = frozenset({'discard', 'withdraw', 'reset'})
DISCARD_OR_IGNORE = frozenset({'discard', 'ignore', 'withdraw', 'reset'})


def name(code: int | None) -> str:
    if code is None:
        return 'ATTRIBUTE_LIST'
    return NAMES.get(code, 'UNKNOWN')


def split_outer(body: bytes) -> tuple[bytes, bytes, bytes] | None:
    """RFC 4271 4.3 / RFC 7606 3.b: None when the two outer lengths disagree with the message"""
    if len(body) < 4:
        return None
    wlen = struct.unpack('!H', body[:2])[0]
    if 2 + wlen + 2 > len(body):
        return None
    alen = struct.unpack('!H', body[2 + wlen : 4 + wlen])[0]
    if 4 + wlen + alen > len(body):
        return None
    return body[2 : 2 + wlen], body[4 + wlen : 4 + wlen + alen], body[4 + wlen + alen :]


def walk(block: bytes) -> tuple[list[dict], dict | None]:
    """RFC 7606 4: delimit the TLVs; stop at the first one the Total Attribute Length cannot hold"""
    out: list[dict] = []
    pos = 0
    while pos < len(block):
        left = len(block) - pos
        if left < 3 or (block[pos] & 0x10 and left < 4):
            # "fewer than three octets remain (or fewer than four, if the Extended Length bit is set)"
            return out, {'kind': 'short-header', 'offset': pos, 'code': block[pos + 1] if left >= 2 else None}
        flags, code = block[pos], block[pos + 1]
        if flags & 0x10:
            length = struct.unpack('!H', block[pos + 2 : pos + 4])[0]
            head = 4
        else:
            length = block[pos + 2]
            head = 3
        if pos + head + length > len(block):
            # "the length of the last encountered path attribute would cause the Total Attribute Length to be exceeded"
            return out, {'kind': 'overrun', 'offset': pos, 'code': code, 'declared': length, 'available': len(block) - pos - head}
        out.append({'flags': flags, 'code': code, 'value': block[pos + head : pos + head + length], 'offset': pos, 'raw': block[pos : pos + head + length]})
        pos += head + length
    return out, None


def pmsi_malformed(value: bytes) -> bool:
    """RFC 6514 5: flags(1) type(1) label(3) tunnel identifier.  Only the fixed part is demanded: the identifier is
    taken as opaque (its shape per tunnel type matters to MCAST-VPN routes, which are not generated here)"""
    return len(value) < 5


def value_fault(code: int, value: bytes, session: dict, addpath) -> str | None:
    """why the value of a recognised attribute is malformed, or None"""
    if code == 22:
        return 'value' if pmsi_malformed(value) else None
    if code not in NAMES:
        return None
    if not value and code not in (2, 6):
        # RFC 7606 4: only AS_PATH and ATOMIC_AGGREGATE may have a length of zero
        return 'zero-length'
    if code in (14, 15) and len(value) >= 3:
        afi, safi = struct.unpack('!HB', value[:3])
        if [afi, safi] not in session['families']:
            return 'family'
    try:
        codec.decode_attribute(code, value, session['asn4'], addpath)
    except codec.Malformed:
        # two malformations are named after what they are, however the bytes came about (a corruption of the value, a length
        # field that moved the boundary, random bytes): the findings list names their root causes by these names
        if code == 3 and len(value) == 16:
            return 'nexthop-len-16'
        if code in (2, 17) and _only_fault_is_an_empty_segment(value, 4 if (session['asn4'] or code == 17) else 2):
            return 'segment-count-zero'
        return 'value'
    return None


def _only_fault_is_an_empty_segment(value: bytes, width: int) -> bool:
    pos, empty = 0, False
    while pos < len(value):
        if pos + 2 > len(value) or value[pos] not in (1, 2, 3, 4):
            return False
        count = value[pos + 1]
        empty = empty or count == 0
        pos += 2 + count * width
    return pos == len(value) and empty


def analyse(body: bytes, session: dict) -> dict:
    addpath = lambda a, s: [a, s] in session['addpath']  # noqa: E731
    ebgp = session['peer_as'] != session.get('local_as', 65000)
    outer = split_outer(body)
    if outer is None:
        return {'outer_ok': False}
    withdrawn_raw, block, nlri_raw = outer
    tlvs, framing = walk(block)
    faults: list[dict] = []
    unmodelled = False

    def fault(code, kind, allowed, index=None):
        faults.append({'code': code, 'kind': kind, 'allowed': allowed, 'index': index})

    try:
        nlri = codec.decode_nlri(nlri_raw, 1, 1, addpath(1, 1))
        withdrawn = codec.decode_nlri(withdrawn_raw, 1, 1, addpath(1, 1), withdraw=True)
    except codec.Malformed:
        nlri, withdrawn = [], []
        fault(None, 'nlri-field', RESET)

    if framing is not None:
        fault(framing['code'], 'framing:' + framing['kind'], WITHDRAW)

    seen: set[int] = set()
    dropped: set[int] = set()  # indexes of TLVs an "attribute discard" reading leaves out
    mp_reach = None
    mp_unreach = None
    for i, t in enumerate(tlvs):
        code, flags, value = t['code'], t['flags'], t['value']
        if code in seen:
            if code in (14, 15):
                fault(code, 'duplicate', RESET, i)  # RFC 7606 3.g
            else:
                fault(code, 'duplicate', DISCARD, i)  # all occurrences but the first are discarded
                dropped.add(i)
            continue
        seen.add(code)
        if code not in FLAGS:
            if not flags & 0x80:
                # RFC 4271 6.3: unrecognised well-known attribute (RFC 7606 does not revise it): session reset.
                # Behind an earlier fault the bytes may no longer be attribute boundaries at all (a wrong length
                # field shifts everything after it): there the earlier fault decides and withdraw is taken too
                fault(code, 'unrecognized-wellknown', WITHDRAW if faults else RESET, i)
            continue
        opt, trans = FLAGS[code]
        flags_bad = bool(flags & 0x80) != bool(opt) or bool(flags & 0x40) != bool(trans)
        why = value_fault(code, value, session, addpath)
        if why == 'family':
            unmodelled = True
            continue
        if code in RESET_CLASS:
            if why:
                fault(code, why, RESET, i)
            elif flags_bad:
                # RFC 7606 3.c: treat-as-withdraw; the NLRI inside is readable, so it can be done (3.j)
                fault(code, 'flags', WITHDRAW, i)
            decoded = None
            if not why:
                decoded = codec.decode_attribute(code, value, session['asn4'], addpath)
            if code == 14:
                mp_reach = decoded
            else:
                mp_unreach = decoded
            continue
        if not (why or flags_bad):
            continue
        kind = why or 'flags'
        if code in WITHDRAW_CLASS:
            if ebgp and code in (5, 9, 10):
                # RFC 7606 7.5, 7.9, 7.10: from an external neighbour these are discarded whatever they hold
                fault(code, kind, DISCARD_OR_IGNORE, i)
            elif code == 3 and not nlri:
                # RFC 4760 3: NEXT_HOP next to MP_REACH only SHOULD be ignored; RFC 7606 7.3 says treat-as-withdraw
                fault(code, kind, DISCARD_OR_IGNORE, i)
            else:
                fault(code, kind, WITHDRAW, i)
        elif code in DISCARD_CLASS or code in EITHER_CLASS:
            # a flags error on these: RFC 7606 3.c says treat-as-withdraw, 3.f says discard for the RFC 4271 ones
            fault(code, kind, DISCARD_OR_IGNORE, i)
        dropped.add(i)

    # RFC 7606 3.d: the well-known mandatory attributes (LOCAL_PREF is not demanded: the generator of well-formed
    # messages leaves it out on purpose and C02 takes those as valid)
    reach = bool(nlri) or bool(mp_reach and mp_reach.get('nlri'))
    if framing is None and reach:
        for code in (1, 2):
            if code not in seen:
                fault(code, 'missing-mandatory', WITHDRAW)
        if nlri and 3 not in seen:
            fault(3, 'missing-mandatory', WITHDRAW)

    allowed = frozenset({'ok'})
    if faults:
        allowed = frozenset({'discard', 'ignore', 'withdraw', 'reset'})
        for f in faults:
            allowed &= f['allowed']

    # what an attribute-discard reading keeps (also the plain reading when there is no fault)
    kept = b''.join(t['raw'] for i, t in enumerate(tlvs) if i not in dropped)
    kept_body = struct.pack('!H', len(withdrawn_raw)) + withdrawn_raw + struct.pack('!H', len(kept)) + kept + nlri_raw

    return {
        'outer_ok': True,
        'unmodelled': unmodelled,
        'tlvs': tlvs,
        'framing': framing,
        'faults': faults,
        'allowed': allowed,
        'dropped_codes': sorted({tlvs[i]['code'] for i in dropped}),
        # code -> why its TLV (or a later copy of it) is left out by the discard reading
        'dropped_why': {tlvs[f['index']]['code']: f['kind'] for f in faults if f['index'] in dropped},
        'kept_tlvs': [t for i, t in enumerate(tlvs) if i not in dropped],
        'kept_body': kept_body,
        'nlri': nlri,
        'withdrawn': withdrawn,
        'mp_reach': mp_reach,
        'mp_unreach': mp_unreach,
    }
